"""Trace acceptance for the optimizer: every recorded API call, replayed on the Lean state machine with
the recorded user-function table and the solver's recorded choice of points, must end in the same
knobs (bit for bit), flags, appended log rows and kind of outcome."""
import common as C
import suite as S


STATS = {}


def merit_divergence(o, m):
    """(field, implementation, model) of the first evaluation of a `merit` line the model does not reproduce, or None"""
    if "bad-op" in m:
        bad = [e for e in o["evals"] if "unreadable" in e]
        return ("merit-record", bad[0]["unreadable"] if bad else None, m["bad-op"])
    k = m.get("first_bad")
    if k is None:
        return None
    e = o["evals"][k]
    inputs = {key: e.get(key) for key in ("res", "tar", "tol", "weight", "active", "zim", "scalar")}
    model = m.get("first_bad_model") or {}
    if m.get("resid_ok") is False and not e.get("scalar"):
        return ("merit-residuals", {"returned": e.get("out"), "evaluation": k, "inputs": inputs},
                {"MeritNum.residuals of the recorded inputs (current tol / weight / active of the targets)": model.get("model_residuals")})
    if m.get("within_ok") is False:
        return ("merit-last_point_within_tol", {"last_point_within_tol": e.get("within"), "evaluation": k, "inputs": inputs},
                {"MeritNum.lastWithin of the recorded inputs": model.get("model_within")})
    if m.get("pen_ok") is False:
        return ("merit-penalty", {"returned": e.get("out"), "evaluation": k, "inputs": inputs},
                {"MeritNum.penalty2 of the recorded inputs": model.get("model_penalty2")})
    return None


def correspond(prop, prefixes):
    diffs, n = [], 0
    STATS.clear()
    for pref, bdir, bname in prefixes:
        C.run_driver("opt", pref + ".ops.jsonl", pref + ".model.jsonl")
        ops = S.load_lines(pref + ".ops.jsonl")
        mod = S.load_lines(pref + ".model.jsonl")
        for o, m in zip(ops, mod):
            if o.get("op") == "merit":
                # the residual computation of the merit function (XModel/MeritNum.lean) recomputed on doubles by the driver
                # for every evaluation recorded during this API call, from the attributes the Target objects had then
                STATS["merit_evaluations_recomputed"] = STATS.get("merit_evaluations_recomputed", 0) + m.get("n_evals", 0)
                d = merit_divergence(o, m)
                if d:
                    diffs.append({"hist": o["hist"], "call": o["call"]["kind"], "field": d[0], "impl": d[1], "model": d[2],
                                  "line": m.get("n")})
                continue
            if o.get("op") != "call":
                continue
            n += 1
            impl = o["impl"]
            if o["call"]["kind"] in ("step", "solve") and "tb_in_call" in m:
                STATS["step_calls"] = STATS.get("step_calls", 0) + 1
                if m["tb_in_call"]:
                    # hypothesis of C10_disabled_knob_never_changed evaluated by the driver on this call
                    STATS["step_calls_take_best_row_logged_in_call"] = STATS.get("step_calls_take_best_row_logged_in_call", 0) + 1
            if o["call"].get("args") is not None and "vact" in m:
                # step() with per-call enable_* / disable_* arguments: run by the model as Opt.optStepWith from the state
                # before the flags are applied; final flags compared below like those of every other call
                STATS["step_calls_with_per_call_arguments"] = STATS.get("step_calls_with_per_call_arguments", 0) + 1
                if m["exc"] != "ok":
                    STATS["per_call_steps_raising"] = STATS.get("per_call_steps_raising", 0) + 1
            if "num_steps" in m:
                # solver steps of this call whose numerics (clip, trial points) were replayed on doubles by the driver
                STATS["solver_steps_replayed"] = STATS.get("solver_steps_replayed", 0) + m["num_steps"]
            d = None
            if "bad-op" in m:
                d = ("bad-op", None, m["bad-op"])
            elif m["exc"] not in impl["exc"]:
                d = ("exc", impl["exc"], m["exc"])
            elif m["knobs"] != impl["knobs"]:
                d = ("knobs", impl["knobs"], m["knobs"])
            elif (m["vact"], m["tact"]) != (impl["vact"], impl["tact"]):
                d = ("flags", [impl["vact"], impl["tact"]], [m["vact"], m["tact"]])
            elif m["rows"] != impl["rows"]:
                d = ("rows", impl["rows"], m["rows"])
            elif m.get("clip_ok") is False:
                d = ("clip", "result of _clip_to_max_steps as recorded", "OptNum.clip of the recorded argument differs")
            elif m.get("trial_ok") is False:
                d = ("trial-points", "trial points of JacobianSolver.step as recorded",
                     "OptNum.trialPoint (x - 2^-alpha * clipped step, zeroed where it leaves the limits) differs")
            if d:
                diffs.append({"hist": o["hist"], "call": o["call"]["kind"], "field": d[0], "impl": d[1], "model": d[2],
                              "line": m.get("n")})
    return diffs, n
