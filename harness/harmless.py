"""Behaviour-preserving rewrites of /repo: the checks must stay quiet on them.

usage: harmless.py import <worktree> <rewrite-id> <property> [more properties...]
                 (copies patch.diff / equiv.py / NOTES.md into /verif/harmless/<rewrite-id>/)
       harmless.py run <rewrite-id> [check ids...]
                 (apply to /repo, run the existing test suite and the checks, revert; every check must exit 0)
"""
import json
import os
import re
import shutil
import subprocess
import sys
import time

VERIF = os.path.dirname(os.path.dirname(os.path.abspath(__file__)))
REPO = "/repo"
PY = "/venv/bin/python"


def sh(cmd, **kw):
    return subprocess.run(cmd, shell=isinstance(cmd, str), capture_output=True, text=True, **kw)


def do_import(wt, rid, props):
    dst = os.path.join(VERIF, "harmless", rid)
    os.makedirs(dst, exist_ok=True)
    diff = sh(["git", "-C", wt, "diff", "--", "xdeps"]).stdout
    open(os.path.join(dst, "patch.diff"), "w").write(diff)
    for f in ("equiv.py", "NOTES.md"):
        if os.path.exists(os.path.join(wt, f)):
            txt = open(os.path.join(wt, f)).read().replace(wt, "/repo")
            open(os.path.join(dst, f), "w").write(txt)
    stat = sh(["git", "-C", wt, "diff", "--shortstat", "--", "xdeps"]).stdout.strip()
    meta = {"rewrite_id": rid, "properties": props, "diffstat": stat,
            "files_touched": sorted(set(re.findall(r"^\+\+\+ b/(\S+)", diff, flags=re.M)))}
    json.dump(meta, open(os.path.join(dst, "meta.json"), "w"), indent=1)
    print(json.dumps(meta))


def do_run(rid, checks):
    dst = os.path.join(VERIF, "harmless", rid)
    meta = json.load(open(os.path.join(dst, "meta.json")))
    checks = checks or meta["properties"]
    st = sh(["git", "-C", REPO, "status", "--porcelain", "--untracked-files=no"]).stdout.strip()
    if st:
        print("refusing: /repo has uncommitted changes:\n" + st)
        return 2
    a = sh(["git", "-C", REPO, "apply", os.path.join(dst, "patch.diff")])
    if a.returncode != 0:
        print("patch does not apply:", a.stderr)
        return 2
    ev_dir = os.path.join(VERIF, "evidence")
    ev_saved = {f: open(os.path.join(ev_dir, f)).read() for f in os.listdir(ev_dir) if f.endswith(".json")}
    results = {}
    try:
        for c in checks:
            t0 = time.time()
            r = sh([os.path.join(VERIF, "check"), c], cwd=VERIF, timeout=3000)
            lines = [l for l in r.stdout.splitlines() if l.startswith(("VIOLATION", "OK", "INFRA"))]
            info = {"exit": r.returncode, "lines": [l[:200] for l in lines][:4], "wall_s": round(time.time() - t0, 1)}
            m = re.search(r"replay=(\S+)", r.stdout)
            if m:
                try:
                    rp = json.load(open(os.path.join(VERIF, m.group(1))))
                    info["replay_kind"] = rp.get("kind")
                    info["what"] = (rp.get("failure") or {}).get("kind") or rp.get("what")
                except Exception:
                    pass
            results[c] = info
            print(c, json.dumps(info)[:500])
    finally:
        sh(["git", "-C", REPO, "checkout", "--", "."])
        for f, txt in ev_saved.items():
            open(os.path.join(ev_dir, f), "w").write(txt)
    meta.setdefault("checks", {}).update(results)
    meta["quiet"] = all(v["exit"] == 0 for v in meta["checks"].values())
    json.dump(meta, open(os.path.join(dst, "meta.json"), "w"), indent=1)
    print("quiet:", meta["quiet"])
    return 0 if meta["quiet"] else 1


if __name__ == "__main__":
    if sys.argv[1] == "import":
        do_import(sys.argv[2], sys.argv[3], sys.argv[4:])
    else:
        sys.exit(do_run(sys.argv[2], sys.argv[3:]))
