"""./check <id> [--tier quick|thorough] [--replay FILE]  — single entry point of all checks."""
import argparse
import os
import sys
import traceback

sys.path.insert(0, os.path.dirname(os.path.abspath(__file__)))
if hasattr(sys, "set_int_max_str_digits"):
    sys.set_int_max_str_digits(0)
import common as C


def main():
    ap = argparse.ArgumentParser()
    ap.add_argument("prop")
    ap.add_argument("--tier", default=os.environ.get("VERIF_TIER", "quick"), choices=["quick", "thorough"])
    ap.add_argument("--replay", default=None)
    a = ap.parse_args()
    seed = int(os.environ.get("VERIF_SEED", "0"))
    C.TIER = a.tier
    try:
        if a.prop in ("C01", "C02", "C03", "C17", "C18", "C13"):
            import suite_mgr
            return suite_mgr.run(a.prop, a.tier, seed, a.replay)
        if a.prop in ("C07", "C08", "C14"):
            import suite_table
            return suite_table.run(a.prop, a.tier, seed, a.replay)
        if a.prop in ("C04", "C05", "C12", "C06", "C11"):
            import suite_expr
            return suite_expr.run(a.prop, a.tier, seed, a.replay)
        if a.prop in ("C09", "C10", "C15"):
            import suite_opt
            return suite_opt.run(a.prop, a.tier, seed, a.replay)
        if a.prop == "C19":
            import suite_madx
            return suite_madx.run(a.prop, a.tier, seed, a.replay)
        if a.prop == "C20":
            import suite_c20
            return suite_c20.run(a.prop, a.tier, seed, a.replay)
        if a.prop == "C16":
            import suite_lin
            return suite_lin.run(a.prop, a.tier, seed, a.replay)
        print("unknown property", a.prop)
        return 2
    except C.LibraryRaised as e:
        # the implementation raised where no oracle of the harness expects an exception: the correspondence is broken
        v = C.Verdict(a.prop, a.tier, seed)
        lines = [l for l in e.stderr.strip().splitlines() if l.strip()]
        v.coverage.update({"evaluations": 0, "distinct_nontrivial": 0, "rule": "a worker process died of an exception raised inside the library",
                           "worker_died": {"argv": e.argv[-8:], "exception": lines[-1][:300] if lines else ""}})
        v.broken("correspondence: the implementation raised an exception no oracle of the harness expects (%s)" % (lines[-1][:160] if lines else "?"),
                 {"suite": "worker", "worker_argv": e.argv, "traceback_tail": lines[-25:]})
        return v.finish()
    except C.Infra as e:
        print("INFRA-ERROR:", str(e)[:3000])
        return 2
    except Exception:
        traceback.print_exc()
        return 2


if __name__ == "__main__":
    sys.exit(main())
