"""Worker for C19: strings derived from the MAD-X grammar, evaluated deferred (MadxEnv.madexpr over refs),
immediately (MadxEnv.madeval over plain data) and by plain Python on the mirrored term; lark's token
stream and parse tree are recorded for the model's parser.

usage: w_madx.py --family c19 --seed S --n N --out PREFIX [--replay FILE] [--fixed]
"""
import argparse
import json
import math
import operator
import random
import struct
import sys
import time

import xdeps
from xdeps import madxutils as MU
from lark import Lark, Token, Tree

VARS = ["a", "b", "c.d", "k1", "x_2", "zero"]
ELEMS = {"el": {"l": 2.0, "k": -0.5, "z": 0.0}, "q.1": {"l": 1.5, "k": 3.0, "z": 0.0}}
FUNCS1 = ["sin", "cos", "sqrt", "exp", "fabs"]
FUNCS2 = ["atan2", "hypot", "fmod"]
NUMBERS = ["1", "2", "3", "0", "0.5", "2.", "1e2", "1.5e-1", "10", "4"]


def gen_sum(rng, d):
    t = gen_product(rng, d)
    while rng.random() < 0.35 and d > 0:
        t = t + rng.choice([" + ", "+", " - ", "-"]) + gen_product(rng, d - 1)
    return t


def gen_product(rng, d):
    t = gen_power(rng, d)
    while rng.random() < 0.3 and d > 0:
        t = t + rng.choice(["*", " * ", "/", " / "]) + gen_power(rng, d - 1)
    return t


def gen_power(rng, d):
    t = gen_atom(rng, d)
    while rng.random() < 0.2 and d > 0:
        t = t + rng.choice(["^", "**"]) + gen_atom(rng, 0 if rng.random() < 0.7 else d - 1, small=True)
    return t


def gen_atom(rng, d, small=False):
    x = rng.random()
    if small:
        return rng.choice(["2", "3", "0", "1", "-1", "0.5", "(1+1)", "a"])
    if d <= 0 or x < 0.3:
        y = rng.random()
        if y < 0.4:
            return rng.choice(NUMBERS)
        if y < 0.8:
            return rng.choice(VARS)
        e = rng.choice(list(ELEMS))
        return "%s->%s" % (e, rng.choice(["l", "k", "z"]))
    if x < 0.45:
        return rng.choice(["-", "+"]) + gen_atom(rng, d - 1)
    if x < 0.6:
        return "(" + gen_sum(rng, d - 1) + ")"
    if x < 0.75:
        return "%s(%s)" % (rng.choice(FUNCS1), gen_sum(rng, d - 1))
    if x < 0.85:
        return "%s(%s, %s)" % (rng.choice(FUNCS2), gen_sum(rng, d - 1), gen_sum(rng, d - 1))
    return rng.choice(NUMBERS)


def paren(tree):
    """fully parenthesised text of a parse tree"""
    k = tree[0]
    if k == "number":
        return tree[1]
    if k == "var":
        return tree[1]
    if k == "getitem":
        return "%s->%s" % (tree[1], tree[2])
    if k in ("neg", "pos"):
        return "(%s%s)" % ("-" if k == "neg" else "+", paren(tree[1]))
    if k == "call":
        return "%s(%s)" % (tree[1], ", ".join(paren(a) for a in tree[2:]))
    sym = {"add": "+", "sub": "-", "mul": "*", "div": "/", "pow": "^"}[k]
    return "(%s%s%s)" % (paren(tree[1]), sym, paren(tree[2]))


def tree_json(t):
    """lark's parse tree (no transformer) in the model's tree vocabulary"""
    if isinstance(t, Token):
        return str(t)
    kids = [tree_json(c) for c in t.children]
    return [t.data if isinstance(t.data, str) else str(t.data)] + kids


def py_eval(tree, variables, elements, mode):
    """plain Python arithmetic on the tree (`^` is `**`); raises what Python raises"""
    k = tree[0]
    if k == "number":
        return float(tree[1])
    if k == "var":
        return variables[tree[1]]
    if k == "getitem":
        el = elements[tree[1]]
        return el[tree[2]] if mode == "item" else getattr(el, tree[2])
    if k == "neg":
        return -py_eval(tree[1], variables, elements, mode)
    if k == "pos":
        return +py_eval(tree[1], variables, elements, mode)
    if k == "call":
        return getattr(math, tree[1])(*[py_eval(a, variables, elements, mode) for a in tree[2:]])
    a, b = py_eval(tree[1], variables, elements, mode), py_eval(tree[2], variables, elements, mode)
    return {"add": operator.add, "sub": operator.sub, "mul": operator.mul, "div": operator.truediv, "pow": operator.pow}[k](a, b)


def has_zero_div(tree, variables, elements, mode):
    k = tree[0]
    if k in ("number", "var", "getitem"):
        return False
    if k in ("neg", "pos"):
        return has_zero_div(tree[1], variables, elements, mode)
    if k == "call":
        return any(has_zero_div(a, variables, elements, mode) for a in tree[2:])
    if has_zero_div(tree[1], variables, elements, mode) or has_zero_div(tree[2], variables, elements, mode):
        return True
    if k == "div":
        try:
            return py_eval(tree[2], variables, elements, mode) == 0
        except Exception:
            return False
    return False


def outcome(f):
    try:
        v = f()
        if isinstance(v, complex):
            return ("ok", ("complex", v.real.hex(), v.imag.hex()))
        return ("ok", float(v).hex() if v == v else "nan")
    except ZeroDivisionError:
        return ("exc", "ZeroDivisionError")
    except Exception as e:
        return ("exc", type(e).__name__)


class El:
    pass


_ENVS = {}
_PLAIN = {}


def mk_env(vals, mode):
    """one environment per access mode, reused (building the LALR tables dominates the cost)"""
    if mode not in _ENVS:
        _ENVS[mode] = mk_env_fresh({}, mode)
    env, madexpr, madeval, variables, elements = _ENVS[mode]
    variables.clear()
    variables.update(vals)
    for e, d in ELEMS.items():
        for k, v in d.items():
            if mode == "item":
                elements[e][k] = v
            else:
                setattr(elements[e], k, v)
    return _ENVS[mode]


def mk_env_fresh(vals, mode):
    if mode == "item":
        env = MU.MadxEnv()
        for k, v in vals.items():
            env._variables[k] = v
        for e, d in ELEMS.items():
            env._elements[e] = dict(d)
        return env, env.madexpr, env.madeval, env._variables, env._elements
    # attribute mode: elements are objects; build the two evaluators as MadxEnv does, with get="attr"
    from collections import defaultdict
    variables = defaultdict(lambda: 0)
    variables.update(vals)
    elements = {}
    for e, d in ELEMS.items():
        o = El()
        for k, v in d.items():
            setattr(o, k, v)
        elements[e] = o
    m = xdeps.Manager()
    vref, eref, fref = m.ref(variables, "v"), m.ref(elements, "e"), m.ref(math, "f")
    madexpr = MU.MadxEval(vref, fref, eref, get="attr").eval
    madeval = MU.MadxEval(variables, math, elements, get="attr").eval

    class E:
        pass
    env = E()
    env._vref = vref
    env._eref = eref
    return env, madexpr, madeval, variables, elements


PLAIN = Lark(MU.calc_grammar, parser="lalr")
PLAIN_ATTR = Lark(MU.calc_grammar.replace("getitem", "getattr"), parser="lalr")


def run_case(case, fail, stats):
    s, vals, mode = case["text"], case["vals"], case.get("mode", "item")
    env, madexpr, madeval, variables, elements = mk_env(vals, mode)
    lark = PLAIN if mode == "item" else PLAIN_ATTR
    try:
        toks = [[t.type, str(t)] for t in lark.lex(s)]
        tree = tree_json(lark.parse(s))
    except Exception as e:
        case["_tokens"], case["_tree"] = None, None
        stats["unparsable"] += 1
        return
    if isinstance(tree, str):
        tree = None
    if tree is not None:
        tree = normalise(tree)
    case["_tokens"], case["_tree"] = toks, tree
    if tree is None:
        return
    stats["parsed"] += 1
    imm = outcome(lambda: madeval(s))
    try:
        expr = madexpr(s)
        deferred = outcome(lambda: expr._get_value() if hasattr(expr, "_get_value") else expr)
    except ZeroDivisionError:
        expr, deferred = None, ("exc", "ZeroDivisionError")
    except Exception as e:
        expr, deferred = None, ("exc", type(e).__name__)
    py = outcome(lambda: py_eval(tree, variables, elements, mode))
    zd = has_zero_div(tree, variables, elements, mode)
    stats["zero_div_cases"] += zd
    stats["exc_cases"] += imm[0] == "exc"
    if imm != py:
        fail("C19", "immediate-differs-from-python", {"text": s, "immediate": imm, "python": py, "tree": tree})
    if zd:
        # the documented deviation: NaN at the division, then ordinary arithmetic on it; constant
        # sub-expressions are still computed by Python while the tree is built, so raising is allowed too
        stats["zd_deferred_nan"] = stats.get("zd_deferred_nan", 0) + (deferred[0] == "ok")
    elif deferred[0] == "exc" and imm[0] == "exc":
        pass        # both raise; with several faulty sub-terms the first one met may differ
    elif deferred != imm:
        fail("C19", "deferred-differs-from-immediate", {"text": s, "deferred": deferred, "immediate": imm, "vals": vals})
    # the fully parenthesised form means the same
    ptext = paren(tree)
    p_imm = outcome(lambda: madeval(ptext))
    if p_imm != imm:
        fail("C19", "parenthesised-form-differs", {"text": s, "parenthesised": ptext, "value": imm, "parenthesised_value": p_imm})
    # and stays in agreement after the variables change through the manager
    if expr is not None and hasattr(expr, "_get_value") and (case.get("then") or case.get("then_el")):
        # a managed variable defined by the deferred expression: what the manager PUSHES into it has to follow as well
        try:
            env._vref["out__"] = expr
            bound = True
        except Exception:
            bound = False
        try:
            for name, v in case.get("then", []):
                try:
                    env._vref[name] = v
                except Exception:
                    return
            for el, key, v in case.get("then_el", []):
                try:
                    if mode == "item":
                        env._eref[el][key] = v
                    else:
                        setattr(env._eref[el], key, v)
                except Exception:
                    return
            imm2 = outcome(lambda: madeval(s))
            def2 = outcome(expr._get_value)
            zd2 = has_zero_div(tree, variables, elements, mode)
            stats["update_cases"] += 1
            if not zd2 and def2 != imm2:
                fail("C19", "deferred-differs-after-update", {"text": s, "then": case.get("then"), "then_el": case.get("then_el"),
                                                             "deferred": def2, "immediate": imm2})
            elif bound and not zd2 and imm2[0] == "ok":
                stats["pushed_checks"] = stats.get("pushed_checks", 0) + 1
                held = outcome(lambda: variables.get("out__"))
                if held != imm2:
                    fail("C19", "bound-variable-stale-after-update", {"text": s, "mode": mode, "then": case.get("then"),
                                                                      "then_el": case.get("then_el"), "holds": held, "immediate": imm2})
        finally:
            if bound:
                try:
                    env._vref["out__"] = 0.0      # drop the definition again
                except Exception:
                    pass


def fhex(x):
    """a double as the hex of its little-endian bytes (the float encoding of the driver's line protocol)"""
    return struct.pack("<d", float(x)).hex()


def run_assign_case(case, fail, stats):
    """statements `name = expression` (the other alternative of the grammar's start rule): evaluated deferred they DEFINE
    the variable through the manager; a later statement reads it.  After every statement and after every later change
    of a variable through the manager, each assigned variable holds what the same statements give when evaluated
    immediately, in order, over plain data."""
    stmts, vals, mode = case["stmts"], case["vals"], case.get("mode", "item")
    env, madexpr, madeval, variables, elements = mk_env(vals, mode)
    case["_tokens"], case["_tree"] = None, None
    targets = [st.split("=")[0].strip() for st in stmts]
    # for the model (driver op on `stmt_tokens`): lark's token stream of every statement, the plain values and the element
    # attributes as exact doubles, and — filled in below — what the real evaluators gave after every step
    lark = PLAIN if mode == "item" else PLAIN_ATTR
    try:
        case["_stmt_tokens"] = [[[t.type, str(t)] for t in lark.lex(st)] for st in stmts]
    except Exception:
        case["_stmt_tokens"] = None
    case["_plain"] = [[k, fhex(v)] for k, v in sorted(vals.items())]
    case["_elems"] = [[e, k, fhex(v)] for e, d in sorted(ELEMS.items()) for k, v in sorted(d.items())]
    case["_updates"] = []
    record = case["_assign"] = {"targets": targets, "steps": []}
    if mode not in _PLAIN:
        d = {}
        _PLAIN[mode] = (d, MU.MadxEval(d, math, elements, get=mode).eval)
    plain, imm_eval = _PLAIN[mode]
    plain.clear()
    plain.update(vals)

    def immediate():
        out = {}
        for st in stmts:
            r = outcome(lambda: imm_eval(st))
            if r[0] != "ok":
                return None
        for t in targets:
            out[t] = outcome(lambda: plain[t])
        return out
    try:
        want = immediate()
        if want is None:
            stats["assign_skipped"] = stats.get("assign_skipped", 0) + 1
            return
        try:
            for st in stmts:
                madexpr(st)
        except Exception as e:
            fail("C19", "deferred-assignment-raises", {"stmts": stmts, "mode": mode, "exc": type(e).__name__})
            return
        stats["assign_cases"] = stats.get("assign_cases", 0) + 1
        got = {t: outcome(lambda: variables.get(t)) for t in targets}
        record["steps"].append({"def": got, "imm": want})
        if got != want:
            fail("C19", "assigned-variable-differs-from-immediate", {"stmts": stmts, "mode": mode, "vals": vals, "holds": got, "immediate": want})
            return
        for name, v in case.get("then", []):
            try:
                env._vref[name] = v
            except Exception:
                stats["assign_update_raises"] = stats.get("assign_update_raises", 0) + 1
                return
            plain[name] = v
            want = immediate()
            if want is None:
                return
            got = {t: outcome(lambda: variables.get(t)) for t in targets}
            case["_updates"].append([name, fhex(v)])
            record["steps"].append({"def": got, "imm": want})
            stats["assign_updates"] = stats.get("assign_updates", 0) + 1
            if got != want:
                fail("C19", "assigned-variable-stale-after-update", {"stmts": stmts, "mode": mode, "vals": vals, "then": [name, v],
                                                                    "holds": got, "immediate": want})
                return
    finally:
        for t in targets:
            try:
                env._vref[t] = 0.0       # drop the definitions again (the environment is reused)
            except Exception:
                pass
            for k in [k for k in list(variables) if k == t]:
                del variables[k]


def safe_expr(rng, depth):
    """an expression without division / functions with restricted domains (statements that raise are skipped anyway)"""
    for _ in range(20):
        t = gen_sum(rng, depth)
        if "/" not in t and "sqrt" not in t and "fmod" not in t and "^" not in t and "**" not in t:
            return t
    return "a + 1"


def normalise(tree):
    """lark inlines `?rule` nodes with one child: tokens that stand for themselves become number/var"""
    if isinstance(tree, str):
        return tree
    return ["getitem" if tree[0] == "getattr" else tree[0]] + [normalise(c) for c in tree[1:]]


# MAD-X names may contain dots: the VARIABLE `el.l` and the attribute `el->l` of the ELEMENT `el` are different places
# with the same dotted spelling (and so are `el.l->x` and `el->l.x`)
COLLIDE = ["%s.%s" % (e, k) for e in sorted(ELEMS) for k in ("l", "k", "z")]


def leaf_places(tree, out):
    """dotted spelling -> the distinct places (variable / element attribute) a tree reads under that spelling"""
    if isinstance(tree, str):
        return out
    if tree[0] == "var":
        out.setdefault(tree[1], set()).add(("v", tree[1]))
    elif tree[0] == "getitem":
        out.setdefault("%s.%s" % (tree[1], tree[2]), set()).add(("e", tree[1], tree[2]))
    else:
        for c in tree[1:]:
            leaf_places(c, out)
    return out


def run_seq_case(case, fail, stats):
    """several strings evaluated one after the other through ONE evaluator object, the way a lattice import uses a MadxEnv
    (a fresh one per case, so that the case is self-contained): every string means the same deferred as immediately and as
    Python computes on its tree — when first built, after every change of a variable / an element attribute through the
    manager, and when built again after the changes; a variable bound to the deferred expression holds that value too.
    The names are drawn so that variables are spelled like element->attribute paths."""
    texts, vals, mode = case["texts"], case["vals"], case.get("mode", "item")
    env, madexpr, madeval, variables, elements = mk_env_fresh(vals, mode)
    for e, d in case.get("extra_elements", {}).items():
        for k, v in d.items():
            if mode == "item":
                elements.setdefault(e, {})[k] = v
            else:
                if e not in elements:
                    elements[e] = El()
                setattr(elements[e], k, v)
    case["_tokens"], case["_tree"] = None, None
    lark = PLAIN if mode == "item" else PLAIN_ATTR
    stats["seq_cases"] = stats.get("seq_cases", 0) + 1

    def agree(kind, idx, s, tree, deferred, extra):
        """deferred == immediate == Python on the current data (the documented NaN-for-x/0 deviation aside)"""
        imm = outcome(lambda: madeval(s))
        py = outcome(lambda: py_eval(tree, variables, elements, mode))
        detail = dict({"texts": texts, "index": idx, "text": s, "mode": mode, "vals": vals, "deferred": deferred,
                       "immediate": imm, "python": py}, **extra)
        if imm != py:
            fail("C19", "immediate-differs-from-python", detail)
        if has_zero_div(tree, variables, elements, mode):
            return None
        if deferred[0] == "exc" and imm[0] == "exc":
            return None
        if deferred != imm:
            fail("C19", kind, detail)
        return imm if imm[0] == "ok" else None

    def pushed(kind, idx, s, imm, extra):
        held = outcome(lambda: variables.get("out%d__" % idx))
        stats["seq_pushed_checks"] = stats.get("seq_pushed_checks", 0) + 1
        if held != imm:
            fail("C19", kind, dict({"texts": texts, "index": idx, "text": s, "mode": mode, "vals": vals, "holds": held,
                                    "immediate": imm}, **extra))

    built, places = [], {}
    for idx, s in enumerate(texts):
        try:
            tree = tree_json(lark.parse(s))
        except Exception:
            stats["unparsable"] += 1
            continue
        if isinstance(tree, str):
            continue
        tree = normalise(tree)
        leaf_places(tree, places)
        stats["seq_strings"] = stats.get("seq_strings", 0) + 1
        try:
            expr = madexpr(s)
            deferred = outcome(lambda: expr._get_value() if hasattr(expr, "_get_value") else expr)
        except Exception as e:
            expr, deferred = None, ("exc", type(e).__name__)
        imm = agree("deferred-differs-from-immediate", idx, s, tree, deferred, {"when": "fresh"})
        built.append([idx, s, tree, expr if deferred[0] == "ok" else None, False, imm])
    stats["seq_colliding_spellings"] = stats.get("seq_colliding_spellings", 0) + sum(len(p) > 1 for p in places.values())
    # every deferred expression defines a managed variable: what the manager pushes into it has to follow as well
    for b in built:
        idx, s, tree, expr, _, imm = b
        if expr is not None and hasattr(expr, "_get_value"):
            try:
                env._vref["out%d__" % idx] = expr
                b[4] = True
            except Exception:
                continue
            if imm is not None:
                pushed("bound-variable-differs-from-immediate", idx, s, imm, {"when": "bound"})
    updates = [("v", u) for u in case.get("then", [])] + [("e", u) for u in case.get("then_el", [])]
    for where, u in updates:
        try:
            if where == "v":
                env._vref[u[0]] = u[1]
            elif mode == "item":
                env._eref[u[0]][u[1]] = u[2]
            else:
                setattr(env._eref[u[0]], u[1], u[2])
        except Exception:
            stats["seq_update_raises"] = stats.get("seq_update_raises", 0) + 1
            return
        for idx, s, tree, expr, bound, _ in built:
            if expr is None or not hasattr(expr, "_get_value"):
                continue
            stats["seq_update_checks"] = stats.get("seq_update_checks", 0) + 1
            imm2 = agree("deferred-differs-after-update", idx, s, tree, outcome(expr._get_value), {"after": [where] + list(u)})
            if bound and imm2 is not None:
                pushed("bound-variable-stale-after-update", idx, s, imm2, {"after": [where] + list(u)})
    if updates:
        # the same strings built again by the same evaluator, on the changed data
        for idx, s, tree, expr, bound, _ in built:
            try:
                again = madexpr(s)
                deferred = outcome(lambda: again._get_value() if hasattr(again, "_get_value") else again)
            except Exception as e:
                deferred = ("exc", type(e).__name__)
            stats["seq_rebuilt_checks"] = stats.get("seq_rebuilt_checks", 0) + 1
            agree("rebuilt-deferred-differs-after-update", idx, s, tree, deferred, {"after": [[w] + list(u) for w, u in updates]})


def gen_seq_case(rng, depth):
    """two to four strings over variables spelled like element->attribute paths; one spelling is forced to occur both as a
    variable and as an element attribute, in the same string or in two successive ones, in either order"""
    global VARS
    keep, VARS = VARS, COLLIDE + ["a", "el", "l", "q.1"]
    try:
        texts = [gen_sum(rng, rng.randint(0, min(depth, 3))) for _ in range(rng.randint(2, 4))]
    finally:
        VARS = keep
    e, k = rng.choice(sorted(ELEMS)), rng.choice(["l", "k", "z"])
    leaves = ["%s.%s" % (e, k), "%s->%s" % (e, k)]
    rng.shuffle(leaves)
    i = rng.randrange(len(texts))
    j = rng.randrange(i, len(texts))
    texts[i] = rng.choice(["%s + %s", "%s - (%s)", "%s*(%s)"]) % (leaves[0], texts[i])
    texts[j] = rng.choice(["(%s) + %s", "(%s) - %s", "(%s)*%s"]) % (texts[j], leaves[1])
    pool = [0.0, 1.0, 2.0, -1.5, 0.25, 3.0, 7.0]
    vals = {v: rng.choice(pool) for v in COLLIDE + ["a", "el", "l", "q.1"]}
    case = {"kind": "seq", "texts": texts, "vals": vals, "mode": rng.choice(["item", "attr"]),
            "then": [[rng.choice([leaves[0].replace("->", "."), rng.choice(COLLIDE)]), rng.choice([0.5, -0.0, 2.5, -3.0, 11.0])]
                     for _ in range(rng.randint(1, 2))]}
    if rng.random() < 0.7:
        case["then_el"] = [[e, k, rng.choice([0.5, -2.0, 4.0])]]
    return case


def main():
    ap = argparse.ArgumentParser()
    ap.add_argument("--family", default="c19")
    ap.add_argument("--seed", type=int, default=0)
    ap.add_argument("--n", type=int, default=100)
    ap.add_argument("--out", required=True)
    ap.add_argument("--replay", default=None)
    ap.add_argument("--fixed", action="store_true")
    ap.add_argument("--depth", type=int, default=4)
    a = ap.parse_args()
    rng = random.Random(a.seed * 1000003 + 19)
    t0 = time.time()
    stats = dict(ops=0, histories=0, parsed=0, unparsable=0, zero_div_cases=0, exc_cases=0, update_cases=0)
    failures, lines = [], []
    if a.replay:
        cases = [c for ops in json.load(open(a.replay)) for c in ops]
    else:
        cases = []
        if a.fixed:
            for s in ["+1+2^-2", "b.c", "1+a.b*-3", "sin(3)^2", "el->l*el->k", "2^3^2", "-2^2", "2**-1", "a/zero", "1/(a-a)+1",
                      "(a+b)*c.d-k1/x_2", "atan2(a, b)^2", "--a", "-+-a", "2^-a", "a^b^2", "1e2*a", "2.*3", "q.1->l/el->k",
                      "exp(-a^2/2)", "a-b-c.d", "a/b/c.d", "a-(b-c.d)", "(a)", "((a+1))*2"]:
                for mode in ("item", "attr"):
                    cases.append({"text": s, "vals": {"a": 2.0, "b": 3.0, "c.d": 4.0, "k1": 0.5, "x_2": -1.5, "zero": 0.0, "a.b": 7.0, "b.c": 4.0},
                                  "mode": mode, "then": [["a", 5.0], ["zero", 1.0]]})
            # a variable changed to a value that is == to the old one but distinguishable (the sign of a zero): every function
            # call has to be made again, whatever it remembers of its previous arguments
            for mode in ("item", "attr"):
                for text in ["atan2(zero, 0-1)", "atan2(zero, k1-1)*2", "1/(atan2(zero, 0-1))", "hypot(zero, 1) + atan2(zero, 0-2)"]:
                    cases.append({"text": text, "vals": {"a": 2.0, "b": 3.0, "c.d": 4.0, "k1": 0.5, "x_2": -1.5, "zero": 0.0},
                                  "mode": mode, "then": [["zero", -0.0]]})
                    cases.append({"text": text, "vals": {"a": 2.0, "b": 3.0, "c.d": 4.0, "k1": 0.5, "x_2": -1.5, "zero": -0.0},
                                  "mode": mode, "then": [["zero", 0.0]]})
            # statements: a chain of definitions made through the deferred evaluator
            for mode in ("item", "attr"):
                cases.append({"kind": "assign", "stmts": ["t1__ = a*2", "t2__ = t1__ + b"], "mode": mode,
                              "vals": {"a": 2.0, "b": 3.0, "c.d": 4.0, "k1": 0.5, "x_2": -1.5, "zero": 0.0},
                              "then": [["a", 5.0], ["b", -1.0], ["a", 0.5]]})
                cases.append({"kind": "assign", "stmts": ["t1__ = el->l*k1", "t2__ = -t1__", "t3__ = t2__*t1__ + a"], "mode": mode,
                              "vals": {"a": 2.0, "b": 3.0, "c.d": 4.0, "k1": 0.5, "x_2": -1.5, "zero": 0.0},
                              "then": [["k1", 2.0], ["a", 1.0]]})
                # for the model's float algebra (driver op on statement lists): every NUMBER form, division, powers, the
                # one- and two-argument functions it has, signed zeros and an element attribute behind a sign
                base = {"a": 2.0, "b": 3.0, "c.d": 4.0, "k1": 0.5, "x_2": -1.5, "zero": 0.0}
                cases.append({"kind": "assign", "mode": mode, "vals": dict(base),
                              "stmts": ["m1__ = 1 + 2*a", "m2__ = m1__ * 0.5 + 2.", "m3__ = m2__ * 1e2 - 1.5e-1", "m4__ = m3__ / 10 + 4 * 3 - 0 + .25 + 1E+1 + 12.5e-3"],
                              "then": [["a", 0.1], ["a", -7.25], ["b", 1.0]]})
                cases.append({"kind": "assign", "mode": mode, "vals": dict(base),
                              "stmts": ["d1__ = a / b", "d2__ = d1__ / (c.d - 1) - q.1->l / el->k", "d3__ = -d2__ ^ 2 + b ** -1 + d1__ ^ 0.5", "d4__ = 2 ^ 3 ^ 2 - d3__ ** 3"],
                              "then": [["a", 5.0], ["b", -1.0], ["c.d", 0.5], ["a", 1e-3]]})
                cases.append({"kind": "assign", "mode": mode, "vals": dict(base),
                              "stmts": ["s1__ = sin(a) + cos(b)", "s2__ = exp(s1__) * sqrt(c.d + k1)", "s3__ = atan2(s2__, k1 - 1) - fabs(x_2) + atan2(zero, 0 - 1)",
                                        "s4__ = +s3__ - -s2__ * exp(-a ^ 2 / 2)"],
                              "then": [["a", 0.3], ["zero", -0.0], ["k1", 2.0], ["x_2", 1e10], ["c.d", 1e-300]]})
        for i in range(a.n):
            if i % 8 == 7:
                vals = {v: rng.choice([0.0, 1.0, 2.0, -1.5, 0.25, 3.0]) for v in VARS}
                n_st = rng.randint(1, 3)
                stmts = []
                for k in range(n_st):
                    body = safe_expr(rng, rng.randint(1, 2))
                    if k > 0:
                        body = "t%d__ %s (%s)" % (rng.randint(1, k), rng.choice(["+", "*", "-"]), body)
                    stmts.append("t%d__ = %s" % (k + 1, body))
                cases.append({"kind": "assign", "stmts": stmts, "vals": vals, "mode": rng.choice(["item", "attr"]),
                              "then": [[rng.choice(VARS[:5]), rng.choice([0.0, 1.0, 2.5, -3.0])] for _ in range(rng.randint(1, 3))]})
                continue
            vals = {v: rng.choice([0.0, 1.0, 2.0, -1.5, 0.25, 3.0]) for v in VARS}
            vals["zero"] = 0.0
            c = {"text": gen_sum(rng, rng.randint(1, a.depth)), "vals": vals, "mode": rng.choice(["item", "item", "attr"])}
            if rng.random() < 0.5:
                c["then"] = [[rng.choice(VARS), rng.choice([0.0, -0.0, 1.0, 2.5, -3.0])] for _ in range(rng.randint(1, 2))]
            if rng.random() < 0.4:
                el = rng.choice(sorted(ELEMS))
                c["then_el"] = [[el, rng.choice(sorted(ELEMS[el])), rng.choice([0.5, -2.0, 4.0])]]
            cases.append(c)
        # strings sharing one evaluator, over variables spelled like element->attribute paths (a generator of its own: the
        # cases above stay what they were)
        rng_seq = random.Random(a.seed * 1000003 + 1919)
        for i in range(a.n // 16):
            cases.append(gen_seq_case(rng_seq, a.depth))
        if a.fixed:
            # variables spelled like an element->attribute path (`el.l` next to `el->l`): several strings through one evaluator,
            # the variable seen first / the element seen first
            cvals = {"a": 2.0, "b": 3.0, "a.b": -1.25, "el.l": 7.0, "el.k": 0.25, "el.z": 1.0, "q.1.l": 0.5, "q.1.k": -4.0, "q.1.z": 6.0}
            seq = ["el.k*2", "el->k*el->l", "(el->k+el.k)^2", "atan2(el.l,(el->l+1))", "a.b-el->l"]
            for mode in ("item", "attr"):
                for texts in [seq, [seq[i] for i in (1, 0, 3, 2, 4)], ["q.1.k", "q.1->k"], ["q.1->k", "q.1.k"],
                              ["el->z + 1", "2*el.z", "el->z - el.z"], ["sin(q.1.l)", "cos(q.1->l)", "q.1.l^2 + q.1->l^2"]]:
                    cases.append({"kind": "seq", "texts": texts, "vals": cvals, "mode": mode,
                                  "then": [["el.k", 0.75], ["el.l", 11.0], ["q.1.k", 8.0], ["el.z", -0.0]],
                                  "then_el": [["el", "k", -0.04], ["el", "l", 2.5], ["q.1", "k", 0.3], ["q.1", "l", -1.0]]})
                # two element attributes with one dotted spelling (`el.l->x`, `el->l.x`), and the variable `el.l.x`
                for texts in [["el.l->x - el->l.x", "el.l.x"], ["el.l.x*2", "el->l.x", "el.l->x"], ["el->l.x", "el.l->x + el.l.x"]]:
                    cases.append({"kind": "seq", "texts": texts, "vals": dict(cvals, **{"el.l.x": 1.0}), "mode": mode,
                                  "extra_elements": {"el.l": {"x": 5.0}, "el": {"l.x": 9.0}},
                                  "then": [["el.l.x", -2.0]], "then_el": [["el.l", "x", 0.5], ["el", "l.x", 4.0]]})
            # one string holding both spellings, as ordinary cases (so that the model's parser sees these names too); last,
            # because they go through the evaluator that the ordinary cases of this worker share
            for s in ["el.l - el->l", "el->k*el.k", "(el->k+el.k)^2", "atan2(el.l,(el->l+1))", "q.1.k/q.1->k", "q.1->l + q.1.l*a",
                      "-el.z + el->z + el.l", "hypot(q.1->z, q.1.z)"]:
                for mode in ("item", "attr"):
                    cases.append({"text": s, "vals": cvals, "mode": mode, "then": [["el.l", 11.0], ["el.k", 0.75], ["q.1.k", 8.0]],
                                  "then_el": [["el", "k", -0.04], ["q.1", "l", 2.5]]})
    for i, case in enumerate(cases):
        def fail(prop, kind, detail, known=None, i=i):
            failures.append({"property": prop, "kind": kind, "hist": i, "op_index": 0, "detail": detail, "known": known})
        stats["ops"] += 1
        stats["histories"] += 1
        if case.get("kind") == "assign":
            run_assign_case(case, fail, stats)
            case.setdefault("text", "; ".join(case["stmts"]))
        elif case.get("kind") == "seq":
            run_seq_case(case, fail, stats)
            case.setdefault("text", " ;; ".join(case["texts"]))
        else:
            run_case(case, fail, stats)
        line = {k: v for k, v in case.items() if not k.startswith("_")}
        line["op"] = "case"
        line["hist"] = i
        line["tokens"] = case.get("_tokens")
        line["impl"] = {"tree": case.get("_tree")}
        for k in ("stmt_tokens", "plain", "elems", "updates"):
            line.pop(k, None)
        if case.get("kind") == "assign" and case.get("_stmt_tokens") is not None and case["_assign"]["steps"]:
            line["stmt_tokens"] = case["_stmt_tokens"]
            line["plain"], line["elems"], line["updates"] = case["_plain"], case["_elems"], case["_updates"]
            line["impl"]["assign"] = case["_assign"]
        lines.append(line)
    with open(a.out + ".ops.jsonl", "w") as f:
        for ln in lines:
            f.write(json.dumps(ln) + "\n")
    stats["wall_s"] = time.time() - t0
    with open(a.out + ".res.json", "w") as f:
        json.dump({"stats": stats, "failures": failures}, f)


if __name__ == "__main__":
    main()
