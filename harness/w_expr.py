"""Worker for the expression-level properties C04 C05 C06 C11 C12: generate cases, run them on the real
reference classes (scratch copy on PYTHONPATH), apply each property's direct oracle.

usage: w_expr.py --family c04|c05|c06|c11|c12 --seed S --n N --out PREFIX [--replay FILE]
Every case is a JSON object; generation and replay go through the same `run_case`.
"""
import argparse
import builtins
import json
import math
import operator
import pickle
import random
import sys
import time

import numpy as np
import xdeps
import xdeps.refs as R

BIN = {"add": operator.add, "sub": operator.sub, "mul": operator.mul, "truediv": operator.truediv,
       "floordiv": operator.floordiv, "mod": operator.mod, "pow": operator.pow, "and": operator.and_,
       "or": operator.or_, "xor": operator.xor, "lt": operator.lt, "le": operator.le, "ge": operator.ge,
       "gt": operator.gt, "rshift": operator.rshift, "lshift": operator.lshift, "matmul": operator.matmul}
IOP = {"add": operator.iadd, "sub": operator.isub, "mul": operator.imul, "truediv": operator.itruediv,
       "floordiv": operator.ifloordiv, "mod": operator.imod, "pow": operator.ipow, "and": operator.iand,
       "or": operator.ior, "xor": operator.ixor, "rshift": operator.irshift, "lshift": operator.ilshift}
SYM = {"add": "+", "sub": "-", "mul": "*", "truediv": "/", "floordiv": "//", "mod": "%", "pow": "**", "and": "&",
       "or": "|", "xor": "^", "lt": "<", "le": "<=", "ge": ">=", "gt": ">", "rshift": ">>", "lshift": "<<", "matmul": "@"}
GUARDED = ("truediv", "floordiv", "mod")
UN = {"neg": operator.neg, "pos": operator.pos, "invert": operator.invert}
BUILTIN = {"abs": builtins.abs, "round": builtins.round, "divmod": builtins.divmod,
           "trunc": math.trunc, "floor": math.floor, "ceil": math.ceil}


def fpow(x, y=2):
    return x ** y


def fadd(x, y=0, z=0):
    return x + y + z


def fpair(x, y=1):
    return (x + y, x - y)


def fsum(seq):
    return sum(seq)


def fnorm(p):
    return math.hypot(p.x, p.y)


FUNCS = {"fpow": fpow, "fadd": fadd, "hyp": math.hypot, "fpair": fpair, "fsum": fsum, "fnorm": fnorm}


class Obj:
    def __repr__(self):          # by content, so that two environments can be compared
        return "Obj(%r)" % (sorted(vars(self).items()),)


# ----------------------------------------------------------------------------
# values
# ----------------------------------------------------------------------------
class Box(dict):
    """a top-level container that can be ordered against numbers (by its size), so that a definition like `g < 3` on the
    container ref itself has a value; module level, because a manager holding one is pickled"""

    def __lt__(self, other):
        return len(self) < other

    def __le__(self, other):
        return len(self) <= other

    def __gt__(self, other):
        return len(self) > other

    def __ge__(self, other):
        return len(self) >= other


def val_py(j):
    k, v = next(iter(j.items()))
    if k == "int":
        return int(v)
    if k == "float":
        return float.fromhex(v)
    if k == "bool":
        return bool(v)
    if k == "complex":
        return complex(float.fromhex(v[0]), float.fromhex(v[1]))
    if k == "np":
        return np.dtype(v[0]).type(v[1])
    if k == "arr":
        return np.array(v[1], dtype=v[0])
    if k == "str":
        return v
    if k == "key":
        return key_py(v)          # a constant used as an item key: str / int / bool / None / {"f": hex} / {"t": [keys]}
    raise ValueError(j)


def val_json(v):
    if isinstance(v, bool):
        return {"bool": v}
    if isinstance(v, int):
        return {"int": v}
    if isinstance(v, float):
        return {"float": v.hex()}
    if isinstance(v, complex):
        return {"complex": [v.real.hex(), v.imag.hex()]}
    if isinstance(v, np.generic):
        return {"np": [v.dtype.name, v.item()]}
    if isinstance(v, np.ndarray):
        return {"arr": [v.dtype.name, v.tolist()]}
    if isinstance(v, str):
        return {"str": v}
    raise ValueError(repr(v))


def same(a, b):
    if isinstance(a, tuple) or isinstance(b, tuple):
        return isinstance(a, tuple) and isinstance(b, tuple) and len(a) == len(b) and all(same(x, y) for x, y in zip(a, b))
    if isinstance(a, np.ndarray) or isinstance(b, np.ndarray):
        return isinstance(a, np.ndarray) and isinstance(b, np.ndarray) and a.dtype == b.dtype and a.shape == b.shape and \
            bool(np.all((a == b) | ((a != a) & (b != b))))
    if type(a) is not type(b):
        return False
    try:
        if a != a and b != b:
            return True
    except Exception:
        pass
    return bool(a == b)


def unsigned_zeros(v):
    """the value with the sign of every zero component dropped (-0.0 -> 0.0)"""
    try:
        if isinstance(v, (complex, np.complexfloating)):
            re_, im_ = v.real, v.imag
            return type(v)(complex(re_ if re_ != 0 else abs(re_), im_ if im_ != 0 else abs(im_)))
        if isinstance(v, (float, np.floating)) and v == 0:
            return type(v)(abs(v))
    except Exception:
        pass
    return v


def describe(v):
    return "%s:%r" % (type(v).__name__, v)


# ----------------------------------------------------------------------------
# environment: containers, refs
# ----------------------------------------------------------------------------
class Env:
    def __init__(self, vals):
        self.m = xdeps.Manager()
        self.box = {}
        for k, vj in vals.items():
            self.box[k] = val_py(vj)
        self.box["L"] = [3, 5, 7, 11]
        self.box["D"] = {"p": 2, "q": 9, 1: 4, "k'": 6, 2 ** 61: 8}      # hash(2**61) == hash(1)
        o = Obj()
        o.u, o.w = 4, 2.5
        o.lst = [1, 2, 3]           # a container that hangs off an attribute
        o.pos = Obj()               # an object that hangs off an attribute
        o.pos.x, o.pos.y = 3.0, 4.0
        self.box["o"] = o
        # keys of every kind that `repr` prints structurally (C11 / C06: tuple, bool, None, negative, float keys);
        # K[True] / K[False] select the entries 1 / 0; plain values only (snapshots compare the box by ==)
        self.box["K"] = {(1, "a"): {(3,): 1.5}, (3,): 22, (): 23, None: 24, -1: 25, 0.5: 26, -2.5: 27, (1, (2, 3)): 28,
                         0: 29, 1: 31, (-1, 0.5, None, True): 30, ((),): 32}
        self.r = self.m.ref(self.box, "r")
        self.ob = self.m.ref(o, "ob")          # the same object also as a TOP-LEVEL container: ob.pos.x has no item owner
        self.f = self.m.ref(dict(FUNCS), "f")

    # deferred construction through the user-level operators
    def build(self, t):
        k = t[0]
        if k == "ref":
            return self.r[t[1]]
        if k == "root":
            return self.r
        if k == "obroot":
            return self.ob
        if k == "lit":
            return val_py(t[1])
        if k == "litexpr":
            return R.LiteralExpr(val_py(t[1]))
        if k == "bin":
            return BIN[t[1]](self.build(t[2]), self.build(t[3]))
        if k == "un":
            return UN[t[1]](self.build(t[2]))
        if k == "builtin":
            return BUILTIN[t[1]](self.build(t[2]), *[self.build(p) for p in t[3]])
        if k == "call":
            # the called function: an item of the function container (a ref) or, with a fifth entry "litexpr", a
            # dependency-free node wrapping the plain callable
            fn = R.LiteralExpr(FUNCS[t[1]]) if len(t) > 4 and t[4] == "litexpr" else self.f[t[1]]
            return fn(*[self.build(a) for a in t[2]], **{n: self.build(a) for n, a in t[3]})
        if k == "item":
            return self.build(t[1])[self.build(t[2])]
        if k == "attr":
            return getattr(self.build(t[1]), t[2])
        raise ValueError(t)

    # what Python computes on the current operand values, with the documented NaN deviation
    def direct(self, t, guard=True):
        k = t[0]
        if k == "ref":
            return self.box[t[1]]
        if k == "root":
            return self.box
        if k == "obroot":
            return self.box["o"]
        if k in ("lit", "litexpr"):
            return val_py(t[1])
        if k == "bin":
            a, b = self.direct(t[2], guard), self.direct(t[3], guard)
            try:
                return BIN[t[1]](a, b)
            except ZeroDivisionError:
                if guard and t[1] in GUARDED and (has_ref(t[2]) or has_ref(t[3])):
                    return float("nan")
                raise
        if k == "un":
            return UN[t[1]](self.direct(t[2], guard))
        if k == "builtin":
            return BUILTIN[t[1]](self.direct(t[2], guard), *[self.direct(p, guard) for p in t[3]])
        if k == "call":
            return FUNCS[t[1]](*[self.direct(a, guard) for a in t[2]], **{n: self.direct(a, guard) for n, a in t[3]})
        if k == "item":
            return self.direct(t[1], guard)[self.direct(t[2], guard)]
        if k == "attr":
            return getattr(self.direct(t[1], guard), t[2])
        raise ValueError(t)

    def leaf_refs(self, t, out=None):
        """the refs (with owner chains) that occur anywhere inside: the dependency set C05 demands"""
        out = set() if out is None else out
        k = t[0]
        if k == "ref":
            out.add(self.r[t[1]])
        elif k == "bin":
            self.leaf_refs(t[2], out), self.leaf_refs(t[3], out)
        elif k == "un":
            self.leaf_refs(t[2], out)
        elif k == "builtin":
            self.leaf_refs(t[2], out)
            for p in t[3]:
                self.leaf_refs(p, out)
        elif k == "call":
            if not (len(t) > 4 and t[4] == "litexpr"):
                out.add(self.f[t[1]])          # a function taken from the function container is a location read
            for a in t[2]:
                self.leaf_refs(a, out)
            for _, a in t[3]:
                self.leaf_refs(a, out)
        elif k == "item":
            self.leaf_refs(t[1], out), self.leaf_refs(t[2], out)
            if has_ref(t[1]):
                out.add(self.build(t))
        elif k == "attr":
            self.leaf_refs(t[1], out)
            if has_ref(t[1]):
                out.add(self.build(t))
        return out


def has_ref(t):
    k = t[0]
    if k in ("ref", "root", "obroot"):
        return True
    if k == "lit":
        return False
    if k == "litexpr":
        return True          # a LiteralExpr is a deferred node although it reads nothing
    if k == "bin":
        return has_ref(t[2]) or has_ref(t[3])
    if k in ("un",):
        return has_ref(t[2])
    if k == "builtin":
        return has_ref(t[2]) or any(has_ref(p) for p in t[3])
    if k == "call":
        return True
    if k == "item":
        return has_ref(t[1]) or has_ref(t[2])
    if k == "attr":
        return has_ref(t[1])
    return False


def outcome(f):
    try:
        return ("ok", f())
    except RecursionError:
        return ("exc", "RecursionError")
    except Exception as e:
        return ("exc", type(e).__name__)


# ----------------------------------------------------------------------------
# the cases
# ----------------------------------------------------------------------------
def run_case(case, fail, stats):
    kind = case["kind"]
    if kind == "eval":
        env = Env(case["vals"])
        t = case["term"]
        b = outcome(lambda: env.build(t))
        if b[0] == "exc":
            # construction itself must not fail for a ref-bearing term (values are not touched yet)
            d = outcome(lambda: env.direct(t))
            if d[0] == "ok" and has_ref(t):
                fail("C04", "construction-raises", {"term": t, "exc": b[1]})
            return
        node = b[1]
        if not isinstance(node, R.BaseRef):
            stats["eval_plain"] += 1
            return
        got = outcome(node._get_value)
        want = outcome(lambda: env.direct(t))
        # the value itself, bit for bit, for C20 (the same case under the other build / hash seed)
        if got[0] == "ok" and isinstance(got[1], (int, float, complex, bool, np.generic)):
            case["_val"] = describe(got[1])
            case["_val0"] = describe(unsigned_zeros(got[1]))
        else:
            case["_val"] = case["_val0"] = got[1] if got[0] == "exc" else type(got[1]).__name__
        stats["eval_cases"] += 1
        stats["eval_exc"] += want[0] == "exc"
        if want[0] == "ok" and isinstance(want[1], float) and want[1] != want[1]:
            stats["eval_nan"] += 1
        if got[0] != want[0] or (got[0] == "ok" and not same(got[1], want[1])) or (got[0] == "exc" and got[1] != want[1]):
            fail("C04", "value-differs", {"term": t, "vals": case["vals"],
                                          "deferred": describe(got[1]), "python": describe(want[1])})
        # still true after the operands change through the manager
        if case.get("then"):
            name, vj = case["then"]
            if outcome(lambda: env.r.__setitem__(name, val_py(vj)))[0] != "ok":
                return
            got = outcome(node._get_value)
            want = outcome(lambda: env.direct(t))
            if got[0] != want[0] or (got[0] == "ok" and not same(got[1], want[1])) or (got[0] == "exc" and got[1] != want[1]):
                fail("C04", "value-differs-after-update", {"term": t, "vals": case["vals"], "then": case["then"],
                                                           "deferred": describe(got[1]), "python": describe(want[1])})
    elif kind == "attrsyntax":
        # assignments written with attribute syntax on references (ref.name = value / expression), also for names that
        # start with an underscore: the value has to land in the object the reference points to, in every build
        env = Env(case["vals"])
        log = []
        o = env.box["o"]
        for name, what in case["assign"]:
            val = env.build(what) if isinstance(what, list) else val_py(what)
            r = outcome(lambda: setattr(env.r["o"], name, val))
            log.append(r[0] if r[0] == "ok" else r[1])
            if r[0] == "ok":
                want = outcome(lambda: env.direct(what)) if isinstance(what, list) else ("ok", val)
                got = getattr(o, name, "<absent>")
                if want[0] == "ok" and not same(got, want[1]):
                    fail("C04", "attribute-assignment-lost", {"name": name, "object_holds": describe(got), "want": describe(want[1])})
        for name, vj in case.get("then", []):
            r = outcome(lambda: env.r.__setitem__(name, val_py(vj)))
            log.append(r[0] if r[0] == "ok" else r[1])
        stats["attrsyntax_cases"] = stats.get("attrsyntax_cases", 0) + 1
        case["_val"] = case["_val0"] = repr([log, sorted((k, repr(v)) for k, v in vars(o).items()), sorted(map(str, env.m.dump()))])
    elif kind == "iop":
        env = Env(case["vals"])
        op, name = case["iop"], case["name"]
        operand_t = case["operand"]
        expr_t = case.get("expr")
        if expr_t is not None:
            env.r[name] = env.build(expr_t)
        if case.get("child_def"):
            # a member of the container at `name` is defined by an expression; the container location itself is not
            ci, ct = case["child_def"]
            env.r[name][ci] = env.build(ct)
        ntasks0 = len(env.m.tasks)
        operand = env.build(operand_t)
        oldv = env.box[name]

        def do():
            tmp = env.r[name]
            tmp = IOP[op](tmp, operand)
            env.r[name] = tmp
        got = outcome(do)
        stats["iop_cases"] += 1
        if expr_t is None and not has_ref(operand_t):
            want = outcome(lambda: BIN[op](oldv, env.direct(operand_t)))
            if want[0] == "ok":
                if got[0] != "ok" or not same(env.box[name], want[1]) or len(env.m.tasks) != ntasks0:
                    fail("C04", "inplace-value-case", {"iop": op, "old": describe(oldv), "operand": operand_t,
                                                        "got": describe(env.box[name]), "want": describe(want[1]),
                                                        "tasks_registered": len(env.m.tasks) - ntasks0, "exc": got})
            elif got != want:
                fail("C04", "inplace-exception", {"iop": op, "old": describe(oldv), "operand": operand_t, "got": got, "want": want})
        else:
            # old expression (or old value) combined with the operand, kept as a definition
            base = expr_t if expr_t is not None else ["lit", val_json(oldv)]
            full = ["bin", op, base, operand_t]
            want = outcome(lambda: env.direct(full))
            if got[0] == "ok" and want[0] == "ok":
                if not same(env.box[name], want[1]):
                    fail("C04", "inplace-expression-case", {"iop": op, "expr": expr_t, "operand": operand_t,
                                                             "got": describe(env.box[name]), "want": describe(want[1])})
                e = env.r[name]._expr
                if e is None:
                    fail("C04", "inplace-lost-expression", {"iop": op, "expr": expr_t})
                elif not same(outcome(e._get_value)[1], want[1]):
                    fail("C04", "inplace-wrong-expression", {"iop": op, "expr": expr_t, "registered": str(e)})
    elif kind == "deps":
        env = Env(case["vals"])
        t = case["term"]
        node = outcome(lambda: env.build(t))[1]
        if not isinstance(node, R.BaseRef):
            return
        dd = outcome(node._get_dependencies)
        stats["deps_cases"] += 1
        if dd[0] != "ok" or not isinstance(dd[1], set):
            fail("C05", "not-a-set", {"term": t, "got": repr(dd[1])})
            return
        want = set()
        for rr in env.leaf_refs(t):
            want |= rr._get_dependencies()
        if dd[1] != want:
            fail("C05", "dependency-set-differs", {"term": t, "missing": sorted(map(str, want - dd[1])),
                                                    "extra": sorted(map(str, dd[1] - want))})
        # perturbation: define a location by the expression, change each scalar operand, it must follow
        if case.get("perturb"):
            name, vj = case["perturb"]
            env.box["out"] = None
            first = outcome(lambda: env.r.__setitem__("out", node))
            if first[0] != "ok":
                return
            upd = outcome(lambda: env.r.__setitem__(name, val_py(vj)))
            want2 = outcome(lambda: env.direct(t))
            if upd[0] != "ok":
                return
            got2 = ("ok", env.box["out"])
            want2 = outcome(node._get_value)      # the expression's own value now (C04 judges that value)
            stats["perturb_cases"] += 1
            if want2[0] == "ok" and not same(got2[1], want2[1]):
                fail("C05", "dependant-not-recomputed", {"term": t, "changed": name, "holds": describe(got2[1]),
                                                          "should_hold": describe(want2[1])})
                fail("C01", "stale", {"definition": t, "assigned": name, "holds": describe(got2[1]),
                                      "should_hold": describe(want2[1])})
    elif kind == "pickle":
        env = Env(case["vals"])
        t = case["term"]
        node = outcome(lambda: env.build(t))[1]
        if not isinstance(node, R.BaseRef):
            return
        stats["pickle_cases"] += 1
        back = outcome(lambda: pickle.loads(pickle.dumps(node)))
        if back[0] != "ok":
            fail("C12", "node-pickle-raises", {"term": t, "exc": back[1]})
            return
        if not (back[1] == node and str(back[1]) == str(node)):
            fail("C12", "node-roundtrip-differs", {"term": t, "got": str(back[1]), "want": str(node)})
            return
        v1, v2 = outcome(node._get_value), outcome(back[1]._get_value)
        if v1[0] != v2[0] or (v1[0] == "ok" and not same(v1[1], v2[1])):
            fail("C12", "node-roundtrip-value", {"term": t, "got": describe(v2[1]), "want": describe(v1[1])})
    elif kind == "mgrpickle_default":
        run_mgrpickle_default(case, fail, stats)
    elif kind == "mgrpickle":
        env = Env(case["vals"])
        del env.box["o"]           # plain picklable containers only
        if case.get("refattr"):
            # the container registered with Manager.refattr(): attribute syntax on the container ref means item access
            env.m = xdeps.Manager()
            env.r = env.m.refattr(env.box, "r")
            env.f = env.m.ref(dict(FUNCS), "f")
        outs = []
        nested = bool(case.get("nested"))
        if nested:
            env.box["g"] = [None] * len(case["defs"])      # several definitions write into one enclosing container

        def target_set(root, i, value):
            if nested:
                root["g"][i] = value
            else:
                root["out%d" % i] = value

        for i, t in enumerate(case["defs"]):
            if not nested:
                env.box["out%d" % i] = None
            r1 = outcome(lambda: target_set(env.r, i, env.build(t)) if isinstance(env.build(t), R.BaseRef) else (_ for _ in ()).throw(ValueError()))
            if r1[0] == "ok":
                outs.append((i, t))
        stats["mgrpickle_cases"] += 1
        back = outcome(lambda: pickle.loads(pickle.dumps(env.m)))
        if back[0] != "ok":
            fail("C12", "manager-pickle-raises", {"defs": case["defs"], "exc": back[1]})
            return
        m2 = back[1]
        if m2.dump() != env.m.dump():
            fail("C12", "manager-definitions-differ", {"defs": case["defs"]})
        vv = outcome(lambda: quiet(m2.verify))
        if vv[0] != "ok":
            fail("C12", "restored-manager-fails-verify", {"defs": case["defs"], "exc": vv[1]})
        r2 = m2.containers["r"]
        box2 = r2._owner
        env2 = Env.__new__(Env)
        env2.__dict__.update(env.__dict__)
        env2.m, env2.r, env2.box = m2, r2, box2
        if "f" in m2.containers:
            env2.f = m2.containers["f"]

        def assign(e, name, vj):
            if isinstance(vj, dict) and "term" in vj:
                value = e.build(vj["term"])
            else:
                value = val_py(vj)
            if isinstance(name, list):
                target_set(e.r, name[1], value)
            elif case.get("refattr") and isinstance(name, str) and name.isidentifier():
                setattr(e.r, name, value)           # attribute syntax: only an ObjectAttrRef turns it into an item
            else:
                e.r[name] = value

        def affected(e):
            out = {}
            for nm in NAMES:
                out[nm] = sorted(str(x) for x in e.m.find_deps([e.r[nm]]))
            return out

        for name, vj in case.get("follow", []):
            before1 = snapshot(env.box)
            u2 = outcome(lambda: assign(env2, name, vj))
            if snapshot(env.box) != before1:
                fail("C12", "copy-affects-original", {"defs": case["defs"], "assign": name})
            u1 = outcome(lambda: assign(env, name, vj))
            if u1[0] != u2[0] or (u1[0] == "exc" and u1[1] != u2[1]):
                fail("C12", "copies-raise-differently", {"defs": case["defs"], "assign": name, "original": u1, "copy": u2})
                break
            if u1[0] != "ok":
                break
            stats["mgrpickle_followups"] = stats.get("mgrpickle_followups", 0) + 1
            if snapshot(env.box) != snapshot(box2):
                fail("C12", "copies-diverge", {"defs": case["defs"], "assign": name,
                                                "original": snapshot(env.box), "copy": snapshot(box2)})
                break
            v1, v2 = outcome(lambda: quiet(env.m.verify)), outcome(lambda: quiet(m2.verify))
            if v1[0] == "ok" and v2[0] != "ok":
                fail("C12", "restored-manager-fails-verify-after-assignments", {"defs": case["defs"], "nested": nested,
                                                                                   "follow": case["follow"], "exc": v2[1]})
                break
            if m2.dump() != env.m.dump():
                fail("C12", "manager-definitions-differ-after-assignments", {"defs": case["defs"], "follow": case["follow"]})
                break
            a1, a2 = outcome(lambda: affected(env)), outcome(lambda: affected(env2))
            if a1 != a2:
                fail("C12", "restored-manager-computes-other-dependants", {"defs": case["defs"], "nested": nested, "follow": case["follow"],
                                                                             "original": a1[1], "copy": a2[1]})
                break
    elif kind == "genfun":
        # C13 over the full expression language: f(*values) on one manager vs assigning the values one by one on a twin
        env, env2 = Env(case["vals"]), Env(case["vals"])
        for e in (env, env2):
            if not case.get("keep_o"):
                del e.box["o"]
        refof = lambda e, a: e.r[a] if isinstance(a, str) else e.build(a)       # an argument: a name or a path term
        for i, t in enumerate(case["defs"]):
            nm = "out%d" % i
            rs = []
            for e in (env, env2):
                e.box[nm] = None
                rs.append(outcome(lambda: e.r.__setitem__(nm, e.build(t)) if isinstance(e.build(t), R.BaseRef)
                                  else (_ for _ in ()).throw(ValueError())))
            if rs[0][0] != "ok" or rs[1][0] != "ok":
                return
        stats["genfun_cases"] = stats.get("genfun_cases", 0) + 1
        names = [a[0] for a in case["args"]]
        made = outcome(lambda: env.m.gen_fun("f", **{"x%d" % i: refof(env, nm) for i, nm in enumerate(names)}))
        if made[0] != "ok":
            fail("C13", "gen_fun-raises", {"defs": case["defs"], "args": names, "exc": made[1]})
            return
        r1 = outcome(lambda: made[1](*[val_py(a[1]) for a in case["args"]]))
        r2 = ("ok", None)
        for nm, vj in case["args"]:
            r2 = outcome(lambda: env2.m.set_value(refof(env2, nm), val_py(vj)))
            if r2[0] != "ok":
                break
        if r1[0] == "exc" and r1[1] == "ZeroDivisionError":
            return          # excluded by the property (the generated code runs Python's unguarded operators)
        if r2[0] != "ok":
            return          # the manager itself raises on this history: nothing to compare with
        if r1[0] != "ok":
            fail("C13", "generated-function-raises", {"defs": case["defs"], "args": case["args"], "exc": r1[1],
                                                      "source": env.m.mk_fun("f", **{"x%d" % i: refof(env, nm) for i, nm in enumerate(names)})})
            return
        s1, s2 = snapshot(env.box), snapshot(env2.box)
        if s1 != s2 and "nan" not in json.dumps([s1, s2]):
            extra = {}
            if lossy_complex_literal(case["defs"]) and same_up_to_zero_signs(env.box, env2.box):
                extra["known"] = "D29"     # KNOWN_FINDINGS.json: the text of such a constant reads back with another zero sign
            fail("C13", "function-differs-from-assignments", {"defs": case["defs"], "args": case["args"],
                                                              "via_function": s1, "via_manager": s2,
                                                              "source": env.m.mk_fun("f", **{"x%d" % i: refof(env, nm) for i, nm in enumerate(names)})},
                 **extra)
    elif kind == "eqhash":
        m = xdeps.Manager()
        c = m.ref({}, case.get("label", "c"))
        m2 = xdeps.Manager()
        c2 = None if case.get("refattr2") else m2.ref({}, case.get("label2", case.get("label", "c")))
        if case.get("refattr2"):
            # the second container registered with Manager.refattr(): same label, same item steps = the same access path
            c2 = m2.refattr({}, case.get("label2", case.get("label", "c")))
            stats["eq_ref_vs_refattr_pairs"] = stats.get("eq_ref_vs_refattr_pairs", 0) + 1
        p, q = mkpath(c, case["p"]), mkpath(c2, case["q"])
        case["_pexpr"] = pexpr_of(p)
        case["_tokens"] = py_tokens(str(p))
        case["_text"] = str(p)
        same_path = (case.get("label", "c") == case.get("label2", case.get("label", "c"))) and paths_equal(case["p"], case["q"])
        stats["eq_pairs"] += 1
        stats["eq_equal_pairs"] += same_path
        eq, heq = (p == q), (hash(p) == hash(q))
        d = {p: 1}
        indict = q in d
        inset = q in {p}
        case["_val"] = case["_val0"] = repr([eq, heq, indict, inset, str(q)])
        if len(case["p"]) == len(case["q"]) and any(ka == kb == "i" and numpy_twin(key_py(a), key_py(b))
                                                    for (ka, a), (kb, b) in zip(case["p"], case["q"])):
            stats["eq_numpy_twin_pairs"] = stats.get("eq_numpy_twin_pairs", 0) + 1
        elif same_path:
            if not (eq and heq and indict and inset):
                fail("C06", "same-path-not-identified", {"p": case["p"], "q": case["q"], "eq": eq, "hash_eq": heq,
                                                          "in_dict": indict, "printed": [str(p), str(q)]})
        else:
            if eq or indict or inset:
                fail("C06", "different-paths-identified", {"p": case["p"], "q": case["q"], "eq": eq, "hash_eq": heq,
                                                            "in_dict": indict, "printed": [str(p), str(q)]})
    elif kind == "exprhash":
        env, env2 = Env(case["vals"]), Env(case["vals"])
        a, b = outcome(lambda: env.build(case["t1"]))[1], outcome(lambda: env2.build(case["t2"]))[1]
        if not (isinstance(a, R.BaseRef) and isinstance(b, R.BaseRef)):
            return
        stats["exprhash_cases"] += 1
        if json.dumps(case["t1"]) == json.dumps(case["t2"]):
            if not (a == b and hash(a) == hash(b) and (b in {a: 1})):
                fail("C06", "identical-structure-not-equal", {"t": case["t1"], "eq": a == b, "hash_eq": hash(a) == hash(b)})
        elif a == b or (b in {a: 1}):
            fail("C06", "different-expressions-identified", {"t1": case["t1"], "t2": case["t2"], "printed": [str(a), str(b)]})
    elif kind == "rooteq":
        # the TOP-LEVEL container refs themselves (what Manager.refattr() / Manager.ref() return, not an item of them) as
        # operands: compared, hashed, looked up, put into one set, ordered inside a definition.  p belongs to one manager, q is
        # the container ref of the same (or another) label in a second manager / an unpickled / a deep-copied one.  Everything
        # observed goes into the transcript that C20 compares between builds and hash seeds; C06 gives a verdict where the
        # two refs are of one class (same label: one path; other label: two paths).
        how_p, how_q = case.get("how", ["refattr", "refattr"])
        lab = case.get("label", "g")
        lab2 = case.get("label2", lab)
        other = case.get("other", "manager2")
        m = xdeps.Manager()
        box = Box(x=1.0, y=2.0)
        p = getattr(m, how_p)(box, lab)
        if other == "pickle":
            m2 = pickle.loads(pickle.dumps(m))
            q, how_q, lab2 = m2.containers[lab], how_p, lab
        elif other == "deepcopy":
            import copy
            m2 = copy.deepcopy(m)
            q, how_q, lab2 = m2.containers[lab], how_p, lab
        else:
            m2 = xdeps.Manager()
            q = getattr(m2, how_q)(Box(x=1.0, y=2.0), lab2)
        stats["rooteq_cases"] = stats.get("rooteq_cases", 0) + 1
        stats["rooteq_refattr"] = stats.get("rooteq_refattr", 0) + (how_p == "refattr") + (how_q == "refattr")
        obs = {}

        def see(name, f, show=lambda x: x):
            r = outcome(f)
            obs[name] = show(r[1]) if r[0] == "ok" else "raised " + r[1]
            stats["rooteq_observations"] = stats.get("rooteq_observations", 0) + 1
            return obs[name]
        eq = see("p == q", lambda: p == q)
        ne = see("p != q", lambda: p != q)
        see("q == p", lambda: q == p)
        see("q != p", lambda: q != p)
        see("p == p", lambda: p == p)
        heq = see("hash(p) == hash(q)", lambda: hash(p) == hash(q))
        indict = see("q in {p: 1}", lambda: q in {p: 1})
        inset = see("q in {p}", lambda: q in {p})
        n2 = see("len({p, q})", lambda: len({p, q}))
        see("len({p: 1, q: 2})", lambda: len({p: 1, q: 2}))
        see("[p, q].index(q)", lambda: [p, q].index(q))
        see("p == 'label'", lambda: p == lab)
        see("'label' == p", lambda: lab == p)
        see("p != 'label'", lambda: p != lab)
        see("p == 'other'", lambda: p == lab + "_")
        see("targets of a function task {p, q}", lambda: len(xdeps.tasks.FunctionTask("t", lambda: None, targets={p, q}, dependencies={p["x"]}).targets))
        # ordering comparisons BUILD expressions: their text (or the exception class)
        for sym, op in (("<", operator.lt), ("<=", operator.le), (">", operator.gt), (">=", operator.ge)):
            see("p %s 3" % sym, lambda: op(p, 3), str)
            see("3 %s p" % sym, lambda: op(3, p), str)
            see("p %s p['y']" % sym, lambda: op(p, p["y"]), str)
            see("p %s q" % sym, lambda: op(p, q), str)
        # ... and are used in definitions
        see("p['small'] = p < 3", lambda: p.__setitem__("small", p < 3))
        see("p['big'] = p >= p['y']", lambda: p.__setitem__("big", p >= p["y"]))
        see("p['rev'] = 7 > p", lambda: p.__setitem__("rev", 7 > p))
        see("dump", lambda: m.dump(), lambda d: sorted(map(json.dumps, d)))
        see("contents", lambda: sorted((k, repr(v)) for k, v in box.items()))
        see("p['y'] = 9.0", lambda: p.__setitem__("y", 9.0))
        see("contents after", lambda: sorted((k, repr(v)) for k, v in box.items()))
        case["_text"] = str(p)
        case["_val"] = case["_val0"] = json.dumps(obs, sort_keys=True)
        if how_p == how_q:
            if lab == lab2:
                if not (eq is True and ne is False and heq is True and indict is True and inset is True and n2 == 1):
                    fail("C06", "same-container-not-identified", {"how": how_p, "label": lab, "other": other,
                                                                  "observed": {k: obs[k] for k in list(obs)[:9]}})
            elif eq is not False or ne is not True or indict is not False or inset is not False or n2 != 2:
                fail("C06", "different-containers-identified", {"how": how_p, "labels": [lab, lab2], "other": other,
                                                                "observed": {k: obs[k] for k in list(obs)[:9]}})
    elif kind == "print":
        env = Env(case["vals"])
        t = case["term"]
        node = outcome(lambda: env.build(t))[1]
        if not isinstance(node, R.BaseRef):
            return
        stats["print_cases"] += 1
        text = str(node)
        case["_pexpr"] = pexpr_of(node)
        case["_tokens"] = py_tokens(text)
        case["_text"] = text
        if case["_pexpr"] is not None and has_ext_key(case["_pexpr"]):
            stats["print_ext_key_cases"] = stats.get("print_ext_key_cases", 0) + 1
        if case.get("keys"):
            # the structure read from the object's fields (what the model prints and parses back) is the tree the
            # harness built the expression from
            want = term_pexpr(t)
            if want is not None:
                stats["print_tree_checks"] = stats.get("print_tree_checks", 0) + 1
                if want != case["_pexpr"]:
                    fail("C11", "fields-differ-from-built-tree", {"term": t, "text": text, "built": want, "fields": case["_pexpr"]})
                    return
        ns = dict(env.m.containers)
        back = outcome(lambda: eval(text, {"math": math}, ns))
        if back[0] != "ok":
            fail("C11", "printed-text-does-not-evaluate", {"term": t, "text": text, "exc": back[1]})
            return
        e2 = back[1]
        if not isinstance(e2, R.BaseRef) or not (e2 == node) or hash(e2) != hash(node):
            fail("C11", "rebuilt-expression-differs", {"term": t, "text": text, "rebuilt": str(e2)})
            return
        v1, v2 = outcome(node._get_value), outcome(e2._get_value)
        if v1[0] != v2[0] or (v1[0] == "ok" and not same(v1[1], v2[1])) or (v1[0] == "exc" and v1[1] != v2[1]):
            fail("C11", "rebuilt-value-differs", {"term": t, "text": text, "value": describe(v1[1]), "rebuilt": describe(v2[1])})
        d1, d2 = outcome(node._get_dependencies), outcome(e2._get_dependencies)
        if d1 != d2:
            fail("C11", "rebuilt-dependencies-differ", {"term": t, "text": text})
    elif kind in ("dumpload", "copyfrom"):
        env = Env(case["vals"])
        del env.box["o"]
        names = []
        for i, t in enumerate(case["defs"]):
            nm = case["targets"][i]
            if outcome(lambda: env.r.__setitem__(nm, env.build(t)) if isinstance(env.build(t), R.BaseRef)
                       else (_ for _ in ()).throw(ValueError()))[0] == "ok":
                names.append(nm)
        if len(names) != len(case["defs"]):
            return          # a definition that cannot even be evaluated once: nothing to compare
        stats["dumpload_cases"] = stats.get("dumpload_cases", 0) + 1
        import copy
        m2 = xdeps.Manager()
        if kind == "dumpload":
            box2 = copy.deepcopy(env.box)
            r2 = m2.ref(box2, "r")
            m2.ref(dict(FUNCS), "f")
            res = outcome(lambda: m2.load(env.m.dump()))
        else:
            holder = {"in": copy.deepcopy(env.box)}
            if case.get("shadow_outer"):
                case = dict(case, shadow=True)
            if case.get("shadow"):
                # the destination's container carries the SAME label as the source and holds, one level up, locations
                # of the same names with other values; the targets are already defined there by expressions that
                # print exactly like the source's text but read the outer locations
                for k0, v0 in copy.deepcopy(env.box).items():
                    holder[k0] = (v0 + 100) if isinstance(v0, (int, float)) and not isinstance(v0, bool) else v0
            h2 = m2.ref(holder, "r" if case.get("shadow") else case.get("label2", "h"))
            f2 = m2.ref(dict(FUNCS), "f")
            box2 = holder["in"]
            r2 = h2["in"]
            pre = case.get("preexisting")
            if pre:
                r2[pre[0]] = r2[pre[1]] * 1
            if case.get("shadow"):
                env3 = Env.__new__(Env)
                env3.__dict__.update(env.__dict__)
                env3.m, env3.r, env3.box, env3.f = m2, h2, holder, f2
                for i, t in enumerate(case["defs"]):
                    if case.get("shadow_outer"):
                        # the look-alike definition sits at the OUTER location of the same name: its printed id equals
                        # the source's target text, while the real (rebound) target has no definition yet
                        holder[case["targets"][i]] = None
                        outcome(lambda: h2.__setitem__(case["targets"][i], env3.build(t)))
                    else:
                        outcome(lambda: r2.__setitem__(case["targets"][i], env3.build(t)))
            labels_before = dict(m2.containers)
            res = outcome(lambda: m2.copy_expr_from(env.m, "r", {env.m.containers["r"]: r2},
                                                    overwrite=case.get("overwrite", True)))
            for lb, rf in labels_before.items():
                if m2.containers.get(lb) is not rf:
                    # the namespace that later text is evaluated in: a label of the destination now names something else
                    fail("C11", "copyfrom-rebinds-destination-label", {"label": lb, "now": str(m2.containers.get(lb)),
                                                                        "case": {k: case[k] for k in case if k != "vals"}})
                    return
        if res[0] != "ok":
            fail("C11", kind + "-raises", {"case": {k: case[k] for k in case if k != "vals"}, "exc": res[1]})
            return
        for nm in names:
            e1 = env.r[nm]._expr
            e2 = r2[nm]._expr
            if kind == "copyfrom" and case.get("preexisting") and nm == case["preexisting"][0] and not case.get("overwrite", True):
                if e2 is None or str(e2) != str(r2[case["preexisting"][1]] * 1):
                    fail("C11", "overwrite-false-replaced-definition", {"target": nm, "got": str(e2)})
                continue
            if e2 is None:
                fail("C11", kind + "-definition-missing", {"target": nm, "original": str(e1)})
                return
            v1, v2 = outcome(e1._get_value), outcome(e2._get_value)
            if v1[0] != v2[0] or (v1[0] == "ok" and not same(v1[1], v2[1])):
                fail("C11", kind + "-definition-differs", {"target": nm, "original": str(e1), "copy": str(e2)})
                return
        for name, vj in case.get("follow", []):
            u1 = outcome(lambda: env.r.__setitem__(name, val_py(vj)))
            u2 = outcome(lambda: r2.__setitem__(name, val_py(vj)))
            if u1[0] != u2[0]:
                fail("C11", kind + "-followup-exception", {"assign": name, "original": u1, "copy": u2})
                return
            if u1[0] != "ok":
                return      # a failing update leaves both in a partial state (C18's subject, not C11's)
            if u1[0] == "ok" and not (case.get("preexisting") and not case.get("overwrite", True)):
                s1, s2 = snapshot(env.box), snapshot(box2)
                if s1 != s2:
                    fail("C11", kind + "-followup-differs", {"assign": name, "original": s1, "copy": s2})
                    return
        # the text of the new manager's own definitions, read back by itself, changes nothing
        d0 = outcome(m2.dump)
        if d0[0] == "ok":
            sb = snapshot(box2)
            back = outcome(lambda: m2.load(d0[1]))
            d1 = outcome(m2.dump)
            if back[0] == "ok" and (d1 != d0 or (snapshot(box2) != sb and "nan" not in json.dumps([sb, snapshot(box2)]))):
                fail("C11", kind + "-own-dump-not-a-fixpoint", {"dump": d0[1], "after_reload": d1[1] if d1[0] == "ok" else d1,
                                                                "case": {k: case[k] for k in case if k != "vals"}})
    elif kind in MORE_KINDS:
        run_case_more(case, fail, stats)
    else:
        raise ValueError(kind)


def pexpr_of(obj):
    """structure of a real ref/expression, read from its fields, in the language of XModel/Parse.lean;
    None when the object is outside that language (complex constants, numpy scalars, computed keys, ...).
    Item keys: a str / int key is itself (the language of XModel/Parse.lean); a bool / None / finite float / tuple key is
    written in the key language of XModel/ParseKeys.lean (see `key_json`)"""
    if isinstance(obj, R.Ref):
        return ["root", obj._key]
    if isinstance(obj, R.ItemRef):
        o = pexpr_of(obj._owner)
        k = key_json(obj._key)
        if o is None or k is OUTSIDE:        # numpy scalars, bytes, inf / nan, computed keys, objects: outside the printer model
            return None
        return ["item", o, k]
    if isinstance(obj, R.AttrRef):
        o = pexpr_of(obj._owner)
        if o is None or not isinstance(obj._key, str) or not obj._key.isidentifier():
            return None
        return ["attr", o, obj._key]
    if isinstance(obj, R.BinOpExpr):
        l, r = pexpr_of(obj._lhs), pexpr_of(obj._rhs)
        if l is None or r is None:
            return None
        return ["bin", obj._op_str, l, r]
    if isinstance(obj, R.UnaryOpExpr):
        a = pexpr_of(obj._arg)
        return None if a is None else ["un", obj._op_str, a]
    if isinstance(obj, R.BuiltinRef):
        args = [pexpr_of(x) for x in (obj._arg,) + tuple(obj._params)]
        if any(a is None for a in args):
            return None
        name = obj._op.__name__
        head = ["attr", ["root", "math"], name] if getattr(obj._op, "__module__", None) == "math" else ["root", name]
        return ["call", head, args]
    if isinstance(obj, R.CallRef):
        f = pexpr_of(obj._func) if isinstance(obj._func, R.BaseRef) else None
        args = [pexpr_of(x) for x in obj._args]
        if f is None or any(a is None for a in args):
            return None
        kws = [[k, pexpr_of(v)] for k, v in (obj._kwargs or ())]
        if any((not isinstance(k, str)) or (not k.isidentifier()) or v is None for k, v in kws):
            return None
        if kws:
            return ["callkw", f, args, kws]
        return ["call", f, args]
    if isinstance(obj, R.LiteralExpr):
        return pexpr_of(obj._arg)
    if isinstance(obj, R.BaseRef):
        return None
    if type(obj) is float:
        # a finite float constant: sign + the text of its magnitude (one NUMBER token for Python, opaque for the model)
        if obj != obj or obj in (float("inf"), float("-inf")):
            return None
        return ["flit", math.copysign(1.0, obj) < 0, repr(abs(obj))]
    if isinstance(obj, bool) or not isinstance(obj, int):
        return None
    return ["lit", obj]


OUTSIDE = object()


def key_json(k):
    """an item key of a real ItemRef in the key language of the extended printer model (KeyPrint.KeyX): str, int,
    true / false, null, {"f": [negative, repr(abs(x))]} for a finite float, {"t": [keys]} for a tuple; OUTSIDE otherwise"""
    if type(k) in (str, int, bool) or k is None:
        return k
    if type(k) is float:
        if k != k or k in (float("inf"), float("-inf")):
            return OUTSIDE
        return {"f": [math.copysign(1.0, k) < 0, repr(abs(k))]}
    if type(k) is tuple:
        ks = [key_json(x) for x in k]
        return OUTSIDE if any(x is OUTSIDE for x in ks) else {"t": ks}
    return OUTSIDE


def has_ext_key(p):
    """does the structure have an item key outside str | int (i.e. is it outside XModel/Parse.lean's language)?"""
    if isinstance(p, list):
        if p and p[0] == "item" and (isinstance(p[2], (bool, dict)) or p[2] is None):
            return True
        return any(has_ext_key(x) for x in p)
    return False


def term_pexpr(t):
    """the structure that the TERM — the tree the harness builds the expression from — denotes in the printed language,
    or None where the term alone does not determine it (constants folded by Python, reflected comparisons, literals that
    are not int / finite float, computed keys, wrapped callables)"""
    k = t[0]
    if k == "ref":
        return ["item", ["root", "r"], t[1]]
    if k == "root":
        return ["root", "r"]
    if k == "obroot":
        return ["root", "ob"]
    if k in ("lit", "litexpr"):
        v = val_py(t[1])
        if type(v) is int:
            return ["lit", v]
        if type(v) is float and v == v and v not in (float("inf"), float("-inf")):
            return ["flit", math.copysign(1.0, v) < 0, repr(abs(v))]
        return None
    if k == "bin":
        if not (has_ref(t[2]) or has_ref(t[3])) or (t[1] in CMPS and not has_ref(t[2])):
            return None
        l, r = term_pexpr(t[2]), term_pexpr(t[3])
        return None if l is None or r is None else ["bin", SYM[t[1]], l, r]
    if k == "un":
        a = term_pexpr(t[2]) if has_ref(t[2]) else None
        return None if a is None else ["un", {"neg": "-", "pos": "+", "invert": "~"}[t[1]], a]
    if k == "builtin":
        if not has_ref(t[2]):
            return None
        args = [term_pexpr(x) for x in [t[2]] + list(t[3])]
        if any(a is None for a in args):
            return None
        head = ["attr", ["root", "math"], t[1]] if t[1] in ("trunc", "floor", "ceil") else ["root", t[1]]
        return ["call", head, args]
    if k == "call":
        if len(t) > 4:
            return None
        args = [term_pexpr(x) for x in t[2]]
        kws = [[n, term_pexpr(x)] for n, x in t[3]]
        if any(a is None for a in args) or any(v is None for _, v in kws):
            return None
        f = ["item", ["root", "f"], t[1]]
        return ["callkw", f, args, kws] if kws else ["call", f, args]
    if k == "item":
        o = term_pexpr(t[1]) if has_ref(t[1]) else None
        if o is None or t[2][0] != "lit":
            return None
        kj = key_json(val_py(t[2][1]))
        return None if kj is OUTSIDE else ["item", o, kj]
    if k == "attr":
        o = term_pexpr(t[1]) if has_ref(t[1]) else None
        return None if o is None or not t[2].isidentifier() else ["attr", o, t[2]]
    return None


def py_tokens(text):
    """Python's own tokenisation of the printed text, in the model's token vocabulary"""
    import ast, io, tokenize
    out = []
    try:
        for tok in tokenize.generate_tokens(io.StringIO(text).readline):
            if tok.type == tokenize.NAME:
                out.append(["name", tok.string])
            elif tok.type == tokenize.NUMBER:
                try:
                    out.append(["num", int(tok.string)])
                except ValueError:
                    if tok.string[-1] in "jJ":
                        return None      # imaginary literal: outside the language
                    out.append(["fnum", tok.string])
            elif tok.type == tokenize.STRING:
                lit = ast.literal_eval(tok.string)
                if not isinstance(lit, str):
                    return None          # a bytes / prefixed literal: not something the printer may emit
                out.append(["str", lit])
            elif tok.type == tokenize.OP:
                out.append(["op", tok.string])
    except Exception:
        return None
    return out


def quiet(f):
    import io, contextlib
    with contextlib.redirect_stdout(io.StringIO()):
        return f()


def lossy_complex_literal(t):
    """does the term (or list of terms) contain a complex constant whose Python text does not read back bit for bit
    (repr(complex(0.0, -2.0)) == '-2j', which Python reads as complex(-0.0, -2.0))?"""
    if isinstance(t, dict):
        if "complex" in t:
            c = val_py(t)
            try:
                d = eval(repr(c), {"inf": float("inf"), "nan": float("nan")})
            except Exception:
                return True
            d = complex(d)
            return (c.real.hex(), c.imag.hex()) != (d.real.hex(), d.imag.hex())
        return any(lossy_complex_literal(x) for x in t.values())
    if isinstance(t, (list, tuple)):
        return any(lossy_complex_literal(x) for x in t)
    return False


def same_up_to_zero_signs(b1, b2):
    """the two container states hold equal values everywhere (==), i.e. they differ at most in the sign of a zero"""
    def eq(a, b):
        if type(a) is not type(b):
            return False
        if isinstance(a, dict):
            return list(a) == list(b) and all(eq(a[k], b[k]) for k in a)
        if isinstance(a, (list, tuple)):
            return len(a) == len(b) and all(eq(x, y) for x, y in zip(a, b))
        try:
            return bool(a == b) or (a != a and b != b)
        except Exception:
            return False
    return eq(b1, b2)


def run_mgrpickle_default(case, fail, stats):
    """C12 on the container `Manager.ref()` makes by default (an `AttrDict`, whose attributes ARE its items): the restored
    container must still be one object — follow-up assignments in attribute syntax (`ref.name = value`, a plain `Ref` turns
    that into `setattr` on the container) and in item syntax, mirrored on both copies, leave the same contents, read through
    items and through attributes."""
    m = xdeps.Manager()
    r = m.ref()                                  # default container, default label
    box = r._owner
    for k, vj in case["vals"].items():
        box[k] = val_py(vj)
    for tgt, (op, a, b) in case["defs"]:
        box[tgt] = None
        r[tgt] = {"add": lambda x, y: x + y, "mul": lambda x, y: x * y}[op](r[a], b if not isinstance(b, str) else r[b])
    stats["mgrpickle_default_cases"] = stats.get("mgrpickle_default_cases", 0) + 1
    back = outcome(lambda: pickle.loads(pickle.dumps(m)))
    if back[0] != "ok":
        fail("C12", "manager-pickle-raises", {"default_container": True, "exc": back[1]})
        return
    m2 = back[1]
    label = [k for k in m.containers][0]
    r2 = m2.containers[label]
    box2 = r2._owner

    def view(b):
        # contents through items and through attributes (for an AttrDict they are the same thing)
        items = {str(k): repr(v) for k, v in sorted(b.items(), key=lambda kv: str(kv[0]))}
        attrs = {str(k): repr(getattr(b, k, "<no attribute>")) for k in sorted(b.keys(), key=str) if isinstance(k, str)}
        return {"items": items, "attrs": attrs}

    if view(box) != view(box2) or m.dump() != m2.dump():
        fail("C12", "restored-default-container-differs", {"original": view(box), "copy": view(box2)})
        return
    for how, name, vj in case["follow"]:
        v = val_py(vj)
        outs = []
        for rr in (r, r2):
            outs.append(outcome(lambda: setattr(rr, name, v) if how == "attr" else rr.__setitem__(name, v)))
        if outs[0][0] != outs[1][0]:
            fail("C12", "copies-raise-differently", {"default_container": True, "assign": [how, name], "original": outs[0], "copy": outs[1]})
            return
        stats["mgrpickle_followups"] = stats.get("mgrpickle_followups", 0) + 1
        if view(box) != view(box2):
            fail("C12", "copies-diverge", {"default_container": True, "defs": case["defs"], "assign": [how, name, vj],
                                            "original": view(box), "copy": view(box2)})
            return


def snapshot(box):
    out = {}
    for k, v in box.items():
        if isinstance(v, (int, float, complex, bool)) or v is None:
            out[str(k)] = None if v is None else (repr(v) if v == v else "nan")
        elif isinstance(v, (list, dict)):
            out[str(k)] = repr(v)
        elif isinstance(v, Obj):
            out[str(k)] = repr(sorted(vars(v).items()))
    return out


def mkpath(root, steps):
    r = root
    for kind, k in steps:
        if kind == "i":
            r = r[key_py(k)]
        else:
            r = getattr(r, k)
    return r


def key_py(k):
    if isinstance(k, dict):
        if "f" in k:
            return float.fromhex(k["f"])
        if "t" in k:
            return tuple(key_py(x) for x in k["t"])
        if "np" in k:
            return getattr(np, k["np"][0])(k["np"][1])      # a numpy scalar used as a key
    return k


def numpy_twin(a, b):
    """keys that are == but differ in being a numpy scalar / a builtin (c[np.int64(2)] vs c[2]): whether these denote
    one path is not something C06 decides; the pair is recorded (C20 compares builds on it) but gets no verdict"""
    if isinstance(a, np.generic) == isinstance(b, np.generic) or isinstance(a, tuple) or isinstance(b, tuple):
        return False
    try:
        return bool(a == b)
    except Exception:
        return False


def paths_equal(p, q):
    if len(p) != len(q):
        return False
    for (ka, a), (kb, b) in zip(p, q):
        if ka != kb:
            return False
        x, y = (key_py(a), key_py(b)) if ka == "i" else (a, b)
        if not key_same(x, y):
            return False
    return True


def key_same(x, y):
    """the same key as the library's textual equality (and the printer model) sees it: equal values of the same type,
    tuples element by element — (True, None) and (1, None) are == for Python and two different keys here, exactly as
    True and 1 are"""
    if type(x) is not type(y):
        return False
    if isinstance(x, tuple):
        return len(x) == len(y) and all(key_same(a, b) for a, b in zip(x, y))
    return bool(x == y)


# ----------------------------------------------------------------------------
# generators
# ----------------------------------------------------------------------------
NAMES = ["v0", "v1", "v2", "v3"]
INTS = [0, 1, -1, 2, 3, -3, 7, 13]
FLOATS = [0.0, 1.5, -2.25, 3.0, 1e-3]


def gen_val(rng, kind=None):
    kind = kind or rng.choice(["int", "int", "int", "float", "float", "bool", "complex", "npf", "npi"])
    if kind == "int":
        return {"int": rng.choice(INTS)}
    if kind == "float":
        return {"float": rng.choice(FLOATS).hex()}
    if kind == "bool":
        return {"bool": rng.random() < 0.5}
    if kind == "complex":
        return {"complex": [rng.choice(FLOATS).hex(), rng.choice([1.0, -2.0]).hex()]}
    if kind == "npf":
        return {"np": ["float64", rng.choice(FLOATS)]}
    if kind == "npi":
        return {"np": ["int64", rng.choice(INTS)]}
    raise ValueError(kind)


def gen_lit(rng):
    return ["lit", gen_val(rng, rng.choice(["int", "int", "float", "bool", "complex"]))]


def gen_vals(rng, kinds=None):
    return {n: gen_val(rng, kinds and rng.choice(kinds)) for n in NAMES}


ARITH = ["add", "sub", "mul", "truediv", "floordiv", "mod", "pow"]
BITS = ["and", "or", "xor", "rshift", "lshift"]
CMPS = ["lt", "le", "ge", "gt"]


def gen_term(rng, depth, ops=None, need_ref=True):
    ops = ops or (ARITH * 3 + BITS + CMPS)
    x = rng.random()
    if depth <= 0 or x < 0.25:
        if need_ref or rng.random() < 0.7:
            return ["ref", rng.choice(NAMES)]
        return gen_lit(rng)
    if x < 0.75:
        op = rng.choice(ops)
        a = gen_term(rng, depth - 1, ops, need_ref)
        b = gen_term(rng, depth - 1, ops, False)
        if op in ("pow", "lshift"):
            # keep exponents / shift counts small: 13 ** (13 ** 13) would never finish
            b = ["lit", {"int": rng.choice([0, 1, 2, 3])}] if rng.random() < 0.8 else ["ref", rng.choice(NAMES)]
        elif rng.random() < 0.4:
            a, b = b, a
        return ["bin", op, a, b]
    if x < 0.82:
        return ["un", rng.choice(["neg", "pos"] if "and" not in ops else ["neg", "pos", "invert"]), gen_term(rng, depth - 1, ops, True)]
    if x < 0.90:
        f = rng.choice(["abs", "round", "round2", "divmod", "trunc", "floor", "ceil"])
        a = gen_term(rng, depth - 1, ops, True)
        if f == "round2":
            return ["builtin", "round", a, [["lit", {"int": rng.choice([0, 1, 2, -1])}] if rng.random() < 0.6 else ["ref", rng.choice(NAMES)]]]
        if f == "divmod":
            return ["builtin", "divmod", a, [gen_term(rng, 0, ops, False)]]
        return ["builtin", f, a, []]
    if x < 0.95:
        f = rng.choice(["fpow", "fadd", "hyp"])
        args = [gen_term(rng, depth - 1, ARITH, False)]
        kw = []
        if f == "hyp":
            args.append(gen_term(rng, 0, ARITH, False))
        elif rng.random() < 0.6:
            kw = [["y", gen_term(rng, 0, ARITH, False)]]
        if f == "fadd" and rng.random() < 0.4:
            kw.append(["z", ["lit", {"int": 2}]])
        return ["call", f, args, kw]
    c = rng.random()
    if c < 0.4:
        return ["item", ["ref", "L"], ["lit", {"int": rng.choice([0, 1, -1, 3])}] if rng.random() < 0.5 else
                ["bin", "mod", ["ref", rng.choice(NAMES)], ["lit", {"int": 4}]]]
    if c < 0.8:
        return ["item", ["ref", "D"], ["lit", {"str": rng.choice(["p", "q", "k'"])}] if rng.random() < 0.7 else ["lit", {"int": 1}]]
    return ["attr", ["ref", "o"], rng.choice(["u", "w"])]


def cases_c04(rng, n):
    # every operator x operand-kind order x value pairs, exhaustively (small), then random trees
    pairs = [({"int": 7}, {"int": 13}), ({"int": 7}, {"int": 0}), ({"int": -3}, {"int": 2}), ({"float": (2.5).hex()}, {"int": 2}),
             ({"int": 5}, {"float": (0.0).hex()}), ({"bool": True}, {"int": 3}), ({"complex": [(1.0).hex(), (2.0).hex()]}, {"int": 2}),
             ({"np": ["float64", 1.5]}, {"int": 2}), ({"np": ["int64", 6]}, {"np": ["int64", 4]}), ({"float": (7.25).hex()}, {"float": (-0.5).hex()}),
             ({"int": 2}, {"int": -1}), ({"int": 0}, {"int": 0}),
             # signed zeros (IEEE: 0.0 * -3 = -0.0, -0.0 + 0 = 0.0): the value is == either way, the bits are C20's subject
             ({"float": (0.0).hex()}, {"int": -3}), ({"float": (-0.0).hex()}, {"int": 0}), ({"float": (-0.0).hex()}, {"int": -1}),
             ({"int": 0}, {"float": (-0.0).hex()}),
             ({"int": 10 ** 400}, {"float": (2.5).hex()}), ({"float": (3.0).hex()}, {"int": 10 ** 400}), ({"int": 10 ** 400}, {"int": 7})]
    for op in BIN:
        if op == "matmul":
            continue
        for a, b in pairs:
            vals = {"v0": a, "v1": b, "v2": {"int": 1}, "v3": {"int": 2}}
            yield {"kind": "eval", "vals": vals, "term": ["bin", op, ["ref", "v0"], ["ref", "v1"]]}
            if "np" not in a:
                yield {"kind": "eval", "vals": vals, "term": ["bin", op, ["lit", a], ["ref", "v1"]]}
            if "np" not in b:
                yield {"kind": "eval", "vals": vals, "term": ["bin", op, ["ref", "v0"], ["lit", b]]}
    yield {"kind": "eval", "vals": {"v0": {"arr": ["float64", [[1.0, 2.0], [3.0, 4.0]]]}, "v1": {"arr": ["float64", [1.0, -1.0]]},
                                    "v2": {"int": 1}, "v3": {"int": 2}}, "term": ["bin", "matmul", ["ref", "v0"], ["ref", "v1"]]}
    for u in UN:
        for a in [{"int": 5}, {"int": 0}, {"float": (-2.5).hex()}, {"bool": True}, {"np": ["int64", 3]}]:
            yield {"kind": "eval", "vals": {"v0": a, "v1": {"int": 1}, "v2": {"int": 1}, "v3": {"int": 1}}, "term": ["un", u, ["ref", "v0"]]}
    for f in ["abs", "round", "trunc", "floor", "ceil"]:
        for a in [{"float": (2.5).hex()}, {"float": (-3.75).hex()}, {"int": 4}, {"np": ["float64", 1.25]}, {"bool": True}]:
            yield {"kind": "eval", "vals": {"v0": a, "v1": {"int": 1}, "v2": {"int": 1}, "v3": {"int": 1}}, "term": ["builtin", f, ["ref", "v0"], []]}
    for nd in [0, 1, -1, 2]:
        yield {"kind": "eval", "vals": {"v0": {"float": (123.456).hex()}, "v1": {"int": nd}, "v2": {"int": 1}, "v3": {"int": 1}},
               "term": ["builtin", "round", ["ref", "v0"], [["lit", {"int": nd}]]]}
        yield {"kind": "eval", "vals": {"v0": {"float": (123.456).hex()}, "v1": {"int": nd}, "v2": {"int": 1}, "v3": {"int": 1}},
               "term": ["builtin", "round", ["ref", "v0"], [["ref", "v1"]]]}
    for a, b in [(7, 2), (-7, 2), (7, 0), (7.5, 2)]:
        yield {"kind": "eval", "vals": {"v0": val_json(a), "v1": val_json(b), "v2": {"int": 1}, "v3": {"int": 1}},
               "term": ["builtin", "divmod", ["ref", "v0"], [["ref", "v1"]]]}
    # attribute syntax on references, ordinary and underscore-prefixed names
    for names in (["u", "_scale"], ["_tmp", "w"], ["_u", "__x"], ["zz_new", "_scale"]):
        yield {"kind": "attrsyntax", "vals": {"v0": {"float": (2.5).hex()}, "v1": {"int": 3}, "v2": {"int": 5}, "v3": {"int": 2}},
               "assign": [[names[0], {"int": 10}], [names[1], ["bin", "mul", ["ref", "v1"], ["lit", {"int": 2}]]],
                          [names[0], ["bin", "add", ["attr", ["ref", "o"], names[1]], ["ref", "v2"]]]],
               "then": [["v1", {"int": 7}], ["v2", {"int": -1}]]}
    # in-place: every operator, value case and expression case
    for op in IOP:
        for a, b in [({"int": 12}, {"int": 5}), ({"int": 12}, {"int": 0}), ({"float": (2.5).hex()}, {"int": 2}), ({"bool": True}, {"bool": False})]:
            vals = {"v0": a, "v1": b, "v2": {"int": 3}, "v3": {"int": 2}}
            yield {"kind": "iop", "vals": vals, "iop": op, "name": "v0", "operand": ["lit", b]}
            yield {"kind": "iop", "vals": vals, "iop": op, "name": "v0", "operand": ["ref", "v1"]}
            yield {"kind": "iop", "vals": vals, "iop": op, "name": "v0", "operand": ["lit", b],
                   "expr": ["bin", "add", ["ref", "v2"], ["lit", {"int": 9}]]}
    # in-place operators on a container-valued location one of whose members has a definition
    for op in ("mul", "add", "sub"):
        for operand in ({"int": 2}, {"int": 0}):
            yield {"kind": "iop", "vals": {"v0": {"int": 12}, "v1": {"int": 3}, "v2": {"int": 3}, "v3": {"int": 2}}, "iop": op,
                   "name": "L", "operand": ["lit", operand], "child_def": [0, ["bin", "mul", ["ref", "v1"], ["lit", {"int": 2}]]]}
    # sequences of in-place statements on old definitions of every shape, inexact float data
    yield from more_c04_fixed()
    rng2 = side_rng(rng)
    for i in range(n):
        vals = gen_vals(rng)
        t = gen_term(rng, rng.randint(1, 5))
        c = {"kind": "eval", "vals": vals, "term": t}
        if rng.random() < 0.4:
            c["then"] = [rng.choice(NAMES), gen_val(rng)]
        yield c
        if i % 12 == 5:
            yield gen_iopseq(rng2)


def cases_c05(rng, n):
    for i in range(n):
        vals = gen_vals(rng, ["int", "float"])
        t = gen_term(rng, rng.randint(1, 4))
        c = {"kind": "deps", "vals": vals, "term": t}
        if rng.random() < 0.7:
            c["perturb"] = [rng.choice(NAMES), gen_val(rng, rng.choice(["int", "float"]))]
        yield c
    # each builtin parameter / kwarg slot explicitly
    for t in [["builtin", "round", ["ref", "v0"], [["ref", "v1"]]], ["builtin", "divmod", ["ref", "v0"], [["ref", "v1"]]],
              ["call", "fadd", [["ref", "v0"]], [["y", ["ref", "v1"]], ["z", ["ref", "v2"]]]],
              ["item", ["ref", "L"], ["bin", "mod", ["ref", "v1"], ["lit", {"int": 4}]]],
              ["bin", "mul", ["builtin", "abs", ["ref", "v1"], []], ["lit", {"int": 2}]],
              ["bin", "add", ["lit", {"int": 1}], ["builtin", "round", ["ref", "v1"], [["lit", {"int": 1}]]]],
              ["call", "fpow", [["bin", "mul", ["lit", {"int": 3}], ["ref", "v1"]]], []],
              ["call", "fadd", [["bin", "add", ["un", "neg", ["lit", {"int": 1}]], ["ref", "v1"]]], [["y", ["lit", {"int": 2}]]]],
              ["builtin", "abs", [["bin", "sub", ["lit", {"int": 1}], ["ref", "v1"]]][0], []],
              ["item", ["ref", "L"], ["bin", "add", ["lit", {"int": 0}], ["bin", "mod", ["ref", "v1"], ["lit", {"int": 3}]]]],
              ["call", "fpow", [["bin", "mul", ["litexpr", {"int": 3}], ["ref", "v1"]]], []],
              ["builtin", "abs", ["bin", "mul", ["litexpr", {"int": 3}], ["ref", "v1"]], []],
              ["builtin", "round", ["ref", "v0"], [["bin", "add", ["litexpr", {"int": 0}], ["ref", "v1"]]]],
              ["item", ["ref", "L"], ["bin", "add", ["litexpr", {"int": 0}], ["bin", "mod", ["ref", "v1"], ["lit", {"int": 3}]]]],
              ["call", "fpow", [["bin", "mul", ["un", "neg", ["litexpr", {"int": 3}]], ["ref", "v1"]]], []],
              ["call", "fpow", [["bin", "mul", ["root"], ["ref", "v1"]]], []],
              # the called function is itself a node without dependencies (a LiteralExpr around the callable), and the
              # call is the first thing visited below another node
              ["bin", "mul", ["call", "fpow", [["ref", "v1"]], [], "litexpr"], ["lit", {"int": 2}]],
              ["un", "neg", ["call", "fadd", [["ref", "v0"]], [["y", ["ref", "v1"]]], "litexpr"]],
              ["builtin", "abs", ["call", "fpow", [["ref", "v2"]], [], "litexpr"], []],
              ["call", "fadd", [["call", "fpow", [["ref", "v1"]], [], "litexpr"]], [["y", ["ref", "v2"]]]],
              ["item", ["ref", "L"], ["bin", "mod", ["call", "fpow", [["ref", "v1"]], [], "litexpr"], ["lit", {"int": 3}]]],
              ["call", "fpow", [["ref", "v1"]], [], "litexpr"],
              ["call", "fadd", [["ref", "v0"]], [["y", ["bin", "mul", ["root"], ["ref", "v1"]]]]],
              ["bin", "sub", ["item", ["ref", "L"], ["lit", {"int": -1}]], ["item", ["ref", "L"], ["lit", {"int": -2}]]],
              ["bin", "add", ["bin", "mul", ["lit", {"int": 2}], ["item", ["ref", "L"], ["lit", {"int": -1}]]],
               ["bin", "mul", ["lit", {"int": 2}], ["item", ["ref", "L"], ["lit", {"int": -2}]]]],
              ["bin", "mul", ["item", ["ref", "D"], ["lit", {"int": 1}]], ["item", ["ref", "D"], ["lit", {"int": 1 + 2 ** 61 - 1}]]],
              ["bin", "sub", ["ref", "v1"], ["ref", "v1"]], ["bin", "mul", ["ref", "v1"], ["ref", "v1"]],
              ["un", "neg", ["ref", "v1"]], ["un", "neg", ["root"]], ["un", "pos", ["root"]],
              ["bin", "add", ["root"], ["lit", {"int": 1}]], ["builtin", "abs", ["root"], []]]:
        yield {"kind": "deps", "vals": {"v0": {"float": (12.345).hex()}, "v1": {"int": 1}, "v2": {"int": 5}, "v3": {"int": 2}},
               "term": t, "perturb": ["v1", {"int": 2}]}
    # an item / attribute taken of a COMPUTED value (the owner of the ItemRef / AttrRef is an expression, not a location)
    for t, pert in [(["item", ["builtin", "divmod", ["ref", "v3"], [["ref", "v2"]]], ["lit", {"int": 0}]], "v3"),
                    (["item", ["builtin", "divmod", ["ref", "v3"], [["ref", "v2"]]], ["lit", {"int": 1}]], "v2"),
                    (["attr", ["bin", "mul", ["ref", "v1"], ["ref", "v2"]], "real"], "v1"),
                    (["bin", "add", ["attr", ["bin", "add", ["ref", "v1"], ["lit", {"int": 1}]], "real"], ["lit", {"int": 1}]], "v1"),
                    (["item", ["call", "fpair", [["ref", "v1"]], [["y", ["ref", "v2"]]]], ["lit", {"int": 1}]], "v2"),
                    (["item", ["call", "fpair", [["ref", "v1"]], []], ["bin", "mod", ["ref", "v3"], ["lit", {"int": 2}]]], "v1")]:
        yield {"kind": "deps", "vals": {"v0": {"int": 0}, "v1": {"int": 7}, "v2": {"int": 2}, "v3": {"int": 9}},
               "term": t, "perturb": [pert, {"int": 4}]}
    # several computed keys below one owner (the owner is collected by the first, the keys of the others still count),
    # and a computed key that itself goes through the same owner; the perturbed location occurs only inside a key
    km = lambda nm: ["bin", "mod", ["ref", nm], ["lit", {"int": 4}]]
    for t, pert in [(["bin", "add", ["item", ["ref", "L"], km("v1")], ["item", ["ref", "L"], km("v2")]], "v2"),
                    (["bin", "add", ["item", ["ref", "L"], km("v2")], ["item", ["ref", "L"], km("v1")]], "v1"),
                    (["item", ["ref", "L"], ["bin", "mod", ["item", ["ref", "L"], km("v1")], ["lit", {"int": 4}]]], "v1"),
                    (["bin", "mul", ["item", ["ref", "L"], ["lit", {"int": 0}]], ["item", ["ref", "L"], km("v3")]], "v3"),
                    (["call", "fadd", [["item", ["ref", "L"], km("v1")]], [["y", ["item", ["ref", "L"], km("v2")]]]], "v2")]:
        yield {"kind": "deps", "vals": {"v0": {"int": 0}, "v1": {"int": 1}, "v2": {"int": 2}, "v3": {"int": 3}},
               "term": t, "perturb": [pert, {"int": 0}]}


def cases_c13(rng, n):
    # operator precedence in the printed source: unary operators under ** and as call / item heads
    fixed = [["bin", "pow", ["un", "invert", ["ref", "v1"]], ["lit", {"int": 2}]],
             ["bin", "pow", ["un", "neg", ["ref", "v1"]], ["lit", {"int": 2}]],
             ["bin", "pow", ["lit", {"int": -3}], ["ref", "v1"]],
             ["bin", "sub", ["lit", {"int": 1}], ["un", "neg", ["ref", "v1"]]],
             ["bin", "mul", ["un", "invert", ["ref", "v1"]], ["un", "pos", ["ref", "v3"]]],
             ["builtin", "round", ["bin", "truediv", ["ref", "v0"], ["ref", "v3"]], [["lit", {"int": 1}]]],
             ["builtin", "floor", ["ref", "v0"], []], ["builtin", "abs", ["un", "neg", ["ref", "v0"]], []],
             ["call", "fadd", [["ref", "v0"]], [["y", ["ref", "v1"]]]]]
    vals0 = {"v0": {"float": (12.345).hex()}, "v1": {"int": 3}, "v2": {"int": 5}, "v3": {"int": 2}}
    for t in fixed:
        yield {"kind": "genfun", "vals": vals0, "defs": [t], "args": [["v1", {"int": 5}], ["v0", {"float": (2.5).hex()}]]}
    # arguments that are elements of a container hanging off an attribute (r['o'].lst[k]); definitions that read that
    # container through a computed key or as a whole are downstream of the argument
    lst = ["attr", ["ref", "o"], "lst"]
    for d, argk in [(["item", lst, ["bin", "mod", ["ref", "v1"], ["lit", {"int": 3}]]], 0),
                    (["bin", "add", ["item", lst, ["bin", "mod", ["ref", "v1"], ["lit", {"int": 3}]]], ["ref", "v2"]], 0),
                    (["call", "fadd", [["item", lst, ["bin", "mod", ["ref", "v3"], ["lit", {"int": 3}]]]], [["y", ["ref", "v1"]]]], 2),
                    (["bin", "mul", ["item", lst, ["lit", {"int": 1}]], ["lit", {"int": 2}]], 1)]:
        yield {"kind": "genfun", "keep_o": True, "vals": vals0, "defs": [d, ["bin", "add", ["ref", "v0"], ["lit", {"int": 1}]]],
               "args": [[["item", lst, ["lit", {"int": argk}]], {"int": 40}], ["v0", {"float": (2.5).hex()}]]}
    # a definition that reads, AS A WHOLE (through a function of the function container), a container or an object reached
    # as an attribute; the argument is a member of it: an enclosing location that is an attribute reference is enclosing all the same
    pos = ["attr", ["ref", "o"], "pos"]
    for d, arg in [(["call", "fsum", [lst], []], ["item", lst, ["lit", {"int": 1}]]),
                   (["bin", "mul", ["call", "fsum", [lst], []], ["ref", "v1"]], ["item", lst, ["lit", {"int": 2}]]),
                   (["call", "fnorm", [pos], []], ["attr", pos, "x"]),
                   (["bin", "add", ["call", "fnorm", [pos], []], ["ref", "v2"]], ["attr", pos, "y"]),
                   # the same below a top-level object container: no item reference among the enclosing locations
                   (["call", "fnorm", [["attr", ["obroot"], "pos"]], []], ["attr", ["attr", ["obroot"], "pos"], "x"]),
                   (["call", "fsum", [["attr", ["obroot"], "lst"]], []], ["item", ["attr", ["obroot"], "lst"], ["lit", {"int": 1}]]),
                   (["bin", "mul", ["call", "fnorm", [["attr", ["obroot"], "pos"]], []], ["ref", "v1"]], ["attr", ["attr", ["obroot"], "pos"], "y"])]:
        yield {"kind": "genfun", "keep_o": True, "vals": vals0, "defs": [d, ["bin", "add", ["ref", "v0"], ["lit", {"int": 1}]]],
               "args": [[arg, {"int": 40}], ["v0", {"float": (2.5).hex()}]]}
    # known finding D29: the text of the constant complex(0.0, -2.0) is "-2j", which reads back as complex(-0.0, -2.0)
    yield {"kind": "genfun", "vals": vals0, "defs": [["bin", "truediv", ["lit", {"complex": [(0.0).hex(), (-2.0).hex()]}], ["ref", "v3"]]],
           "args": [["v3", {"int": 1}]]}
    for i in range(n):
        vals = gen_vals(rng, ["int", "float"])
        defs = [gen_term(rng, rng.randint(1, 4)) for _ in range(rng.randint(1, 3))]
        args = [[nm, gen_val(rng, rng.choice(["int", "float"]))] for nm in rng.sample(NAMES, rng.randint(1, 3))]
        yield {"kind": "genfun", "vals": vals, "defs": defs, "args": args}


def cases_c12(rng, n):
    # the default container of Manager.ref() (an AttrDict): follow-ups in attribute and in item syntax
    for follow in ([["item", "a", {"float": (5.0).hex()}], ["attr", "a", {"float": (7.0).hex()}], ["item", "k", {"int": 4}]],
                   [["attr", "k", {"int": 3}], ["attr", "a", {"float": (-1.5).hex()}]]):
        yield {"kind": "mgrpickle_default", "vals": {"a": {"float": (1.0).hex()}, "k": {"int": 2}},
               "defs": [["b", ["mul", "a", 2]], ["c", ["add", "b", "k"]]], "follow": follow}
    for t in [["builtin", "abs", ["ref", "v0"], []], ["builtin", "round", ["ref", "v0"], []],
              ["builtin", "round", ["ref", "v0"], [["lit", {"int": 1}]]], ["builtin", "floor", ["ref", "v0"], []],
              ["call", "fadd", [["ref", "v0"]], [["y", ["ref", "v1"]]]], ["un", "neg", ["ref", "v0"]],
              ["item", ["ref", "L"], ["bin", "mod", ["ref", "v1"], ["lit", {"int": 4}]]],
              ["attr", ["ref", "o"], "u"]]:
        vals = {"v0": {"float": (-2.5).hex()}, "v1": {"int": 2}, "v2": {"int": 5}, "v3": {"int": 2}}
        yield {"kind": "pickle", "vals": vals, "term": t}
        if t[0] != "attr":
            yield {"kind": "mgrpickle", "vals": vals, "defs": [t], "follow": [["v0", {"float": (7.75).hex()}], ["v1", {"int": 3}]]}
            yield {"kind": "mgrpickle", "vals": vals, "defs": [t], "refattr": True,
                   "follow": [["v0", {"float": (7.75).hex()}], ["v1", {"int": 3}]]}
    # constants that are numpy scalars of a narrow dtype: the restored expression has to compute in that dtype too
    for lit, nm in [({"np": ["float32", 0.1]}, "v0"), ({"np": ["uint8", 250]}, "v1"), ({"np": ["int8", 100]}, "v1"),
                    ({"np": ["float16", 0.3]}, "v0")]:
        for op in ("mul", "add"):
            t = ["bin", op, ["ref", nm], ["lit", lit]]
            vals = {"v0": {"float": (7.0).hex()}, "v1": {"int": 3}, "v2": {"int": 5}, "v3": {"int": 2}}
            yield {"kind": "pickle", "vals": vals, "term": t}
            yield {"kind": "mgrpickle", "vals": vals, "defs": [t, ["bin", "add", ["ref", "v2"], ["lit", {"int": 1}]]],
                   "follow": [["v0", {"float": (0.7).hex()}], ["v1", {"int": 20}], ["v0", {"float": (17.0).hex()}]]}
    # managers pickled in every state the API reaches (frozen included), follow-ups that are events
    yield from more_c12_fixed()
    rng2 = side_rng(rng)
    for i in range(n):
        if i % 8 == 3:
            yield gen_mgrstate(rng2)
        vals = gen_vals(rng, ["int", "float"])
        if rng.random() < 0.5:
            yield {"kind": "pickle", "vals": vals, "term": gen_term(rng, rng.randint(1, 4))}
        else:
            defs = [gen_term(rng, rng.randint(1, 3)) for _ in range(rng.randint(1, 4))]
            defs = [d for d in defs if "attr" not in json.dumps(d)]
            nested = rng.random() < 0.5
            follow = []
            for _ in range(rng.randint(1, 4)):
                r = rng.random()
                if r < 0.5:
                    follow.append([rng.choice(NAMES), gen_val(rng, rng.choice(["int", "float"]))])
                else:
                    i = rng.randrange(len(defs)) if defs else 0
                    tgt = ["g", i] if nested else "out%d" % i
                    if r < 0.8:
                        follow.append([tgt, gen_val(rng, rng.choice(["int", "float"]))])       # a definition overwritten by a value
                    else:
                        follow.append([tgt, {"term": gen_term(rng, rng.randint(1, 2))}])         # ... or by another definition
            if defs:
                c = {"kind": "mgrpickle", "vals": vals, "defs": defs, "nested": nested, "follow": follow}
                if rng.random() < 0.3:
                    c["refattr"] = True
                yield c


KEYS = ["a", "b", "ab", "a'b", 'a"b', "a]", "[a", "a.b", "a['b']", "c['a']", "é", "a b", "\\", "a\\'", "0", "1", "-1", "1.5", "",
        0, 1, -1, 10, 2 ** 70, {"f": (1.5).hex()}, {"f": (-0.25).hex()}, {"t": [1, "a"]}, {"t": [1, 2]}, {"t": ["a", {"t": [1]}]},
        {"t": [1]}, {"t": ["a"]}, {"t": []}, {"t": [{"t": [1]}]}]
ATTRS = ["a", "b", "ab", "x1", "_p"]


def gen_path(rng):
    steps = []
    for _ in range(rng.randint(1, 4)):
        if rng.random() < 0.75:
            steps.append(["i", rng.choice(KEYS)])
        else:
            steps.append(["a", rng.choice(ATTRS)])
    return steps


def cases_c06(rng, n):
    paths = [gen_path(rng) for _ in range(max(10, int(n ** 0.5)))]
    # confusable pairs on purpose
    paths += [[["i", "a"], ["i", "b"]], [["i", "a']['b"]], [["i", "a"], ["a", "b"]], [["a", "a"], ["i", "b"]], [["i", "a.b"]],
              [["i", 1]], [["i", "1"]], [["i", {"f": (1.0).hex()}]], [["i", -1]], [["i", "-1"]], [["i", {"t": [1, 2]}]], [["i", "(1, 2)"]],
              [["i", "a"], ["i", 0]], [["i", "a"], ["i", "0"]], [["i", {"t": [1]}]], [["i", "k"], ["i", {"t": ["a"]}]], [["i", "k"], ["i", "a"]],
              [["i", {"t": [1, 2]}]], [["i", 1], ["i", 2]], [["a", "a"], ["a", "b"]], [["i", "c['a']"]], [["i", "c"], ["i", "a"]],
              # long keys that agree at both ends and differ in the middle / at the far end (a printer that abbreviates)
              [["i", "lhcb1.corrector.arc45.horizontal.kick_" + "A" * 30 + "_strength_setting_for_the_squeeze_step"]],
              [["i", "lhcb1.corrector.arc45.horizontal.kick_" + "B" * 30 + "_strength_setting_for_the_squeeze_step"]],
              [["i", "k"], ["i", "x" * 200 + "1" + "y" * 200]], [["i", "k"], ["i", "x" * 200 + "2" + "y" * 200]],
              [["i", {"t": [1, 2, 3, 4, 5, 6, 7]}]], [["i", {"t": [1, 2, 3, 4, 5, 6, 8]}]], [["i", {"t": [1, 2, 3, 4, 5, 6, 7, 8]}]],
              [["i", 10 ** 60 + 7 * 10 ** 30 + 1]], [["i", 10 ** 60 + 8 * 10 ** 30 + 1]],
              [["i", {"t": list(range(40))}]], [["i", {"t": list(range(39)) + [99]}]],
              # numpy scalars as keys (an index from np.argmax, an np.str_ name)
              [["i", {"np": ["int64", 1]}]], [["i", "a"], ["i", {"np": ["int64", 0]}]], [["i", {"np": ["str_", "a"]}], ["i", "b"]],
              [["i", {"np": ["float64", 1.0]}]],
              # bool / None keys: c[True] and c[1] select one entry and are two references; 'None' the string and None
              [["i", True]], [["i", False]], [["i", None]], [["i", "None"]], [["i", "True"]], [["i", 0]], [["i", {"t": [True, None]}]],
              [["i", {"t": [1, None]}]]]
    k = 0
    for p in paths:
        for q in paths:
            yield {"kind": "eqhash", "p": p, "q": q}
            k += 1
    for i in range(max(20, n // 10)):
        vals = gen_vals(rng, ["int"])
        t = gen_term(rng, rng.randint(1, 4))
        yield {"kind": "exprhash", "vals": vals, "t1": t, "t2": t}
    # distinct expressions with colliding hashes must stay distinct
    for op in ["mul", "add", "sub"]:
        for a, b in [({"int": -1}, {"int": -2}), ({"int": 1}, {"float": (1.0).hex()}), ({"int": 5}, {"int": 5 + 2 ** 61 - 1})]:
            yield {"kind": "exprhash", "vals": gen_vals(rng, ["int"]), "t1": ["bin", op, ["ref", "v1"], ["lit", a]],
                   "t2": ["bin", op, ["ref", "v1"], ["lit", b]]}
    for a, b in [(-1, -2), (0, 2 ** 61 - 1)]:
        yield {"kind": "eqhash", "p": [["i", "k"], ["i", a]], "q": [["i", "k"], ["i", b]]}
    yield {"kind": "eqhash", "p": [["i", "a"]], "q": [["i", "a"]], "label": "c", "label2": "d"}
    # the same label registered once with ref() and once with refattr() (two managers): item steps only, since attribute
    # syntax on a refattr container MEANS an item
    yield {"kind": "eqhash", "p": [["i", "a"]], "q": [["i", "a"]], "refattr2": True}
    yield {"kind": "eqhash", "p": [["i", "a"], ["a", "y"]], "q": [["i", "a"], ["a", "y"]], "refattr2": True}
    yield {"kind": "eqhash", "p": [["i", "a"], ["i", 2]], "q": [["i", "a"], ["i", 3]], "refattr2": True}
    yield {"kind": "eqhash", "p": [["a", "a"]], "q": [["i", "a"]], "label": "c", "label2": "c"}
    # the top-level container refs themselves, as Manager.refattr() and Manager.ref() make them
    for other in ["manager2", "pickle", "deepcopy"]:
        for how in [["refattr", "refattr"], ["ref", "ref"], ["refattr", "ref"], ["ref", "refattr"]]:
            if other != "manager2" and how[0] != how[1]:
                continue
            yield {"kind": "rooteq", "how": how, "other": other, "label": "g"}
    for how in [["refattr", "refattr"], ["ref", "ref"], ["refattr", "ref"]]:
        yield {"kind": "rooteq", "how": how, "other": "manager2", "label": "g", "label2": "h"}
        yield {"kind": "rooteq", "how": how, "other": "manager2", "label": "c['a']", "label2": "c['a']"}
    for i in range(max(4, n // 40)):
        lab = rng.choice(["g", "h", "e", "vars", "c['a']", "a.b"])
        yield {"kind": "rooteq", "how": [rng.choice(["refattr", "ref"]), rng.choice(["refattr", "refattr", "ref"])],
               "other": rng.choice(["manager2", "manager2", "pickle", "deepcopy"]), "label": lab, "label2": rng.choice([lab, lab, "g", "h"])}
    # keys that are == and hash alike but differ in type, alone and inside tuple keys
    yield from more_c06(rng)


PRINT_OPS = ARITH * 3 + BITS + CMPS

# keys (in key_py's format) that exist in the container K of Env, and a generator of arbitrary ones
KKEYS = [{"t": [1, "a"]}, {"t": [3]}, {"t": []}, None, -1, {"f": (0.5).hex()}, {"f": (-2.5).hex()}, {"t": [1, {"t": [2, 3]}]},
         0, 1, True, False, {"t": [-1, {"f": (0.5).hex()}, None, True]}, {"t": [{"t": []}]}]
KEY_STRS = ["a", "k'", "p q", "", "(1, 2)", "None"]
KEY_INTS = [0, 1, -1, 3, -7, 2 ** 70, -(2 ** 65)]
KEY_FLOATS = [0.5, -2.5, -0.0, 0.0, 1e22, 1e-7, 3.0, 0.1 + 0.2, -1.5e300]


def gen_keyj(rng, depth=2):
    if depth > 0 and rng.random() < 0.35:
        return {"t": [gen_keyj(rng, depth - 1) for _ in range(rng.choice([0, 1, 1, 2, 2, 3]))]}
    x = rng.random()
    if x < 0.2:
        return rng.choice(KEY_STRS)
    if x < 0.45:
        return rng.choice(KEY_INTS)
    if x < 0.6:
        return rng.random() < 0.5
    if x < 0.72:
        return None
    return {"f": rng.choice(KEY_FLOATS).hex()}


def key_item(owner, kj):
    return ["item", owner, ["lit", {"key": kj}]]


KEY_CHAIN = ["attr", key_item(key_item(["ref", "K"], {"t": [1, "a"]}), {"t": [3]}), "real"]       # r['K'][(1, 'a')][(3,)].real


def gen_keyleaf(rng):
    if rng.random() < 0.15:
        return KEY_CHAIN
    t = key_item(["ref", "K"], rng.choice(KKEYS) if rng.random() < 0.6 else gen_keyj(rng))
    if rng.random() < 0.15:
        t = key_item(t, gen_keyj(rng))          # a second step; where it does not exist both sides raise alike
    return t


def with_keys(rng, t):
    """the term with about half of its plain leaves replaced by references through tuple / bool / None / negative / float keys"""
    k = t[0]
    if k == "ref":
        return gen_keyleaf(rng) if rng.random() < 0.5 else t
    if k == "bin":
        keep_rhs = t[1] in ("pow", "lshift", "rshift")         # exponents and shift counts stay small
        return [k, t[1], with_keys(rng, t[2]), t[3] if keep_rhs else with_keys(rng, t[3])]
    if k == "un":
        return [k, t[1], with_keys(rng, t[2])]
    if k == "builtin":
        return [k, t[1], with_keys(rng, t[2]), [with_keys(rng, x) for x in t[3]]]
    if k == "call":
        return [k, t[1], [with_keys(rng, x) for x in t[2]], [[n, with_keys(rng, x)] for n, x in t[3]]] + list(t[4:])
    return t


def c11_extra(n):
    """number of additional print cases with extended keys that cases_c11 appends after its n random terms"""
    return max(8, n // 4)



def cases_c11(rng, n):
    fixed = [["builtin", "round", ["ref", "v0"], [["lit", {"int": 2}]]], ["builtin", "round", ["ref", "v0"], []],
             ["builtin", "floor", ["ref", "v0"], []], ["builtin", "ceil", ["ref", "v0"], []], ["builtin", "trunc", ["ref", "v0"], []],
             ["builtin", "abs", ["ref", "v0"], []], ["builtin", "divmod", ["ref", "v0"], [["ref", "v1"]]],
             ["bin", "pow", ["lit", {"int": -3}], ["ref", "v1"]], ["bin", "pow", ["lit", {"float": (-1.5).hex()}], ["ref", "v1"]],
             ["bin", "sub", ["lit", {"int": -3}], ["ref", "v1"]], ["bin", "mul", ["ref", "v1"], ["lit", {"int": -3}]],
             ["bin", "add", ["lit", {"float": (1e-7).hex()}], ["ref", "v1"]], ["bin", "add", ["lit", {"float": (1e22).hex()}], ["ref", "v1"]],
             ["call", "fadd", [["ref", "v0"], ["lit", {"int": 2}]], [["z", ["ref", "v1"]]]],
             ["call", "fpow", [["ref", "v0"]], [["y", ["lit", {"int": 3}]]]],
             ["item", ["ref", "D"], ["lit", {"str": "k'"}]], ["item", ["ref", "L"], ["lit", {"int": -1}]],
             ["attr", ["ref", "o"], "u"], ["item", ["ref", "D"], ["lit", {"str": "p"}]]]
    # expressions that differ only in constants with equal hashes (hash(-1) == hash(-2), hash(1) == hash(1.0) ==
    # hash(True), hash(n) == hash(n + 2**61 - 1)): anything keyed by the structural hash confuses them
    for op in ["mul", "add", "sub", "pow", "truediv", "lt"]:
        for a, b in [({"int": -1}, {"int": -2}), ({"int": 1}, {"float": (1.0).hex()}), ({"int": 1}, {"bool": True}),
                     ({"int": 5}, {"int": 5 + 2 ** 61 - 1}), ({"int": 0}, {"float": (-0.0).hex()})]:
            for x in (a, b):
                if not (op == "pow" and abs(x.get("int", 0)) > 100):      # 2 ** (2**61) would never finish
                    fixed.append(["bin", op, ["ref", "v1"], ["lit", x]])
                fixed.append(["bin", op, ["lit", x], ["ref", "v1"]])
    for x in [{"int": -1}, {"int": -2}]:
        fixed.append(["item", ["ref", "L"], ["lit", x]])
        fixed.append(["call", "fadd", [["ref", "v0"], ["lit", x]], []])
    vals0 = {"v0": {"float": (12.345).hex()}, "v1": {"int": 2}, "v2": {"int": 5}, "v3": {"int": 3}}
    for t in fixed:
        yield {"kind": "print", "vals": vals0, "term": t}
    # tuple / bool / None / negative / float keys (XModel/ParseKeys.lean): r['K'][(1, 'a')][(3,)].real + f['fadd'](r['K'][()], y=r['K'][None]),
    # every key of K alone, on both sides of an operator and as call arguments, confusable keys, signed zero, big ints
    kfixed = [["bin", "add", KEY_CHAIN, ["call", "fadd", [key_item(["ref", "K"], {"t": []})], [["y", key_item(["ref", "K"], None)]]]]]
    for kj in KKEYS + [{"f": (-0.0).hex()}, {"f": (1e22).hex()}, {"f": (1e-7).hex()}, 2 ** 70, -(2 ** 65), "(1, 2)", {"t": [1, 2]},
                       {"t": [{"t": [1]}, 2]}, {"t": [1, {"t": [2]}]}, {"t": ["a'b", {"t": [{"t": [{"t": []}]}]}]}, {"t": [True, False, None]},
                       {"t": list(range(12))}]:
        it = key_item(["ref", "K"], kj)
        kfixed += [it, ["bin", "mul", it, ["lit", {"int": -3}]], ["bin", "pow", ["lit", {"float": (-1.5).hex()}], it],
                   ["call", "fadd", [it, ["lit", {"int": 2}]], [["z", it]]], ["un", "neg", it], ["builtin", "round", it, [["lit", {"int": 1}]]],
                   key_item(it, kj)]
    for t in kfixed:
        yield {"kind": "print", "vals": vals0, "term": t, "keys": True}
    # dump/load and copy_expr_from, including keys that contain the container label
    tricky = {"v0": {"int": 3}, "v1": {"int": 2}, "v2": {"int": 5}, "v3": {"int": 7}}
    for kind in ("dumpload", "copyfrom"):
        yield {"kind": kind, "vals": tricky, "targets": ["r_out", "x r y"],
               "defs": [["bin", "add", ["ref", "v0"], ["ref", "v1"]], ["bin", "mul", ["ref", "v2"], ["item", ["ref", "D"], ["lit", {"str": "p"}]]]],
               "follow": [["v0", {"int": 10}], ["v2", {"int": -1}]]}
        yield {"kind": kind, "vals": tricky, "targets": ["out"], "label2": "rr",
               "defs": [["builtin", "round", ["bin", "truediv", ["ref", "v0"], ["ref", "v3"]], [["lit", {"int": 2}]]]],
               "follow": [["v0", {"int": 10}]]}
    yield {"kind": "copyfrom", "vals": tricky, "targets": ["out"], "defs": [["bin", "add", ["ref", "v0"], ["ref", "v1"]]],
           "preexisting": ["out", "v3"], "overwrite": False, "follow": [["v0", {"int": 10}]]}
    yield {"kind": "copyfrom", "vals": tricky, "targets": ["out"], "defs": [["bin", "add", ["ref", "v0"], ["ref", "v1"]]],
           "preexisting": ["out", "v3"], "overwrite": True, "follow": [["v0", {"int": 10}]]}
    yield {"kind": "copyfrom", "vals": tricky, "targets": ["out", "o2"], "shadow_outer": True, "overwrite": False,
           "defs": [["bin", "add", ["ref", "v0"], ["ref", "v1"]], ["bin", "mul", ["ref", "v2"], ["lit", {"int": 3}]]],
           "follow": [["v0", {"int": 10}], ["v2", {"int": -1}]]}
    yield {"kind": "copyfrom", "vals": tricky, "targets": ["out", "o2"], "shadow": True,
           "defs": [["bin", "add", ["ref", "v0"], ["ref", "v1"]], ["bin", "mul", ["ref", "v2"], ["lit", {"int": 3}]]],
           "follow": [["v0", {"int": 10}], ["v2", {"int": -1}]]}
    for i in range(max(4, n // 20)):
        vals = gen_vals(rng, ["int", "float"])
        defs = []
        while len(defs) < rng.randint(1, 3):
            t = gen_term(rng, rng.randint(1, 3), PRINT_OPS)
            if "complex" not in json.dumps(t) and "attr" not in json.dumps(t):
                defs.append(t)
        c = {"kind": rng.choice(["dumpload", "copyfrom"]), "vals": vals, "defs": defs,
             "targets": [rng.choice(["out", "r_out", "a r", "k['r']", "o2"]) + str(j) for j in range(len(defs))],
             "follow": [[rng.choice(NAMES), gen_val(rng, rng.choice(["int", "float"]))] for _ in range(2)]}
        if c["kind"] == "copyfrom" and rng.random() < 0.4:
            c["shadow"] = True
        elif c["kind"] == "copyfrom" and rng.random() < 0.3:
            c["shadow_outer"] = True
            c["overwrite"] = False
        yield c
    # load / copy_expr_from into managers made by clone() / copy() that have diverged from their origin
    yield from more_c11_fixed()
    rng2 = side_rng(rng)
    k = 0
    while k < n:
        vals = gen_vals(rng, ["int", "float"])
        t = gen_term(rng, rng.randint(1, 5), PRINT_OPS)
        if "complex" in json.dumps(t):
            continue        # C11's language has finite real constants only (-2j reprints as (-0-2j))
        k += 1
        yield {"kind": "print", "vals": vals, "term": t}
    # the same language with item keys of every printable kind; a generator of its own, seeded AFTER the terms above, so
    # that those are the terms they were before these cases existed
    rng2 = random.Random(rng.random())
    k = 0
    while k < c11_extra(n):
        t0 = gen_term(rng2, rng2.randint(0, 4), PRINT_OPS)
        if "complex" in json.dumps(t0):
            continue
        t = with_keys(rng2, t0)
        if t == t0:
            t = ["bin", rng2.choice(PRINT_OPS), t0, gen_keyleaf(rng2)]
        k += 1
        yield {"kind": "print", "vals": gen_vals(rng2, ["int", "float"]), "term": t, "keys": True}
        if k % 20 == 7:
            yield gen_cloneload(rng2)


# ----------------------------------------------------------------------------
# further case kinds (oracle only, no model line: their `pexpr` stays None)
#   iopseq    C04  SEQUENCES of in-place statements on one location (old definition or old value), inexact float data
#   mgrstate  C12  managers pickled in every state the API reaches (frozen, after a frozen period, twice), follow-ups that
#                  are events (assignments, re-definitions, freeze / unfreeze, verify) mirrored on original and copy
#   cloneload C11  load / copy_expr_from INTO a manager made by clone() / copy() that has since diverged from its origin
#   eqtyped, eqfamily  C06  keys compared by value AND type at every depth of a tuple key
# ----------------------------------------------------------------------------
MORE_KINDS = ("iopseq", "mgrstate", "cloneload", "eqtyped", "eqfamily")


def bump(stats, key, by=1):
    stats[key] = stats.get(key, 0) + by


def side_rng(rng):
    """a second generator derived from the state of `rng` WITHOUT drawing from it (the cases generated from `rng` stay
    what they were)"""
    st = rng.getstate()[1]
    return random.Random(sum(int(x) << (32 * i) for i, x in enumerate(st[:6])) + 12345)


def outcomes_agree(got, want):
    if got[0] != want[0]:
        return False
    if got[0] == "exc":
        return got[1] == want[1]
    return same(got[1], want[1])


def run_iopseq(case, fail, stats):
    """`x = <old definition or value>; x op1= k1; x op2= k2; ...`: after EVERY statement the location holds, and its
    definition evaluates to, what Python computes when it executes the same statements on the operand values (value and
    type; division by zero -> NaN once a reference is involved); once more after an operand changed through the manager"""
    env = Env(case["vals"])
    name = case["name"]
    expr_t = case.get("expr")
    if expr_t is not None:
        if outcome(lambda: env.r.__setitem__(name, env.build(expr_t)))[0] != "ok":
            return
        if not has_ref(expr_t) or env.r[name]._expr is None:
            return
    full = expr_t           # the mirrored definition; None while the location holds a plain value
    bump(stats, "iopseq_cases")
    bump(stats, "iop_cases")
    info = {"name": name, "expr": expr_t, "steps": case["steps"], "vals": case["vals"]}
    for si, (op, operand_t) in enumerate(case["steps"]):
        oldv = env.box[name]
        ntasks0 = len(env.m.tasks)
        operand = env.build(operand_t)
        value_case = full is None and not has_ref(operand_t)
        if value_case:
            nxt = None
            want = outcome(lambda: BIN[op](oldv, env.direct(operand_t)))
        else:
            if full is None:
                try:
                    base = ["lit", val_json(oldv)]
                except ValueError:
                    return
                if "np" in base[1] or "arr" in base[1]:
                    return          # a numpy value standing to the left of a reference: numpy owns the operator
            else:
                base = full
            nxt = ["bin", op, base, operand_t]
            want = outcome(lambda: env.direct(nxt))

        def do():
            tmp = env.r[name]
            tmp = IOP[op](tmp, operand)
            env.r[name] = tmp
        got = outcome(do)
        bump(stats, "iopseq_statements")
        if got[0] != want[0] or (got[0] == "exc" and got[1] != want[1]):
            fail("C04", "inplace-sequence-outcome", dict(info, step=si, got=[got[0], describe(got[1])], python=[want[0], describe(want[1])]))
            return
        if got[0] != "ok":
            return          # both raised the same exception: the update stopped half way, nothing further to compare
        if not same(env.box[name], want[1]):
            fail("C04", "inplace-sequence-value", dict(info, step=si, got=describe(env.box[name]), python=describe(want[1])))
            return
        e = env.r[name]._expr
        if value_case:
            if e is not None or len(env.m.tasks) != ntasks0:
                fail("C04", "inplace-sequence-value-case-registers", dict(info, step=si, registered=str(e)))
                return
        else:
            if e is None:
                fail("C04", "inplace-sequence-lost-expression", dict(info, step=si))
                return
            ev = outcome(e._get_value)
            if not outcomes_agree(ev, want):
                fail("C04", "inplace-sequence-wrong-expression", dict(info, step=si, registered=str(e),
                                                                      evaluates_to=describe(ev[1]), python=describe(want[1])))
                return
            full = nxt
    for nm, vj in case.get("then", []):
        if nm == name or outcome(lambda: env.r.__setitem__(nm, val_py(vj)))[0] != "ok":
            return
        if full is None:
            continue
        want = outcome(lambda: env.direct(full))
        e = env.r[name]._expr
        if want[0] != "ok" or e is None:
            return
        bump(stats, "iopseq_after_update")
        ev = outcome(e._get_value)
        if not same(env.box[name], want[1]) or not outcomes_agree(ev, want):
            fail("C04", "inplace-sequence-after-update", dict(info, changed=[nm, vj], holds=describe(env.box[name]),
                                                              evaluates_to=describe(ev[1]), python=describe(want[1])))
            return


def run_mgrstate(case, fail, stats):
    """C12 for a manager in whatever state the history left it in when it was pickled: the restored manager has the same
    definitions, passes verify(), and every further EVENT (assignment, re-definition, definition replaced by a value, new
    definition, freeze / unfreeze, verify) ends the same way on both (done / class of the exception) and leaves the same
    contents and definitions; no event on one is seen by the other"""
    env = Env(case["vals"])
    del env.box["o"]
    if case.get("refattr"):
        env.m = xdeps.Manager()
        env.r = env.m.refattr(env.box, "r")
        env.f = env.m.ref(dict(FUNCS), "f")
    ndefs = 0
    for i, t in enumerate(case["defs"]):
        env.box["out%d" % i] = None
        if outcome(lambda: env.r.__setitem__("out%d" % i, env.build(t)) if isinstance(env.build(t), R.BaseRef)
                   else (_ for _ in ()).throw(ValueError()))[0] == "ok":
            ndefs += 1
    if not ndefs:
        return

    def apply(e, ev):
        k = ev[0]
        if k == "set":
            e.r[ev[1]] = val_py(ev[2])
        elif k == "def":
            e.r["out%d" % ev[1]] = e.build(ev[2])
        elif k == "val":
            e.r["out%d" % ev[1]] = val_py(ev[2])
        elif k == "freeze":
            e.m.freeze_tree()
        elif k == "unfreeze":
            e.m.unfreeze_tree()
        elif k == "verify":
            quiet(e.m.verify)
        else:
            raise ValueError(ev)

    frozen = False          # what the history says (for the statistics only; the oracle never reads the flag)
    for ev in case.get("prep", []):
        r = outcome(lambda: apply(env, ev))
        if r[0] == "ok" and ev[0] in ("freeze", "unfreeze"):
            frozen = ev[0] == "freeze"
    bump(stats, "mgrstate_cases")
    bump(stats, "mgrpickle_cases")
    bump(stats, "mgrstate_pickled_frozen", int(frozen))
    info = {"defs": case["defs"], "prep": case.get("prep", []), "trips": case.get("trips", 1), "refattr": bool(case.get("refattr"))}
    before = (snapshot(env.box), outcome(env.m.dump))

    def trip():
        m = env.m
        for _ in range(case.get("trips", 1)):
            m = pickle.loads(pickle.dumps(m))
        return m
    back = outcome(trip)
    if back[0] != "ok":
        fail("C12", "manager-pickle-raises", dict(info, exc=back[1]))
        return
    m2 = back[1]
    if (snapshot(env.box), outcome(env.m.dump)) != before:
        fail("C12", "pickling-changes-the-original", info)
        return
    if outcome(m2.dump) != before[1]:
        fail("C12", "manager-definitions-differ", info)
        return
    v1, v2 = outcome(lambda: quiet(env.m.verify)), outcome(lambda: quiet(m2.verify))
    if v1[0] == "ok" and v2[0] != "ok":
        fail("C12", "restored-manager-fails-verify", dict(info, exc=v2[1]))
        return
    r2 = m2.containers["r"]
    box2 = r2._owner
    env2 = Env.__new__(Env)
    env2.__dict__.update(env.__dict__)
    env2.m, env2.r, env2.box = m2, r2, box2
    if "f" in m2.containers:
        env2.f = m2.containers["f"]
    if box2 is env.box or snapshot(box2) != before[0]:
        fail("C12", "restored-contents-differ", dict(info, original=before[0], copy=snapshot(box2)))
        return
    state = lambda e: (snapshot(e.box), outcome(e.m.dump))
    for fi, ev in enumerate(case.get("follow", [])):
        s1 = state(env)
        u2 = outcome(lambda: apply(env2, ev))
        if state(env) != s1:
            fail("C12", "copy-affects-original", dict(info, follow=case["follow"][:fi + 1]))
            return
        s2 = state(env2)
        u1 = outcome(lambda: apply(env, ev))
        if state(env2) != s2:
            fail("C12", "original-affects-copy", dict(info, follow=case["follow"][:fi + 1]))
            return
        if u1 != u2:
            fail("C12", "copies-end-an-event-differently", dict(info, follow=case["follow"][:fi + 1], original=list(u1), copy=list(u2)))
            return
        bump(stats, "mgrstate_followups")
        if u1[0] != "ok":
            bump(stats, "mgrstate_refused_on_both")
            if ev[0] == "set":
                return      # an update that stopped half way (C18's subject); a refused change of the graph goes on
        s1, s2 = state(env), state(env2)
        if s1[0] != s2[0] and "nan" not in json.dumps([s1[0], s2[0]]):
            fail("C12", "copies-diverge", dict(info, follow=case["follow"][:fi + 1], original=s1[0], copy=s2[0]))
            return
        if s1[1] != s2[1]:
            fail("C12", "manager-definitions-differ-after-events", dict(info, follow=case["follow"][:fi + 1],
                                                                         original=s1[1][1], copy=s2[1][1]))
            return
    v1, v2 = outcome(lambda: quiet(env.m.verify)), outcome(lambda: quiet(m2.verify))
    if v1[0] == "ok" and v2[0] != "ok":
        fail("C12", "restored-manager-fails-verify-after-events", dict(info, follow=case.get("follow"), exc=v2[1]))


def run_cloneload(case, fail, stats):
    """C11 with a RECEIVING manager that was made by clone() / copy() of a working manager and has since been changed:
    after the same calls (load / copy_expr_from with either overwrite, a definition replaced by a value or by another
    expression) it holds the definitions a fresh manager over equivalent containers holds (which are also those a plain
    dictionary of texts prescribes: kept when overwrite is False, replaced otherwise), every call ends the same way,
    verify() passes, and later assignments leave the same contents"""
    import copy
    work = Env(case["vals"])
    del work.box["o"]
    spare = {"out%d" % k: 0.5 for k in range(4)}        # every target exists as a plain location before it is defined
    work.box.update(spare)
    for tgt, t in case["base"]:
        if outcome(lambda: work.r.__setitem__(tgt, work.build(t)))[0] != "ok" or work.r[tgt]._expr is None:
            return
    made = outcome(work.m.clone if case["how"] == "clone" else work.m.copy)
    if made[0] != "ok":
        return              # clone() / copy() themselves are not C11's subject
    recv = made[1]
    data = recv.containers["r"]._owner
    tw = xdeps.Manager()
    tbox = copy.deepcopy(data)
    tw.ref(tbox, "r")
    tw.ref(dict(FUNCS), "f")
    if outcome(lambda: tw.load(work.m.dump()))[0] != "ok":
        return
    if sorted(tw.dump()) != sorted(recv.dump()):
        return              # dump -> fresh manager is judged by the dumpload cases

    def view(m, box):
        e = Env.__new__(Env)
        e.__dict__.update(work.__dict__)
        e.m, e.r, e.f, e.box = m, m.containers["r"], m.containers["f"], box
        return e
    sides = [view(recv, data), view(tw, tbox)]
    expected = dict(recv.dump())        # the plain dictionary of texts
    norm = lambda text: str(eval(text, {"math": math}, dict(tw.containers)))
    bump(stats, "cloneload_cases")
    bump(stats, "cloneload_" + case["how"])
    info = {k: case[k] for k in ("how", "base", "events") if k in case}

    def source(pairs):
        src = Env(case["vals"])
        del src.box["o"]
        src.box.update(spare)
        for tgt, t in pairs:
            src.r[tgt] = src.build(t)
        return src

    for ei, ev in enumerate(case["events"]):
        k = ev[0]
        if k in ("load", "copyfrom"):
            s = outcome(lambda: source(ev[1]))
            if s[0] != "ok":
                return
            src = s[1]
            pairs = src.m.dump()
            if k == "load":
                res = [outcome(lambda: e.m.load(pairs, overwrite=ev[2])) for e in sides]
            else:
                pairs = list(src.m.iter_expr_tasks_owner(src.m.containers["r"]))
                res = [outcome(lambda: e.m.copy_expr_from(src.m, "r", {src.m.containers["r"]: e.r}, overwrite=ev[2])) for e in sides]

            def prescribe():
                for lhs, rhs in pairs:
                    lhs, rhs = norm(lhs), norm(rhs)
                    if lhs in expected and not ev[2]:
                        continue
                    expected[lhs] = rhs
        elif k == "setval":
            res = [outcome(lambda: e.m.set_value(e.r[ev[1]], val_py(ev[2]))) for e in sides]
            prescribe = lambda: expected.pop(str(tw.containers["r"][ev[1]]), None)
        elif k == "setexpr":
            res = [outcome(lambda: e.m.set_value(e.r[ev[1]], e.build(ev[2]))) for e in sides]
            prescribe = lambda: expected.__setitem__(str(tw.containers["r"][ev[1]]), str(sides[1].build(ev[2])))
        elif k == "poke":
            prescribe = lambda: None
            res = [outcome(lambda: e.m.set_value(e.r[ev[1]], val_py(ev[2]))) for e in sides]
        else:
            raise ValueError(ev)
        bump(stats, "cloneload_events")
        if res[0] != res[1] and case["how"] != "clone" and k not in ("load", "copyfrom"):
            return      # a call that EVALUATES: the definitions a copy() arrives with read a container of their own (copy()
                        # deep-copies containers and tasks separately), so whether one of them raises depends on other values
        if res[0] != res[1]:
            fail("C11", "cloned-manager-ends-a-call-differently", dict(info, upto=ei, received=list(res[0]), fresh=list(res[1])))
            return
        if res[0][0] != "ok" or outcome(prescribe)[0] != "ok":
            return
        d0, d1 = outcome(lambda: sorted(recv.dump())), outcome(lambda: sorted(tw.dump()))
        if d0 != d1:
            fail("C11", "cloned-manager-definitions-differ", dict(info, upto=ei, received=d0[1], fresh=d1[1]))
            return
        if d1[0] == "ok" and dict(d1[1]) != expected:
            fail("C11", "overwrite-rule-not-followed", dict(info, upto=ei, holds=d1[1], prescribed=sorted(expected.items())))
            return
        v0, v1 = outcome(lambda: quiet(recv.verify)), outcome(lambda: quiet(tw.verify))
        if v1[0] == "ok" and v0[0] != "ok":
            fail("C11", "cloned-manager-fails-verify", dict(info, upto=ei, exc=v0[1]))
            return
    if case["how"] != "clone":
        return      # the definitions a copy() arrives with compute on a container of their own: reactions are compared for clones
    for nm, vj in case.get("pokes", []):
        res = [outcome(lambda: e.m.set_value(e.r[nm], val_py(vj))) for e in sides]
        if res[0] != res[1]:
            fail("C11", "cloned-manager-followup-exception", dict(info, assign=[nm, vj], received=list(res[0]), fresh=list(res[1])))
            return
        if res[0][0] != "ok":
            return
        bump(stats, "cloneload_followups")
        s0, s1 = snapshot(data), snapshot(tbox)
        if s0 != s1:
            fail("C11", "cloned-manager-followup-differs", dict(info, assign=[nm, vj], received=s0, fresh=s1))
            return


def key_ident(k):
    """a key as C06 compares it: by value AND type, at every depth of a tuple"""
    if isinstance(k, tuple):
        return ("tuple",) + tuple(key_ident(x) for x in k)
    return (type(k).__name__, k)


def path_ident(steps):
    return tuple((kind, key_ident(key_py(k)) if kind == "i" else ("attr", k)) for kind, k in steps)


def has_numpy_key(steps):
    def np_in(k):
        return isinstance(k, np.generic) or (isinstance(k, tuple) and any(np_in(x) for x in k))
    return any(kind == "i" and np_in(key_py(k)) for kind, k in steps)


WRAP = {None: lambda r: r, "mul2": lambda r: r * 2, "neg": lambda r: -r, "abs": lambda r: abs(r),
        "item0": lambda r: (r + 1)[0]}


def run_eqtyped(case, fail, stats):
    """one pair of independently built references (optionally each below the same expression): equal (both ways), equal
    hashes, same dict / set entry if and only if the two paths are the same with keys compared by value and type"""
    lab, lab2 = case.get("label", "c"), case.get("label2", case.get("label", "c"))
    p = mkpath(xdeps.Manager().ref({}, lab), case["p"])
    q = mkpath(xdeps.Manager().ref({}, lab2), case["q"])
    w = WRAP[case.get("wrap")]
    p, q = w(p), w(q)
    if has_numpy_key(case["p"]) or has_numpy_key(case["q"]):
        return          # numpy scalar against builtin number: no verdict (see numpy_twin)
    same_path = lab == lab2 and path_ident(case["p"]) == path_ident(case["q"])
    bump(stats, "eq_typed_pairs")
    bump(stats, "eq_pairs")
    bump(stats, "eq_equal_pairs", int(same_path))
    eq, qe, heq = (p == q), (q == p), (hash(p) == hash(q))
    indict, inset = q in {p: 1}, q in {p}
    obs = {"p": case["p"], "q": case["q"], "wrap": case.get("wrap"), "eq": eq, "eq_reversed": qe, "hash_eq": heq,
           "in_dict": indict, "in_set": inset, "printed": [str(p), str(q)]}
    if same_path:
        if not (eq is True and qe is True and heq and indict and inset):
            fail("C06", "same-typed-path-not-identified", obs)
    elif eq or qe or indict or inset:
        fail("C06", "paths-differing-in-key-type-identified", obs)


def run_eqfamily(case, fail, stats):
    """a family of paths built twice, each reference from a manager of its own: all pairs, and one dictionary holding one
    entry per distinct path that an independently built reference must find again (and no other)"""
    paths = [p for p in case["paths"] if not has_numpy_key(p)]
    first = [mkpath(xdeps.Manager().ref({}, "c"), p) for p in paths]
    second = [mkpath(xdeps.Manager().ref({}, "c"), p) for p in paths]
    ids = [path_ident(p) for p in paths]
    bump(stats, "eq_family_cases")
    nfail = 0
    for i, r in enumerate(first):
        for j, s in enumerate(second):
            sm = ids[i] == ids[j]
            eq = (r == s)
            bump(stats, "eq_typed_pairs")
            bump(stats, "eq_pairs")
            bump(stats, "eq_equal_pairs", int(sm))
            if eq != sm or (sm and hash(r) != hash(s)) or (s == r) != eq:
                nfail += 1
                if nfail <= 3:
                    fail("C06", "same-typed-path-not-identified" if sm else "paths-differing-in-key-type-identified",
                         {"p": paths[i], "q": paths[j], "eq": eq, "eq_reversed": (s == r), "hash_eq": hash(r) == hash(s),
                          "printed": [str(r), str(s)]})
    table = {}
    for i, r in enumerate(first):
        if r in table:
            if ids[table[r]] != ids[i]:
                nfail += 1
                if nfail <= 6:
                    fail("C06", "distinct-paths-share-a-dict-entry", {"p": paths[i], "q": paths[table[r]],
                                                                       "printed": [str(r), str(first[table[r]])]})
        else:
            table[r] = i
    for j, s in enumerate(second):
        got = table.get(s)
        if got is None or ids[got] != ids[j]:
            nfail += 1
            if nfail <= 9:
                fail("C06", "dict-selects-another-path", {"q": paths[j], "selected": None if got is None else paths[got]})


def run_case_more(case, fail, stats):
    {"iopseq": run_iopseq, "mgrstate": run_mgrstate, "cloneload": run_cloneload, "eqtyped": run_eqtyped,
     "eqfamily": run_eqfamily}[case["kind"]](case, fail, stats)


# ---- generators of the further kinds ----
def fj(x):
    return {"float": float(x).hex()}


INEXACT = [0.1, 0.3, 0.7, 1.1, -2.7, 1e-3, 2.5, 1.0 / 3.0, 1e16 + 2.0, 123.456]


def more_c04_fixed():
    """old definitions `e + int`, `e * int` (and their neighbours: reflected, float / bool constant, other operator, a call,
    a plain value) x in-place statements with int / float / bool operands, one or two in a row, on float and int data"""
    a = ["ref", "v1"]
    i_ = lambda n: ["lit", {"int": n}]
    f_ = lambda x: ["lit", fj(x)]
    olds = [None, ["un", "pos", a], ["bin", "add", a, f_(0.1)], ["bin", "add", a, i_(3)], ["bin", "add", a, i_(10 ** 16)],
            ["bin", "add", f_(0.1), a], ["bin", "add", i_(3), a], ["bin", "sub", a, f_(0.1)], ["bin", "sub", a, i_(3)],
            ["bin", "mul", a, f_(0.1)], ["bin", "mul", a, i_(7)], ["bin", "mul", a, i_(3)], ["bin", "mul", i_(3), a],
            ["bin", "truediv", a, f_(0.1)], ["builtin", "abs", a, []], ["bin", "add", a, ["lit", {"bool": True}]],
            ["bin", "add", ["bin", "mul", a, ["ref", "v2"]], i_(3)], ["bin", "mul", ["bin", "add", a, f_(0.5)], i_(3)],
            ["bin", "mul", ["call", "fadd", [a], [["y", ["ref", "v2"]]]], i_(3)]]
    steps = [f_(0.2), i_(3), i_(7), i_(-10 ** 16), f_(1e200), ["lit", {"bool": True}]]
    seqs = [[[op, k]] for op in ("add", "mul") for k in steps]
    seqs += [[[op, k1], [op, k2]] for op in ("add", "mul") for k1 in steps[:4] for k2 in (steps[1], steps[3], steps[0])]
    seqs += [[[o1, i_(3)], [o2, i_(7)]] for o1, o2 in (("add", "mul"), ("mul", "add"), ("sub", "add"), ("add", "sub"), ("mul", "truediv"))]
    seqs += [[["add", i_(1)], ["add", i_(1)], ["add", i_(1)]], [["mul", i_(3)], ["mul", i_(3)], ["mul", i_(3)]],
             [["add", ["ref", "v3"]], ["add", i_(3)]], [["mul", ["ref", "v3"]], ["mul", i_(3)]]]
    others = [[[op, k]] for op in ARITH if op not in ("add", "mul") for k in steps]
    few = [[[op, k]] for op in ("add", "mul") for k in steps[1:4]] + [[[op, i_(3)], [op, i_(7)]] for op in ("add", "mul")]
    for (a0, a1), olds_, seqs_ in [((0.1, 0.3), olds, seqs), ((3, 7), olds, seqs), ((0.1, 0.3), olds[:6], others), ((1.0, -2.5), olds, few)]:
        for old in olds_:
            for seq in seqs_:
                yield {"kind": "iopseq", "name": "x", "expr": old, "steps": seq, "then": [["v1", val_json(a1)]],
                       "vals": {"x": val_json(a0), "v0": {"int": 0}, "v1": val_json(a0), "v2": fj(0.7), "v3": {"int": 2}}}


def gen_iopseq(rng):
    vals = {n: (fj(rng.choice(INEXACT)) if rng.random() < 0.7 else gen_val(rng, rng.choice(["int", "float", "bool"]))) for n in NAMES}
    vals["x"] = fj(rng.choice(INEXACT)) if rng.random() < 0.6 else {"int": rng.choice(INTS)}
    small = lambda: ["lit", {"int": rng.choice([1, 2, 3, 5, 7, 10, -3, 10 ** 16, -10 ** 16])}]
    old = None
    if rng.random() < 0.85:
        old = gen_term(rng, rng.randint(0, 2), ARITH)
        if rng.random() < 0.7:
            old = ["bin", rng.choice(["add", "add", "mul", "mul", "sub"]), old, small()]
    steps = []
    for _ in range(rng.randint(1, 3)):
        op = rng.choice(["add", "add", "add", "mul", "mul", "mul", "sub", "truediv", "floordiv", "mod", "pow"])
        x = rng.random()
        if op == "pow":
            k = ["lit", {"int": rng.choice([0, 1, 2, 3])}]
        elif x < 0.6:
            k = small()
        elif x < 0.75:
            k = ["lit", fj(rng.choice(INEXACT))]
        elif x < 0.85:
            k = ["lit", {"bool": rng.random() < 0.5}]
        else:
            k = ["ref", rng.choice(NAMES)]
        steps.append([op, k])
    return {"kind": "iopseq", "name": "x", "expr": old, "steps": steps, "vals": vals,
            "then": [[rng.choice(NAMES), fj(rng.choice(INEXACT)) if rng.random() < 0.7 else gen_val(rng, "int")]]}


def more_c12_fixed():
    vals = {"v0": {"float": (-2.5).hex()}, "v1": {"int": 2}, "v2": {"int": 5}, "v3": {"int": 2}}
    t_sum = ["bin", "add", ["ref", "v0"], ["bin", "mul", ["ref", "v1"], ["lit", {"int": 2}]]]
    defsets = [[t_sum],
               [t_sum, ["un", "neg", ["ref", "out0"]], ["builtin", "abs", ["ref", "v0"], []]],
               [["builtin", "round", ["bin", "truediv", ["ref", "v0"], ["lit", {"int": 3}]], [["ref", "v1"]]],
                ["call", "fadd", [["ref", "v0"]], [["y", ["ref", "v1"]], ["z", ["item", ["ref", "L"], ["lit", {"int": 1}]]]]]],
               [["item", ["ref", "L"], ["bin", "mod", ["ref", "v1"], ["lit", {"int": 4}]]], ["builtin", "floor", ["ref", "v0"], []],
                ["bin", "gt", ["ref", "v0"], ["ref", "v1"]]]]
    redef = ["bin", "mul", ["ref", "v0"], ["lit", {"int": 10}]]
    redef2 = ["bin", "sub", ["ref", "v0"], ["ref", "v2"]]
    states = [([], 1), ([["freeze"]], 1), ([["freeze"], ["set", "v0", fj(9.0)]], 1), ([["freeze"], ["unfreeze"]], 1),
              ([["freeze"], ["set", "v1", {"int": 3}], ["unfreeze"], ["def", 0, redef2]], 1),
              ([["def", 0, redef2], ["set", "v0", fj(1.0)], ["freeze"], ["set", "v2", {"int": 8}]], 2),
              ([["freeze"], ["freeze"]], 1), ([["freeze"], ["def", 0, redef], ["verify"]], 1), ([["val", 0, fj(1.25)]], 2)]
    follow = [["set", "v0", fj(7.75)], ["verify"], ["def", 0, redef], ["def", 5, ["builtin", "abs", ["ref", "out0"], []]],
              ["val", 0, fj(1.25)], ["set", "v1", {"int": 3}], ["freeze"], ["set", "v0", fj(0.5)], ["unfreeze"], ["def", 0, redef2],
              ["set", "v0", fj(-1.0)], ["verify"], ["freeze"], ["def", 0, redef], ["val", 0, {"int": 4}], ["set", "v2", {"int": 6}],
              ["unfreeze"], ["unfreeze"], ["def", 0, redef], ["set", "v0", fj(3.5)], ["verify"]]
    for defs in defsets:
        for prep, trips in states:
            for refattr in (False, True):
                yield {"kind": "mgrstate", "vals": vals, "defs": defs, "prep": prep, "trips": trips, "refattr": refattr, "follow": follow}


def gen_mgrstate(rng):
    vals = gen_vals(rng, ["int", "float"])
    defs = []
    while len(defs) < rng.randint(1, 3):
        t = gen_term(rng, rng.randint(1, 3))
        if "attr" not in json.dumps(t):
            defs.append(t)

    def event(structural=0.4):
        x = rng.random()
        if x < 0.18:
            return [rng.choice(["freeze", "freeze", "unfreeze"])]
        if x < 0.24:
            return ["verify"]
        if x < 0.24 + structural:
            i = rng.randrange(len(defs) + 1)
            if rng.random() < 0.4:
                return ["val", i, gen_val(rng, rng.choice(["int", "float"]))]
            t = gen_term(rng, rng.randint(1, 2))
            return ["def", i, t] if "attr" not in json.dumps(t) else ["verify"]
        return ["set", rng.choice(NAMES), gen_val(rng, rng.choice(["int", "float"]))]
    prep = [event(0.25) for _ in range(rng.randint(0, 3))]
    if rng.random() < 0.5:
        prep.append(["freeze"])
    return {"kind": "mgrstate", "vals": vals, "defs": defs, "prep": prep, "trips": 2 if rng.random() < 0.2 else 1,
            "refattr": rng.random() < 0.3, "follow": [event() for _ in range(rng.randint(2, 7))]}


def more_c11_fixed():
    vals = {"v0": {"float": (1.0).hex()}, "v1": {"float": (2.0).hex()}, "v2": {"int": 5}, "v3": {"int": 7}}
    v = lambda n: ["ref", n]
    base = [["out0", ["bin", "add", v("v0"), v("v1")]], ["out1", ["bin", "mul", v("out0"), ["lit", fj(-1.5)]]]]
    first = [["out2", ["bin", "mul", v("v0"), ["lit", {"int": 2}]]]]
    second = [["out0", ["bin", "sub", v("v0"), v("v1")]], ["out2", ["bin", "mul", v("v1"), ["lit", {"int": 3}]]]]
    third = [["out3", ["call", "fadd", [v("v2")], [["y", v("out0")]]]], ["out1", ["builtin", "abs", v("v3"), []]]]
    pokes = [["v0", fj(10.0)], ["v1", fj(4.0)], ["v0", fj(-0.5)], ["v2", {"int": 1}]]
    for how in ("clone", "copy"):
        for call in ("load", "copyfrom"):
            for ow in (False, True):
                for events in ([[call, first, True], [call, second, ow]],                       # defined only in the receiver
                               [["setval", "out0", fj(5.0)], [call, base, ow]],                 # dropped only in the receiver
                               [["setexpr", "out2", ["bin", "add", v("v1"), ["lit", {"int": 1}]]], [call, second, ow]],
                               [["setexpr", "out0", ["bin", "mul", v("v0"), v("v1")]], [call, base, ow], [call, third, ow]],
                               [[call, first, ow], ["setval", "out2", {"int": 4}], [call, first, ow], [call, second, not ow]],
                               [["poke", "v0", fj(3.0)], [call, second, ow]],                   # not diverged in definitions
                               [[call, third, True], ["setval", "out1", fj(0.5)], [call, third, ow], [call, base, ow]]):
                    yield {"kind": "cloneload", "vals": vals, "how": how, "base": base, "events": events, "pokes": pokes}


def gen_cloneload(rng):
    vals = gen_vals(rng, ["int", "float"])
    targets = ["out0", "out1", "out2", "out3"]

    def term(k):
        while True:
            t = gen_term(rng, rng.randint(1, 2), PRINT_OPS)
            if "complex" not in json.dumps(t) and "attr" not in json.dumps(t):
                break
        if k and rng.random() < 0.4:
            t = ["bin", rng.choice(["add", "mul", "sub"]), t, ["ref", "out%d" % rng.randrange(k)]]      # reads an earlier target
        return t

    def pairs():
        ks = sorted(rng.sample(range(4), rng.randint(1, 3)))
        return [[targets[k], term(k)] for k in ks]
    base = [[targets[k], term(k)] for k in range(rng.randint(1, 3))]
    events = []
    for _ in range(rng.randint(2, 4)):
        x = rng.random()
        if x < 0.5:
            events.append([rng.choice(["load", "load", "copyfrom"]), pairs(), rng.random() < 0.5])
        elif x < 0.7:
            events.append(["setval", rng.choice(targets[:len(base) + 1]), gen_val(rng, rng.choice(["int", "float"]))])
        elif x < 0.85:
            k = rng.randrange(4)
            events.append(["setexpr", targets[k], term(k)])
        else:
            events.append(["poke", rng.choice(NAMES), gen_val(rng, rng.choice(["int", "float"]))])
    events.append([rng.choice(["load", "copyfrom"]), pairs(), rng.random() < 0.5])
    return {"kind": "cloneload", "vals": vals, "how": rng.choice(["clone", "clone", "copy"]), "base": base, "events": events,
            "pokes": [[rng.choice(NAMES), gen_val(rng, rng.choice(["int", "float"]))] for _ in range(3)]}


# keys that are equal under == and hash alike but are different keys, alone and inside tuples (any position, any depth)
TYPED_KEYS = [1, True, {"f": (1.0).hex()}, 0, False, "b", {"f": (1.5).hex()}, None,
              {"t": [1, "b"]}, {"t": [True, "b"]}, {"t": [{"f": (1.0).hex()}, "b"]}, {"t": ["b", 1]}, {"t": ["b", True]},
              {"t": [0, 1]}, {"t": [False, 1]}, {"t": [0, True]}, {"t": [False, True]}, {"t": [1]}, {"t": [True]},
              {"t": [{"t": [1, 2]}, "b"]}, {"t": [{"t": [True, 2]}, "b"]}, {"t": [{"t": [1, 2]}]}, {"t": [{"t": [{"f": (1.0).hex()}, 2]}]},
              {"t": [1, None]}, {"t": [True, None]}, {"t": [{"f": (1.5).hex()}, 1]}, {"t": [{"f": (1.5).hex()}, True]},
              {"t": [2 ** 61, "b"]}, {"t": [1, "b", 0]}, {"t": [1, "b", False]}, {"t": []}]


def more_c06(rng):
    core = [[["i", k]] for k in TYPED_KEYS]
    core += [[["i", "k"], ["i", {"t": [1, 0]}]], [["i", "k"], ["i", {"t": [True, 0]}]], [["i", {"t": [1, 0]}], ["a", "b"]],
             [["i", {"t": [True, 0]}], ["a", "b"]], [["a", "b"], ["i", {"t": [1, "b"]}], ["i", 2]], [["a", "b"], ["i", {"t": [True, "b"]}], ["i", 2]]]
    for p in core:
        for q in core:
            yield {"kind": "eqtyped", "p": p, "q": q}
    for p, q in [(core[8], core[9]), (core[8], core[10]), (core[8], core[8]), (core[19], core[20]), (core[0], core[1])]:
        for wrap in ("mul2", "neg", "abs", "item0"):
            yield {"kind": "eqtyped", "p": p, "q": q, "wrap": wrap}

    def step():
        return ["i", rng.choice(TYPED_KEYS)] if rng.random() < 0.85 else ["a", rng.choice(ATTRS)]
    fam = [[step() for _ in range(rng.randint(1, 3))] for _ in range(60)]
    # next to every drawn path, the one that differs from it in the type of ONE element only
    twins = []
    for p in fam[:30]:
        q = json.loads(json.dumps(p))
        swap = {1: True, True: 1, 0: False, False: 0}

        def retype(k):
            if isinstance(k, dict) and "t" in k and k["t"]:
                j = rng.randrange(len(k["t"]))
                return {"t": k["t"][:j] + [retype(k["t"][j])] + k["t"][j + 1:]}
            if isinstance(k, (bool, int)) and k in swap:
                return swap[k] if rng.random() < 0.7 else {"f": float(k).hex()}
            return k
        j = rng.randrange(len(q))
        if q[j][0] == "i":
            q[j] = ["i", retype(q[j][1])]
        twins.append(q)
    yield {"kind": "eqfamily", "paths": fam + twins + core[8:20]}


def main():
    ap = argparse.ArgumentParser()
    ap.add_argument("--family", default="c04")
    ap.add_argument("--seed", type=int, default=0)
    ap.add_argument("--n", type=int, default=100)
    ap.add_argument("--out", required=True)
    ap.add_argument("--replay", default=None)
    ap.add_argument("--fixed", action="store_true", help="include the exhaustive / fixed part (job 0 only)")
    a = ap.parse_args()
    rng = random.Random(a.seed * 1000003 + sum(map(ord, a.family)))
    t0 = time.time()
    stats = dict(ops=0, histories=0, eval_cases=0, eval_exc=0, eval_nan=0, eval_plain=0, iop_cases=0, deps_cases=0,
                 perturb_cases=0, pickle_cases=0, mgrpickle_cases=0, eq_pairs=0, eq_equal_pairs=0, exprhash_cases=0, print_cases=0)
    failures = []
    lines = []
    if a.replay:
        cases = [c for ops in json.load(open(a.replay)) for c in ops]
    else:
        gen = {"c04": cases_c04, "c05": cases_c05, "c12": cases_c12, "c06": cases_c06, "c11": cases_c11, "c13": cases_c13}[a.family]
        cases = list(gen(rng, a.n))
        if not a.fixed:
            # the exhaustive prefix is generated by every job with the same content: keep it in job 0 only
            keep = a.n + (c11_extra(a.n) if a.family == "c11" else 0)
            cases = cases[-keep:] if a.family != "c06" else cases
    for i, case in enumerate(cases):
        def fail(prop, kind, detail, known=None, i=i):
            failures.append({"property": prop, "kind": kind, "hist": i, "op_index": 0, "detail": detail, "known": known})
        stats["ops"] += 1
        stats["histories"] += 1
        try:
            run_case(case, fail, stats)
        except RecursionError:
            fail({"pickle": "C12", "mgrpickle": "C12", "mgrpickle_default": "C12"}.get(case["kind"], "C04"), "RecursionError", {"case": case})
        line = {k: v for k, v in case.items() if not k.startswith("_")}
        line["op"] = case["kind"]
        line["hist"] = i
        line["pexpr"] = case.get("_pexpr")
        line["impl"] = {"tokens": case.get("_tokens"), "text": case.get("_text")}
        if "_val" in case:
            line["impl"]["val"] = case["_val"]
            line["impl"]["val0"] = case["_val0"]
        lines.append(line)
    with open(a.out + ".ops.jsonl", "w") as f:
        for ln in lines:
            f.write(json.dumps(ln) + "\n")
    stats["wall_s"] = time.time() - t0
    with open(a.out + ".res.json", "w") as f:
        json.dump({"stats": stats, "failures": failures}, f)


if __name__ == "__main__":
    main()
