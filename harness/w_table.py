"""Worker for the `table` suite (C07 C08 C14): generate table histories, run them on the real
xdeps.Table (scratch copy on PYTHONPATH), apply the oracles, write protocol lines for the driver.

usage: w_table.py --family c07|c08|c14 --seed S --n N --out PREFIX [--replay FILE] [--exhaustive K]
"""
import argparse
import itertools
import json
import random
import re
import sys
import time

import numpy as np
import xdeps
from xdeps.table import Table

NAMES = ["a", "b", "ab", "A", "c"]


# ----------------------------------------------------------------------------
# cells, rows, selectors: JSON <-> Python
# ----------------------------------------------------------------------------
def cell_json(v):
    if isinstance(v, (str, np.str_)):
        return str(v)
    if isinstance(v, (bool, np.bool_)):
        return {"b": bool(v)}
    if isinstance(v, (int, np.integer)):
        return int(v)
    if isinstance(v, (float, np.floating)):
        return {"f": repr(float(v))}
    return {"py": repr(v)}


def cell_py(j):
    if isinstance(j, dict):
        return float(j["f"])
    return j


def col_array(cells):
    if cells and all(isinstance(c, str) for c in cells):
        return np.array(cells, dtype=object)
    if cells and all(isinstance(c, int) for c in cells):
        return np.array(cells, dtype=np.int64)
    if not cells:
        return np.array([], dtype=object)
    return np.array([cell_py(c) for c in cells], dtype=object if any(isinstance(c, str) for c in cells) else float)


def row_py(r):
    if isinstance(r, list):
        return tuple(r[1:])
    return r


def bound_py(b):
    return b


def sel_py(s):
    k = s[0]
    if k == "pos":
        return s[1]
    if k in ("ints", "bools", "names"):
        return list(s[1])
    if k == "pat":
        return s[1]
    if k == "slice":
        return slice(s[1], s[2], s[3])
    if k == "all":
        return None
    if k == "tuple":
        return tuple(sel_py(x) for x in s[1])
    raise ValueError(s)


def exc_name(e):
    return type(e).__name__


# ----------------------------------------------------------------------------
# the oracles' references (written from the docstrings, not from the code)
# ----------------------------------------------------------------------------
def scan(col, name, count, offset):
    pos = [i for i, x in enumerate(col) if x == name]
    if count is None:
        count = 0
    if count < 0:
        count += len(pos)
    if 0 <= count < len(pos):
        return pos[count] + offset
    return None


def split_sel(s):
    name, off, cnt = s, 0, None
    if "<<" in name:
        name, o = name.split("<<", 1)
        off = -int(o)
    elif ">>" in name:
        name, o = name.split(">>", 1)
        off = int(o)
    if "::" in name:
        name, c = name.split("::", 1)
        cnt = int(c)
    return name, cnt, off


def ref_sel(col, vals, sel):
    """naive reference selector over the raw columns; returns list of positions or raises KeyError"""
    n = len(col)
    k = sel[0]
    if k == "pos":
        return [sel[1]]
    if k == "ints":
        return list(sel[1])
    if k == "bools":
        return [i for i, b in enumerate(sel[1]) if b]
    if k == "names":
        out = []
        for s in sel[1]:
            nm, cnt, off = split_sel(s)
            p = scan(col, nm, cnt, off)
            if p is None:
                raise KeyError(s)
            out.append(p)
        return out
    if k == "pat":
        name, cnt, off = split_sel(sel[1])
        rx = re.compile(name, re.IGNORECASE)
        m = [i for i, x in enumerate(col) if rx.fullmatch(x)]
        if cnt is None:
            return [i + off for i in m]
        out = []
        for nm in dict.fromkeys(col[i] for i in m):
            p = scan(col, nm, cnt, 0)
            if p is not None:
                out.append(p)
        return [i + off for i in sorted(out)]
    if k == "slice":
        a, b, c = sel[1], sel[2], sel[3]
        if isinstance(a, str) or isinstance(b, str):
            if c is None or c == "name":
                def end(x):
                    if x is None:
                        return None
                    if isinstance(x, int):
                        return x
                    nm, cnt, off = split_sel(x)
                    p = scan(col, nm, cnt, off)
                    if p is None:
                        raise KeyError(x)
                    return p
            else:
                def end(x):
                    if x is None:
                        return None
                    for i, y in enumerate(vals[c]):
                        if y == x:
                            return i
                    raise IndexError(x)
            ia, ib = end(a), end(b)
            return list(range(n))[slice(ia, None if ib is None else ib + 1)]
        if isinstance(c, str):
            return [i for i in range(n) if (a is None or vals[c][i] >= a) and (b is None or vals[c][i] <= b)]
        return list(range(n))[slice(a, b, c)]
    if k == "all":
        return list(range(n))
    if k == "tuple":
        absidx = list(range(n))
        ccol, cvals = list(col), {kk: list(v) for kk, v in vals.items()}
        for s in sel[1]:
            idx = ref_sel(ccol, cvals, s)
            idx = [i + len(ccol) if i < 0 else i for i in idx]
            if any(not (0 <= i < len(ccol)) for i in idx):
                raise IndexError(s)
            absidx = [absidx[i] for i in idx]
            cvals = {kk: [v[i] for i in idx] for kk, v in cvals.items()}
            ccol = [ccol[i] for i in idx]
        return absidx
    raise ValueError(sel)


# ----------------------------------------------------------------------------
# session
# ----------------------------------------------------------------------------
class Session:
    def __init__(self, hist_id, stats, failures, family):
        self.hist = hist_id
        self.stats = stats
        self.failures = failures
        self.family = family
        self.pool = []          # real tables
        self.lines = []

    def fail(self, prop, kind, detail, known=None):
        self.failures.append({"property": prop, "kind": kind, "hist": self.hist, "op_index": len(self.lines) - 1,
                              "detail": detail, "known": known})

    def state(self, t):
        col = [str(x) for x in t._data[t._index]] if t._index in t._data else []
        try:
            n = len(t)
        except Exception:
            n = -1
        return {"index": col, "cols": list(t._col_names), "nrows": n, "cached": t._index_cache is not None}

    def snapshot(self, t):
        return (len(t), list(t._col_names),
                {k: (v.tolist() if hasattr(v, "tolist") else v) for k, v in t._data.items()})

    @staticmethod
    def snapshot_differs(a, b):
        if a[0] != b[0] or a[1] != b[1] or set(a[2]) != set(b[2]):
            return True
        for k in a[2]:
            x, y = a[2][k], b[2][k]
            if json.dumps(x, default=str) != json.dumps(y, default=str):
                return True
        return False

    def rect(self, t):
        """C14's invariant on one table"""
        if t._index not in t._col_names:
            return "index column not among the columns"
        n = len(t)
        for c in t._col_names:
            if c not in t._data:
                return "listed column %r missing" % c
            if len(t._data[c]) != n:
                return "column %r has length %d, table %d" % (c, len(t._data[c]), n)
        return None

    def step(self, op):
        st = self.stats
        st["ops"] += 1
        st["op:" + op["op"]] = st.get("op:" + op["op"], 0) + 1
        kind = op["op"]
        ti = op.get("t", 0)
        line = dict(op)
        line["hist"] = self.hist
        if op.get("cols2d"):
            self.oracle_only_hist = True       # columns the model has no cells for: direct oracles only for this history
        if getattr(self, "oracle_only_hist", False):
            line["oracle_only"] = True
        exc, val = "ok", None
        extra = {}
        try:
            if kind == "new":
                data = {n: col_array(cs) for n, cs in op["cols"]}
                for n2, rows2, how in op.get("cols2d", []):
                    if how == "object":
                        # one tuple per row: numpy stores an (nrows, k) object array
                        data[n2] = np.array([tuple(r) for r in rows2], dtype=object) if rows2 else np.zeros((0, 2), dtype=object)
                    else:
                        data[n2] = np.array(rows2, dtype=float).reshape(len(rows2), -1) if rows2 else np.zeros((0, 2))
                if op.get("via_derive"):
                    # the SAME table for the model, but produced by the implementation as a derivation of the table in
                    # use (t * k, t + t, t._copy()): look-ups on the result must resolve against ITS index column
                    src = self.pool[0]
                    how = op["via_derive"]
                    t = src * how[1] if how[0] == "mul" else (src + src if how[0] == "add_self" else src._copy())
                elif op.get("fixed_width"):
                    # string columns kept as numpy fixed-width strings (cast_strings=False): the same table for the model
                    data = {n: (np.array(cs) if cs and all(isinstance(c, str) for c in cs) else data[n]) for n, cs in op["cols"]}
                    t = Table(data, index=op["index"], cast_strings=False)
                elif not op.get("via_derive"):
                    t = Table(data, index=op["index"])
                for k, v in op.get("scalars", []):
                    if isinstance(v, dict) and "np" in v:
                        # scalar entries that are numpy objects: scalars, 0-d arrays, arrays of another length
                        v = {"float64": lambda x: np.float64(x), "int64": lambda x: np.int64(x),
                             "zero_d": lambda x: np.array(x), "array": lambda x: np.array(x)}[v["np"]](v["v"])
                    t[k] = v
                if op.get("reset", True):
                    self.pool = [t]
                else:
                    self.pool.append(t)
                ti = len(self.pool) - 1
            else:
                t = self.pool[ti]
                col_before = [str(x) for x in t._data[t._index]]
                if kind == "setcol":
                    arr = col_array(op["vals"])
                    via = op.get("via")
                    if via and via[0] == "slice":      # the same new column, written through a slice of cells
                        t[op["name"], slice(via[1], via[2])] = arr[slice(via[1], via[2])]
                    elif via and via[0] == "list":     # ... or through a list of positions
                        t[op["name"], list(via[1])] = arr[list(via[1])]
                    elif via and via[0] == "recreate":  # the column deleted, then created again with the new content
                        del t[op["name"]]
                        t[op["name"]] = arr
                    elif op.get("attr"):
                        setattr(t, op["name"], arr)
                    else:
                        t[op["name"]] = arr
                elif kind == "setcell":
                    t[op["col"], row_py(op["row"])] = cell_py(op["val"])
                elif kind == "delcol":
                    del t[op["name"]]
                elif kind == "lookup":
                    r = row_py(op["row"])
                    if op["api"] == "getitem":
                        val = cell_json(t[op["col"], r])
                    elif op["api"] == "get_index":
                        val = int(t.rows.get_index(r))
                    else:
                        val = int(t // r)
                elif kind == "labels":
                    val = [str(x) for x in t.cols.get_index_unique()]
                elif kind == "indices":
                    val = [int(x) for x in t.rows.indices[sel_py(op["sel"])]]
                elif kind == "mask":
                    val = [bool(x) for x in t.rows.mask[sel_py(op["sel"])]]
                elif kind == "rows":
                    r = t.rows[sel_py(op["sel"])]
                    val = {"index": [str(x) for x in r._data[r._index]], "n": len(r)}
                    extra["derived"] = r
                elif kind == "derive":
                    before = self.snapshot(t)
                    extra["before"] = before
                    cur = t
                    chain = []
                    for st in op["steps"]:
                        src_before = self.snapshot(cur)
                        if st[0] == "rows":
                            nxt = cur.rows[sel_py(st[1])]
                        elif st[0] == "cols":
                            nxt = cur.cols[list(st[1])]
                        elif st[0] == "copy":
                            nxt = cur._copy()
                        elif st[0] == "mul":
                            nxt = cur * st[1]
                        elif st[0] == "add_source":
                            nxt = cur + t
                        elif st[0] == "add_self":
                            nxt = cur + cur
                        elif st[0] == "transpose":
                            nxt = cur._t
                        elif st[0] == "concatenate":
                            nxt = Table.concatenate([cur, cur])
                        else:
                            raise ValueError(st)
                        chain.append((st, cur, src_before, nxt))
                        cur = nxt
                    extra["chain"] = chain
                    if op.get("then") and cur is not t:
                        th = op["then"]
                        snaps = [(src, self.snapshot(src)) for _, src, _, _ in chain]
                        try:
                            if th[0] == "newcol":
                                cur[th[1]] = np.arange(len(cur))
                            elif th[0] == "delcol" and th[1] in cur._col_names and th[1] != cur._index:
                                del cur[th[1]]
                        except Exception:
                            pass
                        extra["after_then"] = [(src, before, self.snapshot(src)) for src, before in snaps]
                    val = {"cols": list(cur._col_names), "nrows": len(cur),
                           "index": [str(x) for x in cur._data[cur._index]],
                           "rect": self.rect(cur) is None,
                           "cells": [[cell_json(x) for x in cur._data[c]] for c in cur._col_names]}
                elif kind == "exprcol":
                    val = [cell_json(x) for x in (t[op["expr"]] if not op.get("via_cols") else t.cols[op["expr"]][op["expr"]])]
                elif kind == "expr_after_shared_write":
                    # a column expression evaluated on t, then a table that SHARES t's arrays (copy / column selection /
                    # slice of rows) gets a cell or an existing column assigned (which writes through, a shallow copy by
                    # design), then the same expression text is asked of t again: element-wise on the CURRENT columns
                    first = [cell_json(x) for x in t[op["expr"]]]
                    d = t._copy() if op["how"] == "copy" else (t.cols[["name", "v", "w", "x"]] if op["how"] == "cols" else t.rows[0:len(t)])
                    if op["write"][0] == "cell":
                        d[op["write"][1], op["write"][2]] = op["write"][3]
                    else:
                        d[op["write"][1]] = np.array(op["write"][2])
                    val = {"first": first, "again": [cell_json(x) for x in t[op["expr"]]],
                           "again_cols": [cell_json(x) for x in t.cols[op["expr"]][op["expr"]]]}
                elif kind == "colexpr":
                    # the integer fragment the model computes (XModel/TableExpr.lean): compared cell by cell
                    val = [cell_json(x) for x in t[op["text"]]]
                else:
                    raise ValueError("unknown op " + kind)
        except Exception as e:  # noqa
            exc = exc_name(e)
        t = self.pool[ti] if self.pool else None
        impl = {"exc": exc, "val": val}
        if t is not None:
            impl.update(self.state(t))
        line["impl"] = impl
        self.lines.append(line)
        if t is None:
            return
        try:
            self.oracles(op, t, exc, val, extra, locals().get("col_before"))
        except Exception:
            # a table an earlier failing step already corrupted may not even be inspectable: the failure is
            # on record, the rest of this history adds nothing; otherwise this is a harness error (exit 2)
            if not any(f["hist"] == self.hist and not f.get("known") for f in self.failures):
                raise

    # ---- oracles ----
    def oracles(self, op, t, exc, val, extra, col_before):
        st = self.stats
        kind = op["op"]
        col = [str(x) for x in t._data[t._index]] if t._index in t._data else []
        n = len(col)
        sepfree = all(("::" not in x and "<<" not in x and ">>" not in x) for x in col)
        if kind == "lookup":
            r = op["row"]
            if isinstance(r, int):
                return
            if isinstance(r, str):
                try:
                    nm, cnt, off = split_sel(r)
                except ValueError:
                    if exc != "ValueError":
                        self.fail("C07", "malformed-count-not-rejected", {"row": r, "got": exc})
                    return
            else:
                nm, cnt, off = r[1], r[2], (r[3] if len(r) > 3 else 0)
            if not sepfree:
                st["c07_out_of_scope"] += 1
                return
            want = scan(col, nm, cnt, off)
            st["c07_lookups"] += 1
            if want is None:
                st["c07_keyerror_cases"] += 1
                if exc != "KeyError":
                    self.fail("C07", "missing-row-not-KeyError", {"index": col, "row": r, "api": op["api"], "got": [exc, val]})
                return
            if not (0 <= want < n):
                st["c07_out_of_scope"] += 1
                return
            st["c07_hits"] += 1
            if op["api"] == "getitem":
                wantv = cell_json(t._data[op["col"]][want])
                if exc != "ok" or val != wantv:
                    self.fail("C07", "wrong-cell", {"index": col, "row": r, "got": [exc, val], "want": wantv, "position": want})
            else:
                if exc != "ok" or val != want:
                    self.fail("C07", "wrong-position", {"index": col, "row": r, "api": op["api"], "got": [exc, val], "want": want})
        elif kind == "setcell" and exc == "ok":
            # a write by name must have landed on the row the scan defines (C07: "reading or writing")
            r = op["row"]
            if not isinstance(r, int) and col_before is not None:
                if isinstance(r, str):
                    try:
                        nm, cnt, off = split_sel(r)
                    except ValueError:
                        return
                else:
                    nm, cnt, off = r[1], r[2], (r[3] if len(r) > 3 else 0)
                want = scan(col_before, nm, cnt, off)
                if want is not None and 0 <= want < n:
                    got = cell_json(t._data[op["col"]][want])
                    if got != op["val"]:
                        self.fail("C07", "write-landed-elsewhere", {"index_before": col_before, "row": r, "col": op["col"],
                                                                  "want_position": want, "cell_there": got})
        elif kind == "labels" and exc == "ok":
            st["c07_label_checks"] += 1
            # names that contain a separator, or end with a character of one ("a:" + "::0" reads as "a" + "::" + ":0"),
            # make the label scheme itself ambiguous: known finding D32; for every other index column a label that does
            # not resolve is a violation
            sepchars = set("::<<>>")
            strict = sepfree and all((not x) or x[-1] not in sepchars for x in col)
            for i, lab in enumerate(val):
                try:
                    got = int(t.rows.get_index(lab))
                except Exception as e:
                    got = exc_name(e)
                if got != i:
                    self.fail("C07", "label-does-not-resolve", {"index": col, "label": lab, "row": i, "got": got},
                              known=None if strict else "D32")
                    break
        elif kind == "derive" and exc != "ok":
            st["c14_chains"] = st.get("c14_chains", 0) + 1
            simple = all(s_[0] in ("rows", "cols", "copy", "add_self", "transpose") or (s_[0] == "mul" and s_[1] >= 1) for s_ in op["steps"])
            if simple and exc not in ("IndexError",):
                self.fail("C14", "derivation-raises", {"steps": op["steps"], "exc": exc,
                                                       "non_array_entries": {k: repr(v)[:30] for k, v in t._data.items() if not hasattr(v, "dtype")},
                                                       "listed_columns": list(t._col_names)})
        elif kind == "derive":
            st["c14_chains"] = st.get("c14_chains", 0) + 1
            if "before" in extra and self.snapshot_differs(extra["before"], self.snapshot(t)):
                self.fail("C14", "source-changed", {"steps": op["steps"]})
            for src, before, after in extra.get("after_then", []):
                if self.snapshot_differs(before, after):
                    self.fail("C14", "source-changed-by-assignment-to-derived-table",
                              {"steps": op["steps"], "then": op.get("then"), "source_columns_before": before[1], "after": after[1]})
                    break
                why = self.rect(src)
                if why:
                    self.fail("C14", "source-not-rectangular-after-assignment-to-derived-table", {"steps": op["steps"], "why": why})
                    break
            for stp, src, src_before, nxt in extra.get("chain", []):
                st["c14_derivations"] = st.get("c14_derivations", 0) + 1
                why = self.rect(nxt)
                if why:
                    self.fail("C14", "not-rectangular", {"step": stp, "why": why, "steps": op["steps"]})
                    break
                if self.snapshot_differs(src_before, self.snapshot(src)):
                    self.fail("C14", "source-changed", {"step": stp, "steps": op["steps"]})
                    break
                if stp[0] in ("rows", "cols"):
                    for k in [k for k in src._data if k not in src._col_names]:
                        if k not in nxt._data or not np.array_equal(np.asarray(nxt._data[k], dtype=object),
                                                                    np.asarray(src._data[k], dtype=object)):
                            self.fail("C14", "scalar-not-carried", {"step": stp, "scalar": k, "value": repr(src._data[k])[:40]})
                            break
        elif kind == "exprcol":
            st["c14_exprcols"] = st.get("c14_exprcols", 0) + 1
            env = {c: np.array(t._data[c]) for c in t._col_names}
            try:
                want = [cell_json(x) for x in eval(op["expr"], {"np": np, "sqrt": np.sqrt, "abs": np.abs}, env)]
            except Exception:
                want = None         # the expression itself is not evaluable on these columns
            if want is not None and exc != "ok":
                self.fail("C14", "expression-column-raises", {"expr": op["expr"], "exc": exc, "columns": list(t._col_names)})
            elif want is not None and val != want:
                self.fail("C14", "expression-column-not-elementwise", {"expr": op["expr"], "got": val, "want": want})
        elif kind == "expr_after_shared_write":
            st["c14_expr_after_shared_write"] = st.get("c14_expr_after_shared_write", 0) + 1
            env = {k: v for k, v in t._data.items() if k in t._col_names}
            want = [cell_json(x) for x in eval(op["expr"], {"np": np}, env)]
            if exc != "ok":
                self.fail("C14", "expression-column-raises", {"expr": op["expr"], "exc": exc, "after": op["write"]})
            elif val["again"] != want or val["again_cols"] != want:
                self.fail("C14", "expression-column-not-elementwise-on-current-columns",
                          {"expr": op["expr"], "derived_by": op["how"], "write": op["write"], "first": val["first"],
                           "again": val["again"], "via_cols": val["again_cols"], "want": want})
        elif kind in ("indices", "mask", "rows"):
            vals = {k: (v.tolist() if hasattr(v, "tolist") else v) for k, v in t._data.items() if k in t._col_names}
            sel = op["sel"]
            try:
                want = ref_sel(col, vals, sel)
                wexc = "ok"
            except (KeyError, IndexError, ValueError, TypeError) as e:
                want, wexc = None, exc_name(e)
            st["c08_selections"] += 1
            if wexc != "ok":
                st["c08_error_cases"] += 1
                if exc == "ok":
                    # D24's signature is about the SHAPE of the selector (exact-label fast path of a count selector), whatever
                    # the observable difference: another row, or a row where the documented reading has none
                    self.fail("C08", "selector-should-raise", {"index": col, "sel": sel, "want": wexc, "got": val},
                              "D24" if self.label_shadow(col, sel) else None)
                return
            if any(not (-n <= i < n) for i in want):
                st["c08_out_of_scope"] += 1
                return
            wantp = [i + n if i < 0 else i for i in want]
            known = None
            if self.label_shadow(col, sel):
                known = "D24"
            st["c08_nonempty"] += 1 if want else 0
            if kind == "indices":
                got = None if val is None else [i + n if i < 0 else i for i in val]
                if exc != "ok" or got != wantp:
                    self.fail("C08", "indices-differ", {"index": col, "sel": sel, "got": [exc, val], "want": want}, known)
            elif kind == "mask":
                wm = [i in set(wantp) for i in range(n)]
                if exc != "ok" or val != wm:
                    self.fail("C08", "mask-differs", {"index": col, "sel": sel, "got": [exc, val], "want": wm}, known)
            else:
                wi = [col[i] for i in wantp]
                if exc != "ok" or val["index"] != wi:
                    self.fail("C08", "rows-differ", {"index": col, "sel": sel, "got": [exc, val], "want": wi}, known)
                elif "derived" in extra:
                    why = self.rect(extra["derived"])
                    if why:
                        self.fail("C14", "not-rectangular", {"op": "rows", "sel": sel, "why": why})
                # composition law rows[s1, s2] == rows[s1].rows[s2]
                if sel[0] == "tuple" and len(sel[1]) == 2 and exc == "ok":
                    try:
                        r2 = t.rows[sel_py(sel[1][0])].rows[sel_py(sel[1][1])]
                        b = [str(x) for x in r2._data[r2._index]]
                    except Exception as e:
                        b = exc_name(e)
                    if b != val["index"]:
                        self.fail("C08", "composition", {"index": col, "sel": sel, "tuple_form": val["index"], "chained": b})

    @staticmethod
    def label_shadow(col, sel):
        """D24's signature: a count selector whose name part is literally an existing name and either also matches a
        different name case-insensitively or does not match itself (`TableM.count_selector_documented_iff`)"""
        def one(s):
            if s[0] == "pat":
                try:
                    nm, cnt, off = split_sel(s[1])
                except ValueError:
                    return False
                if cnt is None or nm not in col:
                    return False
                try:
                    rx = re.compile(nm, re.IGNORECASE)
                except re.error:
                    return False
                # either trigger of the exact-label fast path: another name matches as well, or the literal name is a row
                # name that its own regular expression does not match (a row name containing metacharacters)
                return any(x != nm and rx.fullmatch(x) for x in col) or not rx.fullmatch(nm)
            if s[0] == "tuple":
                return any(one(x) for x in s[1])
            return False
        return one(sel)


# ----------------------------------------------------------------------------
# generators
# ----------------------------------------------------------------------------
REGEX = ["a", "b", "ab", "A", "c", "a.*", ".*", "[ab]", "ab|b", "zz", "a|c"]


def match_table(selstr, names):
    try:
        nm, _, _ = split_sel(selstr)
        rx = re.compile(nm, re.IGNORECASE)
    except Exception:
        return {}
    return {x: bool(rx.fullmatch(x)) for x in set(names)}


def add_matches(op, names):
    m = {}

    def walk(s):
        if s[0] == "pat":
            m[s[1]] = match_table(s[1], names)
        elif s[0] == "tuple":
            for x in s[1]:
                walk(x)
    walk(op["sel"])
    op["match"] = m
    return op


def gen_table(rng, nmax=8, alphabet=None):
    n = rng.randint(0, nmax)
    if alphabet is None and rng.random() < 0.1:
        alphabet = ["a+", "aa", "a", "a.", "ab"][: rng.randint(2, 5)]    # row names that are regular expressions themselves
    al = alphabet or NAMES[: rng.randint(2, 5)]
    return {"op": "new", "index": "name",
            "cols": [["name", [rng.choice(al) for _ in range(n)]],
                     ["v", list(range(n))],
                     ["w", [rng.randint(-2, 3) for _ in range(n)]],
                     ["s", ["s%d" % rng.randint(0, 2) for _ in range(n)]]]}


def gen_row(rng, col, names):
    nm = rng.choice(names + ["zz"]) if rng.random() < 0.8 or not col else rng.choice(col)
    cnt = rng.choice([None, None, 0, 1, 2, -1, -2, 3, -3, 6, -6])
    off = rng.choice([0, 0, 0, 1, -1, 2, -2])
    if rng.random() < 0.5:
        s = nm + ("" if cnt is None else "::%d" % cnt) + ("" if off == 0 else (">>%d" % off if off > 0 else "<<%d" % (-off)))
        if rng.random() < 0.03:
            s = nm + "::" + rng.choice(["x", "", "1.5"])
        return s
    if off == 0 and rng.random() < 0.6:
        return ["t", nm, 0 if cnt is None else cnt]
    return ["t", nm, 0 if cnt is None else cnt, off]


def gen_sel(rng, n, col, depth=0):
    r = rng.random()
    if r < 0.08:
        return ["pos", rng.randrange(-n, n)] if n else ["all"]
    if r < 0.16:
        return ["ints", [rng.randrange(-n, n) for _ in range(rng.randint(0, 3))] if n else []]
    if r < 0.24:
        return ["bools", [rng.random() < 0.5 for _ in range(n)]]
    if r < 0.30:
        return ["names", [rng.choice(col) + rng.choice(["", "", "::0", "::-1", "::1"]) for _ in range(rng.randint(1, 3))]] if col else ["all"]
    if r < 0.56:
        s = rng.choice(REGEX)
        if rng.random() < 0.5:
            s += "::%d" % rng.choice([0, 1, -1, 2, -2])
        if rng.random() < 0.2:
            s += rng.choice(["<<1", ">>1"])
        return ["pat", s]
    if r < 0.66:
        if not col:
            return ["pat", "a"]
        return ["slice", rng.choice(col + [None]), rng.choice(col + [None]), rng.choice([None, None, "name"])]
    if r < 0.70:
        if not col:
            return ["all"]
        return ["slice", rng.choice(["s0", "s1", None]), rng.choice(["s1", "s2", None]), "s"]
    if r < 0.80:
        return ["slice", rng.choice([None, -1, 0, 0, 1, 2]), rng.choice([None, -1, 0, 0, 1, 2, 5]), rng.choice(["v", "w", "w"])]
    if r < 0.84:
        # fractional bounds on an integer column (the model's general range selector, Sel.range)
        return ["slice", rng.choice([None, -1.5, -0.5, 0.5, 1.5]), rng.choice([None, -1.5, -0.5, 0.5, 2.5]), rng.choice(["v", "w", "w"])]
    if r < 0.94 or depth > 0:
        return ["slice", rng.choice([None, 0, 1, -2]), rng.choice([None, 1, 3, -1]), rng.choice([None, 1, 2, -1])]
    return ["tuple", [gen_sel(rng, n, col, 1), gen_sel(rng, n, col, 1)]]


def gen_c07(rng, sess):
    if sess.hist == 1000:
        # known finding D32: a repeated name ending in a separator character
        sess.step({"op": "new", "index": "name", "cols": [["name", ["a:", "b", "a:"]], ["v", [0, 1, 2]], ["w", [1, 0, 2]],
                                                        ["s", ["s0", "s1", "s0"]]]})
        sess.step({"op": "labels"})
        return
    if rng.random() < 0.12:
        # an index column stored as fixed-width numpy strings: look-ups and labels only (a longer name written into such
        # a column is truncated by numpy, which the model's unbounded strings do not do)
        op = gen_table(rng)
        op["fixed_width"] = True
        sess.step(op)
        t = sess.pool[0]
        col = [str(x) for x in t._data["name"]]
        for _ in range(rng.randint(3, 9)):
            if rng.random() < 0.35:
                sess.step({"op": "labels"})
            else:
                api = rng.choice(["getitem", "get_index", "floordiv"])
                o = {"op": "lookup", "api": api, "row": gen_row(rng, col, NAMES)}
                if api == "getitem":
                    o["col"] = "w"
                sess.step(o)
        return
    sess.step(gen_table(rng))
    for stepi in range(rng.randint(4, 14)):
        t = sess.pool[0]
        col = [str(x) for x in t._data["name"]]
        n = len(col)
        names = NAMES
        r = rng.random()
        if r < 0.16 and n:
            sess.step({"op": "setcell", "col": "name", "row": rng.randrange(n), "val": rng.choice(names + ["zz"])})
        elif r < 0.26 and n:
            c = rng.choice(["name", "w"])
            sess.step({"op": "setcell", "col": c, "row": gen_row(rng, col, names),
                       "val": (rng.choice(names) if rng.random() < 0.7 else "q") if c == "name" else rng.randint(5, 9)})
        elif r < 0.30:
            sess.step({"op": "setcol", "name": "name", "vals": [rng.choice(names) for _ in range(n)], "attr": rng.random() < 0.4})
        elif r < 0.34 and n:
            # several cells of the index column at once (slice / list of positions): for the model this is the
            # assignment of the resulting column
            lo = rng.randrange(n)
            hi = rng.randint(lo + 1, n)
            newcol = list(col)
            if rng.random() < 0.6:
                for i in range(lo, hi):
                    newcol[i] = rng.choice(names + ["zz"])
                via = ["slice", rng.choice([lo, lo, None]) if lo == 0 else lo, hi if hi < n or rng.random() < 0.5 else None]
            else:
                pos = sorted(rng.sample(range(n), rng.randint(1, min(3, n))))
                for i in pos:
                    newcol[i] = rng.choice(names + ["zz"])
                via = ["list", pos]
            sess.step({"op": "setcol", "name": "name", "vals": newcol, "via": via})
        elif r < 0.355:
            # the index column deleted and created again ("column deletion", "new columns" applied to the index column)
            sess.step({"op": "setcol", "name": "name", "vals": [rng.choice(names) for _ in range(n)], "via": ["recreate"]})
        elif r < 0.38:
            sess.step({"op": "setcol", "name": "x%d" % stepi, "vals": list(range(n))})
        elif r < 0.41:
            sess.step({"op": "delcol", "name": rng.choice(["v", "s", "x1", "x2"])})
        elif r < 0.44 and n and len(col) <= 12:
            # the table in use replaced by a derivation of itself (repetition, t + t, copy) AFTER look-ups have warmed its
            # caches: for the model a new table with the derived columns
            # (the driver applies the MODEL's own mulT / addT / copyT to its current table on a `via_derive` line and checks the
            # result against the `cols` computed here: Driver/Table.lean::viaDerive, theorems C07_*_with_derivations)
            how = rng.choice([["mul", 2], ["mul", 3], ["add_self"], ["copy"]])
            k = how[1] if how[0] == "mul" else (2 if how[0] == "add_self" else 1)
            sess.step({"op": "lookup", "api": "get_index", "row": gen_row(rng, col, names)})
            sess.step({"op": "new", "index": "name", "via_derive": how,
                       "cols": [[c, [cell_json(x) for x in t._data[c]] * k] for c in t._col_names]})
            t2 = sess.pool[0]
            col2 = [str(x) for x in t2._data["name"]]
            for _ in range(rng.randint(1, 3)):
                sess.step({"op": "lookup", "api": rng.choice(["get_index", "floordiv"]),
                           "row": rng.choice(col2) + "::%d" % rng.choice([-1, -2, len(col2) // 2, 1])})
            sess.step({"op": "labels"})
        elif r < 0.47:
            sess.step({"op": "labels"})
        else:
            api = rng.choice(["getitem", "get_index", "floordiv"])
            op = {"op": "lookup", "api": api, "row": gen_row(rng, col, names)}
            if api == "getitem":
                op["col"] = "w"
            sess.step(op)


def gen_c08(rng, sess):
    op0 = gen_table(rng, 7)
    zcol = rng.random() < 0.2
    if zcol:
        # a float column with NaN / infinities: value ranges on it (lo <= z <= hi is false for NaN).  The model computes
        # these too (Sel.range / valueRangeF, XModel/TableRangeF.lean): compared with the implementation like every other line
        n0 = len(op0["cols"][0][1])
        op0["cols"].append(["z", [{"f": rng.choice(["nan", "nan", "0.0", "-1.5", "2.0", "inf", "-inf", "1.0"])} for _ in range(n0)]])
    sess.step(op0)
    t = sess.pool[0]
    col = [str(x) for x in t._data["name"]]
    for _ in range(rng.randint(3, 8)):
        sel = gen_sel(rng, len(col), col)
        if zcol and rng.random() < 0.6:
            sel = ["slice", rng.choice([None, -2, 0, 0.0, 1, 2.5]), rng.choice([None, -2, 0, 1, 2.5, 4]), "z"]
            if rng.random() < 0.3:
                sel = ["tuple", [sel, gen_sel(rng, len(col), col, 1)]]
        for kind in rng.sample(["indices", "mask", "rows"], rng.randint(1, 3)):
            o = add_matches({"op": kind, "sel": sel}, col)
            sess.step(o)


def gen_c14(rng, sess):
    op = gen_table(rng, 6, ["a", "b", "c"])
    n = len(op["cols"][0][1])
    op["cols"].append(["x", [{"f": repr(0.5 * i)} for i in range(n)]])
    op["scalars"] = [["sc", 3.5], ["title", "hello"]]
    if rng.random() < 0.12:
        # a column that is not one-dimensional: one pair per row (object or numeric), as positions / multipole lists are
        op["cols2d"] = [["pos", [[i, i + 1] for i in range(n)], rng.choice(["object", "float"])]]
    if rng.random() < 0.5:
        op["scalars"] += [["qx", {"np": "float64", "v": 0.31}], ["nturns", {"np": "int64", "v": 7}],
                          ["aper", {"np": "array", "v": list(range(len(op["cols"][0][1]) + 2))}]]
    sess.step(op)
    t = sess.pool[0]
    col = [str(x) for x in t._data["name"]]
    for _ in range(rng.randint(2, 6)):
        r = rng.random()
        if r < 0.7:
            steps = []
            cur_n = n
            cols_now = ["name", "v", "w", "s", "x"]
            for _ in range(rng.randint(1, 4)):
                x = rng.random()
                if x < 0.35:
                    sel = rng.choice([["ints", [rng.randrange(cur_n) for _ in range(rng.randint(0, 3))]] if cur_n else ["all"],
                                      ["slice", rng.choice([None, 0, 1]), rng.choice([None, 2, -1]), rng.choice([None, 1, -1])],
                                      ["bools", [rng.random() < 0.5 for _ in range(cur_n)]] if cur_n is not None else ["slice", None, None, -1],
                                      ["all"]])
                    steps.append(["rows", sel])
                    cur_n = None
                elif x < 0.55:
                    keep = [c for c in cols_now if rng.random() < 0.6]
                    if keep:
                        steps.append(["cols", keep])
                        cols_now = keep if "name" in keep else ["name"] + keep
                elif x < 0.65:
                    steps.append(["copy"])
                elif x < 0.75:
                    steps.append(["mul", rng.randint(1, 3)])
                    cur_n = None
                elif x < 0.83 and cols_now == ["name", "v", "w", "s", "x"]:
                    steps.append(["add_source"])
                    cur_n = None
                elif x < 0.9:
                    steps.append(["add_self"])
                    cur_n = None
                elif x < 0.95:
                    steps.append(["transpose"])
                    break
                else:
                    steps.append(["concatenate"])
                    cur_n = None
            if steps:
                op2 = {"op": "derive", "steps": steps}
                if rng.random() < 0.5:
                    op2["then"] = rng.choice([["newcol", "extra_y"], ["delcol", rng.choice(["v", "w", "s"])]])
                sess.step(op2)
        elif r < 0.78:
            # + - * and unary minus over the integer columns: evaluated by the model too
            def gen_ce(d):
                x = rng.random()
                if d == 0 or x < 0.3:
                    return ["col", rng.choice(["v", "w"])] if rng.random() < 0.75 else ["lit", rng.randint(-3, 4)]
                if x < 0.45:
                    return ["neg", gen_ce(d - 1)]
                return [rng.choice(["add", "sub", "mul"]), gen_ce(d - 1), gen_ce(d - 1)]

            def text_of(e):
                if e[0] == "col":
                    return e[1]
                if e[0] == "lit":
                    return "(%d)" % e[1]
                if e[0] == "neg":
                    return "(-%s)" % text_of(e[1])
                return "(%s %s %s)" % (text_of(e[1]), {"add": "+", "sub": "-", "mul": "*"}[e[0]], text_of(e[2]))
            e = gen_ce(rng.randint(1, 3))
            if "col" in json.dumps(e) and all(c in t._col_names for c in ("v", "w")):
                sess.step({"op": "colexpr", "expr": e, "text": text_of(e)})
        elif r < 0.85:
            exprs = ["v+2*w", "v*w-x", "x/2+v", "np.sqrt(x)+w", "v**2"]
            # columns named like a numpy function: in an expression the name means the column
            if "power" in t._col_names:
                exprs += ["power+2*v", "power/2", "sqrt(x)+power"]
            if "sign" in t._col_names:
                exprs += ["sign*w", "abs(w)-sign"]
            sess.step({"op": "exprcol", "expr": rng.choice(exprs), "via_cols": rng.random() < 0.4})
        else:
            sess.step({"op": "setcol", "name": rng.choice(["new%d" % rng.randint(0, 3), "power", "sign"]),
                       "vals": [rng.randint(-3, 4) for _ in range(n)]})
    if n and rng.random() < 0.3 and all(c in t._col_names for c in ("v", "w", "x")) and "cols2d" not in op:
        # last step of the history (the model is not told about the write-through, so nothing may follow)
        sess.oracle_only_hist = True
        wr = ["cell", rng.choice(["v", "w"]), rng.randrange(n), rng.randint(5, 9)] if rng.random() < 0.6 else \
             ["col", rng.choice(["v", "w"]), [rng.randint(5, 9) for _ in range(n)]]
        sess.step({"op": "expr_after_shared_write", "expr": rng.choice(["v+2*w", "v*w-x", "w-v"]),
                   "how": rng.choice(["copy", "cols", "rows"]), "write": wr})


def exhaustive_c08(sess_factory, k):
    """every index column over a 3-name alphabet up to length k x a fixed battery of selectors"""
    battery = [["pat", "a"], ["pat", "a::0"], ["pat", "a::1"], ["pat", "a::-1"], ["pat", "[ab]::-1"], ["pat", ".*::1"],
               ["pat", "a.*"], ["pat", "b<<1"], ["pat", "[ab]::0>>1"], ["slice", "a", "b", None], ["slice", None, "b", None],
               ["slice", 1, None, "v"], ["slice", None, 1, "v"], ["slice", 1, 2, "w"], ["slice", None, None, "w"],
               ["slice", 0, None, "w"], ["slice", None, 0, "w"], ["slice", 0, 0, "w"], ["slice", -1, 0, "w"], ["slice", 0, 1, "w"],
               ["slice", None, None, -1], ["bools", None], ["names", ["a", "b::-1"]],
               ["tuple", [["pat", "[ab]"], ["pat", "b::-1"]]], ["tuple", [["slice", 1, None, None], ["pat", "a"]]]]
    hid = 100000
    for n in range(0, k + 1):
        for combo in itertools.product("abc", repeat=n):
            sess = sess_factory(hid)
            hid += 1
            col = list(combo)
            sess.step({"op": "new", "index": "name", "cols": [["name", col], ["v", list(range(n))],
                                                              ["w", [i % 3 - 1 for i in range(n)]], ["s", ["s%d" % (i % 2) for i in range(n)]]]})
            for sel in battery:
                if sel[0] == "bools":
                    sel = ["bools", [i % 2 == 0 for i in range(n)]]
                sess.step(add_matches({"op": "indices", "sel": sel}, col))
                sess.step(add_matches({"op": "rows", "sel": sel}, col))
            yield sess


def new_stats():
    return dict(ops=0, histories=0, c07_lookups=0, c07_hits=0, c07_keyerror_cases=0, c07_out_of_scope=0,
                c07_label_checks=0, c08_selections=0, c08_error_cases=0, c08_out_of_scope=0, c08_nonempty=0)


def main():
    ap = argparse.ArgumentParser()
    ap.add_argument("--family", default="c07")
    ap.add_argument("--seed", type=int, default=0)
    ap.add_argument("--n", type=int, default=100)
    ap.add_argument("--out", required=True)
    ap.add_argument("--replay", default=None)
    ap.add_argument("--exhaustive", type=int, default=-1)
    a = ap.parse_args()
    rng = random.Random(a.seed * 1000003 + sum(map(ord, a.family)))
    t0 = time.time()
    stats, failures, lines = new_stats(), [], []
    if a.replay:
        for hid, ops in enumerate(json.load(open(a.replay))):
            s = Session(hid, stats, failures, a.family)
            for op in ops:
                s.step(op)
            lines.extend(s.lines)
            stats["histories"] += 1
    if a.exhaustive >= 0:
        for s in exhaustive_c08(lambda hid: Session(hid, stats, failures, "c08"), a.exhaustive):
            lines.extend(s.lines)
            stats["histories"] += 1
    for i in range(a.n):
        s = Session(1000 + i, stats, failures, a.family)
        {"c07": gen_c07, "c08": gen_c08, "c14": gen_c14}[a.family](rng, s)
        lines.extend(s.lines)
        stats["histories"] += 1
    with open(a.out + ".ops.jsonl", "w") as f:
        for ln in lines:
            f.write(json.dumps(ln) + "\n")
    stats["wall_s"] = time.time() - t0
    with open(a.out + ".res.json", "w") as f:
        json.dump({"stats": stats, "failures": failures}, f)


if __name__ == "__main__":
    main()
