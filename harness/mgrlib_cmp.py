"""Canonicalisation and comparison of protocol lines (no xdeps import: used by the main process)."""
import json


def pkey(p):
    return json.dumps(p, sort_keys=True)


def canon_val(j):
    """order-insensitive form of a value JSON (dict / object entry order is not an observable)"""
    if isinstance(j, dict):
        if "d" in j:
            return {"d": sorted(([k, canon_val(v)] for k, v in j["d"]), key=lambda kv: json.dumps(kv[0]))}
        if "o" in j:
            return {"o": sorted(([k, canon_val(v)] for k, v in j["o"]), key=lambda kv: kv[0])}
        if "l" in j:
            return {"l": [canon_val(v) for v in j["l"]]}
    return j


# ----------------------------------------------------------------------------
# comparing the model's line with the implementation's
# ----------------------------------------------------------------------------
def canon_sup(sup):
    return {name: sorted([pkey(k), sorted(pkey(x) for x in xs)] for k, xs in rows) for name, rows in sup.items()}


def canon_defs(defs):
    return sorted([pkey(d[0]), d[1], json.dumps(d[2])] for d in defs)


def compare_line(line, model):
    """returns a list of (field, impl, model) disagreements for one protocol line"""
    impl = line["impl"]
    if line["op"] == "reset" or line.get("light"):
        return []
    if "bad-op" in model:
        return [("bad-op", None, model["bad-op"])]
    if line["op"] == "genfun" and impl["exc"] == "NameError" and '"nan"' in json.dumps(model.get("defs")):
        # an earlier (guarded) division by zero left NaN in a location and an in-place operator baked it into a
        # definition as a literal: the generated source names `nan`.  Outside C13 (division by zero) and C11 (finite constants)
        return [("stop-history", None, None)]
    if line["op"] == "genfun" and impl["exc"] == "ZeroDivisionError":
        # C13 holds "provided no division by zero occurs": the generated code runs Python's unguarded
        # operators on plain containers; the rest of this history is outside the correspondence
        return [("stop-history", None, None)]
    diffs = []
    if impl["exc"] != model.get("exc"):
        diffs.append(("exc", impl["exc"], model.get("exc")))
    if line["op"] == "query":
        for k in ("find_deps", "tasks"):
            a, b = sorted(map(pkey, impl[k])), sorted(map(pkey, model[k]))
            if a != b:
                diffs.append((k, a, b))
        if json.dumps(impl["expr"]) != json.dumps(model["expr"]):
            diffs.append(("expr", impl["expr"], model["expr"]))
        return diffs
    if canon_val(impl["store"]) != canon_val(model["store"]):
        diffs.append(("store", impl["store"], model["store"]))
    if canon_defs(impl["defs"]) != canon_defs(model["defs"]):
        diffs.append(("defs", impl["defs"], model["defs"]))
    isup = impl["clone_sup"] if line["op"] == "clone" else impl["sup"]
    if canon_sup(isup) != canon_sup(model["sup"]):
        diffs.append(("sup", isup, model["sup"]))
    if impl["frozen"] != model.get("frozen"):
        diffs.append(("frozen", impl["frozen"], model.get("frozen")))
    if line["op"] in ("set", "setexpr", "iop", "genfun"):
        if model.get("sched") == "bad":
            diffs.append(("schedule", line.get("order"), model.get("order")))
        if impl["trace"] != model["trace"]:
            diffs.append(("trace", impl["trace"], model["trace"]))
    return diffs
