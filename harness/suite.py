"""Generic flow of a correspondence-backed check (DESIGN.md §1.5):

  build scratch copies -> Lean build + forbidden-construct grep + axiom audit
  -> workers: generated histories on the implementation + the property's own oracle
  -> the same lines through the native model driver, diffed field by field
  -> verdict: oracle failures (shrunk) are violations unless a known finding names them;
     a broken proof / audit / correspondence without a failing input is reported as such
"""
import json
import os

import common as C


class Suite:
    name = None            # driver suite name
    worker = None          # worker script in harness/
    skip_keys = ("impl", "order", "hist", "light")

    def family(self, prop):
        raise NotImplementedError

    def fields(self, prop):
        raise NotImplementedError

    def sizes(self, prop, tier):
        """(number of histories, extra argv)"""
        raise NotImplementedError

    def extra_argv(self, prop, tier, job, build_index):
        return []

    def compare_line(self, line, model):
        raise NotImplementedError

    def rule(self, prop):
        return ""

    def nontrivial(self, stats, prop):
        return int(stats.get("ops", 0))

    def trusted(self, prop):
        return []

    def assumptions(self, prop):
        return []

    def builds(self, prop, tier):
        return ["pure"] if tier == "quick" else ["pure", "compiled"]

    def extra_workers(self, prop, tier):
        """[(worker script, family, n, extra argv)]: further oracle-only runs whose failures for `prop` count"""
        return []


def load_lines(path):
    with open(path) as f:
        return [json.loads(l) for l in f]


def worker_argv(suite, family, seed, n, out, extra=(), replay=None):
    argv = [C.PY, os.path.join(C.HARNESS, suite.worker), "--family", family, "--seed", str(seed), "--n", str(n), "--out", out]
    argv += list(extra)
    if replay:
        argv += ["--replay", replay]
    return argv


def compare(suite, prefix, fields):
    ops = load_lines(prefix + ".ops.jsonl")
    mod = load_lines(prefix + ".model.jsonl")
    if len(ops) != len(mod):
        return [{"hist": -1, "field": "line-count", "impl": len(ops), "model": len(mod)}], 0
    diffs, bad, nlines = [], set(), 0
    ms = suite.__dict__.setdefault("model_stats", {})
    for o, m in zip(ops, mod):
        if o["hist"] in bad:
            continue
        nlines += 1
        if "scope" in m:
            # the driver evaluated the decidable hypotheses of the property's theorem on this line
            ms["assignment_lines"] = ms.get("assignment_lines", 0) + 1
            if m["scope"]:
                ms["lines_in_theorem_scope"] = ms.get("lines_in_theorem_scope", 0) + 1
            if m.get("scope_m"):
                # a state with linear knobs inside the hypotheses of the mixed-set theorem (C01_mixed_knobs_and_expressions)
                ms["lines_in_mixed_knob_scope"] = ms.get("lines_in_mixed_knob_scope", 0) + 1
            if m.get("fault_armed") and "scope_e18" in m:
                # an expression assignment replayed under an armed fault; `scope_e18` = the decidable hypotheses of
                # `C18_recover_expression_assignment` about the faulty attempt (`Manager.exprFaultScopeB`) hold on this line
                ms["faulty_expression_assignments"] = ms.get("faulty_expression_assignments", 0) + 1
                if m["scope_e18"]:
                    ms["lines_in_expression_fault_scope"] = ms.get("lines_in_expression_fault_scope", 0) + 1
            if m.get("scope_f") and not m["scope"]:
                # inside the function-task form of the theorem only (the state holds function tasks)
                ms["lines_in_function_task_scope_only"] = ms.get("lines_in_function_task_scope_only", 0) + 1
        raw = suite.compare_line(o, m)
        if raw and raw[0][0] == "stop-history":
            bad.add(o["hist"])
            continue
        d = [x for x in raw if x[0] in fields]
        if d:
            bad.add(o["hist"])
            f, a, b = d[0]
            diffs.append({"hist": o["hist"], "line": m.get("n"), "op": o["op"], "field": f, "impl": a, "model": b})
    return diffs, nlines


def history_ops(suite, prefix, hist, upto=None):
    out = []
    for o in load_lines(prefix + ".ops.jsonl"):
        if o["hist"] == hist:
            out.append({k: v for k, v in o.items() if k not in suite.skip_keys})
    return out if upto is None else out[:upto + 1]


def replay_batch(suite, build, family, cands, tag):
    sc = C.scratch()
    inp = os.path.join(sc, "cand_%s.json" % tag)
    with open(inp, "w") as f:
        json.dump(cands, f)
    out = os.path.join(sc, "cand_%s" % tag)
    C.run_jobs([(worker_argv(suite, family, 0, 0, out, replay=inp), C.py_env(build, 0))])
    res = json.load(open(out + ".res.json"))
    per = [[] for _ in cands]
    for fl in res["failures"]:
        if 0 <= fl["hist"] < len(cands):
            per[fl["hist"]].append(fl)
    return per, out


def shrink(suite, build, family, ops, prop, kind, keep=("reset", "container", "new")):
    cur = ops
    for _ in range(60):
        idx = [i for i, o in enumerate(cur) if o["op"] not in keep]
        cands = [cur[:i] + cur[i + 1:] for i in idx]
        if not cands:
            break
        try:
            per, _ = replay_batch(suite, build, family, cands, "shrink")
        except C.Infra:
            break
        nxt = None
        for c, fl in zip(cands, per):
            if any(f["property"] == prop and f["kind"] == kind for f in fl):
                nxt = c
                break
        if nxt is None:
            break
        cur = nxt
    return cur


def run(suite, prop, tier, seed, replay=None):
    v = C.Verdict(prop, tier, seed)
    family = suite.family(prop)
    pure = C.build_pure()
    if replay:
        return do_replay(suite, prop, family, pure, replay)

    ok, log = C.lean_build()
    hits = C.grep_forbidden()
    thms, problems = ({}, []) if not ok else C.audit(prop)
    lean_problems = (["lake build failed: " + log[-1500:]] if not ok else []) + \
                    (["forbidden construct: " + h for h in hits]) + problems

    n, base_extra = suite.sizes(prop, tier)
    builds = []
    for b in suite.builds(prop, tier):
        builds.append((b, pure if b == "pure" else C.build_compiled()))
    jobs, prefixes = [], []
    sc = C.scratch()
    per_job = max(1, n // C.NPROC)
    for bi, (bname, bdir) in enumerate(builds):
        njobs = C.NPROC if bi == 0 else 4
        for j in range(njobs):
            pref = os.path.join(sc, "%s_%s_%d" % (prop, bname, j))
            extra = list(base_extra) + suite.extra_argv(prop, tier, j, bi)
            jobs.append((worker_argv(suite, family, seed * 1000 + bi * 100 + j, per_job if bi == 0 else max(1, per_job // 2), pref, extra),
                         C.py_env(bdir, (seed * 31 + j) % 1000)))
            prefixes.append((pref, bdir, bname))
    xjobs, xprefs = [], []
    for wi, (wscript, wfam, wn, wextra) in enumerate(suite.extra_workers(prop, tier)):
        xs = Suite()
        xs.worker = wscript
        xpref = os.path.join(sc, "%s_extra_%d" % (prop, wi))
        xjobs.append((worker_argv(xs, wfam, seed * 1000 + 900 + wi, wn, xpref, wextra), C.py_env(pure, (seed * 31 + wi) % 1000)))
        xprefs.append((xpref, xs))
    C.run_jobs(jobs + xjobs)

    stats_total, failures = {}, []
    extra_failures = []
    for xpref, xs in xprefs:
        res = json.load(open(xpref + ".res.json"))
        for k, val in res["stats"].items():
            if isinstance(val, (int, float)):
                stats_total["extra:" + k] = stats_total.get("extra:" + k, 0) + val
        for fl in res["failures"]:
            if fl["property"] == prop:
                extra_failures.append((xpref, xs, fl))
    for pref, bdir, bname in prefixes:
        res = json.load(open(pref + ".res.json"))
        for k, val in res["stats"].items():
            if isinstance(val, (int, float)):
                stats_total[k] = stats_total.get(k, 0) + val
        for fl in res["failures"]:
            if fl["property"] == prop:
                failures.append((pref, bdir, fl))

    diffs, nlines = [], 0
    if ok:
        for pref, bdir, bname in prefixes:
            C.run_driver(suite.name, pref + ".ops.jsonl", pref + ".model.jsonl")
            d, nl = compare(suite, pref, suite.fields(prop))
            nlines += nl
            diffs += [(pref, bdir, x) for x in d]

    seen = set()
    for pref, bdir, fl in failures:
        key = (fl["kind"], fl.get("known"))
        if key in seen:
            continue
        seen.add(key)
        ops = history_ops(suite, pref, fl["hist"], fl["op_index"] if fl["hist"] >= 1000 else None)
        if fl["hist"] >= 1000 and not fl.get("known"):
            ops = shrink(suite, bdir, family, ops, prop, fl["kind"])
        v.failing_input(fl, {"suite": suite.name, "family": family, "ops": ops})
    for xpref, xs, fl in extra_failures[:3]:
        v.failing_input(fl, {"suite": xs.worker, "ops": history_ops(xs, xpref, fl["hist"])})
    if not v.violations:
        if lean_problems:
            v.broken("lean: " + "; ".join(lean_problems)[:600], {"suite": suite.name, "theorem_or_obligation": lean_problems[:5]})
        if diffs:
            pref, bdir, d0 = diffs[0]
            v.broken("correspondence: model and implementation disagree on `%s` after `%s`" % (d0["field"], d0["op"]),
                     {"suite": suite.name, "family": family, "ops": history_ops(suite, pref, d0["hist"]),
                      "first_divergence": d0, "n_diverging_histories": len(diffs)})

    samples = []
    if prefixes:
        some = load_lines(prefixes[-1][0] + ".ops.jsonl")
        h0 = some[0]["hist"] if some else None
        samples = [{k: val for k, val in o.items() if k not in ("impl", "hist", "match")} for o in some if o["hist"] == h0][:12]
    C.proof_coverage(v, thms, extra_tb=suite.trusted(prop))
    v.coverage.update({
        "evaluations": int(stats_total.get("ops", 0)),
        "distinct_nontrivial": suite.nontrivial(stats_total, prop),
        "rule": suite.rule(prop),
        "samples": samples,
        "traces_validated_against_impl": nlines,
        "histories": int(stats_total.get("histories", 0)),
        "correspondence_divergences": len(diffs),
        "in_theorem_scope": dict(getattr(suite, "model_stats", {})),
        "oracle_failures": len(failures),
        "input_distribution": {k: val for k, val in sorted(stats_total.items())},
        "builds": [b[0] for b in builds],
        "lean_problems": lean_problems,
    })
    v.assumptions = suite.assumptions(prop)
    return v.finish()


def do_replay(suite, prop, family, build, path):
    payload = json.load(open(os.path.join(C.VERIF, path) if not os.path.isabs(path) else path))
    if "ops" not in payload:
        print(json.dumps(payload, indent=1)[:4000])
        return 0
    per, out = replay_batch(suite, build, family, [payload["ops"]], "replay")
    ok, _ = C.lean_build()
    lines = load_lines(out + ".ops.jsonl")
    model = []
    if ok:
        C.run_driver(suite.name, out + ".ops.jsonl", out + ".model.jsonl")
        model = load_lines(out + ".model.jsonl")
    for i, o in enumerate(lines):
        m = model[i] if i < len(model) else {}
        op = {k: val for k, val in o.items() if k not in ("impl", "hist", "match")}
        print("op   :", json.dumps(op)[:400])
        print(" impl : " + json.dumps({k: o["impl"].get(k) for k in ("exc", "val", "trace") if k in o["impl"]})[:400])
        print(" model: " + json.dumps({k: m.get(k) for k in ("exc", "val", "trace", "sched") if k in m})[:400])
    for f in per[0]:
        print("oracle:", json.dumps(f))
    mine = [f for f in per[0] if f["property"] == prop]
    if any(not f.get("known") for f in mine):
        print("VIOLATION property=%s replay=%s" % (prop, path))
        return 1
    print("replay: no oracle failure for %s on the current tree" % prop)
    return 0


def do_replay_cases(suite, prop, family, build, path):
    """replay for case-based suites: each op of the payload is one self-contained case"""
    payload = json.load(open(os.path.join(C.VERIF, path) if not os.path.isabs(path) else path))
    if "ops" not in payload:
        print(json.dumps(payload, indent=1)[:6000])
        return 0
    per, out = replay_batch(suite, build, family, [payload["ops"]], "replay")
    res = json.load(open(out + ".res.json"))
    for c in payload["ops"]:
        print("case  :", json.dumps(c)[:800])
    for f in res["failures"]:
        print("oracle:", json.dumps(f)[:1200])
    if any(f["property"] == prop and not f.get("known") for f in res["failures"]):
        print("VIOLATION property=%s replay=%s" % (prop, path))
        return 1
    print("replay: no oracle failure for %s on the current tree" % prop)
    return 0
