"""Confirm a seeded change and run the checks against it.

usage: seeded.py import <worktree> <seed-id> <property>      (copies patch/demo/notes into /verif/seeded/<seed-id>/)
       seeded.py run <seed-id> [check ids...]               (apply to /repo, demo must fail, run checks, revert, demo must pass)
"""
import json
import os
import re
import shutil
import subprocess
import sys
import tempfile
import time

VERIF = os.path.dirname(os.path.dirname(os.path.abspath(__file__)))
REPO = "/repo"
PY = "/venv/bin/python"


def sh(cmd, **kw):
    return subprocess.run(cmd, shell=isinstance(cmd, str), capture_output=True, text=True, **kw)


def pure_copy():
    d = tempfile.mkdtemp(prefix="seeded_", dir="/var/tmp")
    os.makedirs(os.path.join(d, "xdeps", "optimize"))
    for sub in ("", "optimize"):
        src = os.path.join(REPO, "xdeps", sub)
        for f in os.listdir(src):
            if f.endswith(".py"):
                shutil.copy(os.path.join(src, f), os.path.join(d, "xdeps", sub, f))
    return d


def compiled_copy():
    """pure copy + refs.py cythonized from the (patched) working tree, for demos that compare the two builds"""
    d = pure_copy()
    script = ("from setuptools import setup, Extension\n"
              "from Cython.Build import cythonize\n"
              "setup(name='x', ext_modules=cythonize([Extension('xdeps.refs', ['xdeps/refs.py'])], "
              "language_level=3, quiet=True), script_args=['build_ext', '--inplace', '-q'])\n")
    r = subprocess.run([PY, "-c", script], cwd=d, env=dict(os.environ, CFLAGS="-O0"), capture_output=True, text=True, timeout=900)
    if r.returncode != 0:
        raise SystemExit("cythonize failed: " + r.stderr[-1500:])
    return d


def do_import(wt, sid, prop):
    dst = os.path.join(VERIF, "seeded", sid)
    os.makedirs(dst, exist_ok=True)
    diff = sh(["git", "-C", wt, "diff", "--", "xdeps"]).stdout
    open(os.path.join(dst, "patch.diff"), "w").write(diff)
    demo = open(os.path.join(wt, "demo.py")).read()
    demo = re.sub(r"sys\.path\.insert\(0,\s*['\"]%s['\"]\)" % re.escape(wt),
                  "sys.path.insert(0, __import__('os').environ.get('XDEPS_SRC', '/repo'))", demo)
    demo = demo.replace("WT = '%s'" % wt, "WT = __import__('os').environ.get('XDEPS_COMPILED', '/repo')")
    demo = demo.replace(wt, "/repo")
    open(os.path.join(dst, "demo.py"), "w").write(demo)
    if os.path.exists(os.path.join(wt, "NOTES.md")):
        shutil.copy(os.path.join(wt, "NOTES.md"), os.path.join(dst, "NOTES.md"))
    # the existing suite passes in the author's worktree (its refs .so was rebuilt there)
    t = sh("cd %s && %s -m pytest -q -p no:cacheprovider --timeout=900 tests 2>&1 | tail -1" % (wt, PY))
    meta = {"property": prop, "seed_id": sid, "files_touched": sorted(set(re.findall(r"^\+\+\+ b/(\S+)", diff, flags=re.M))),
            "suite_in_worktree": t.stdout.strip()}
    json.dump(meta, open(os.path.join(dst, "meta.json"), "w"), indent=1)
    print(json.dumps(meta, indent=1))


def run_demo(src):
    env = dict(os.environ, XDEPS_SRC=src["copy"])
    cc = None
    if "XDEPS_COMPILED" in open(os.path.join(src["dir"], "demo.py")).read():
        cc = compiled_copy()
        env["XDEPS_COMPILED"] = cc
    try:
        r = sh([PY, "demo.py"], cwd=src["dir"], env=env, timeout=900)
    finally:
        if cc:
            shutil.rmtree(cc, True)
    return r.returncode, (r.stdout + r.stderr)[-600:]


def do_run(sid, checks):
    dst = os.path.join(VERIF, "seeded", sid)
    meta = json.load(open(os.path.join(dst, "meta.json")))
    checks = checks or [meta["property"]]
    st = sh(["git", "-C", REPO, "status", "--porcelain", "--untracked-files=no"]).stdout.strip()
    if st:
        print("refusing: /repo has uncommitted changes:\n" + st)
        return 2
    a = sh(["git", "-C", REPO, "apply", os.path.join(dst, "patch.diff")])
    if a.returncode != 0:
        print("patch does not apply:", a.stderr)
        return 2
    results = {}
    # evidence files are rewritten by every check run: keep the clean-tree ones (a run against a seeded tree must not
    # end up committed as evidence)
    ev_dir = os.path.join(VERIF, "evidence")
    ev_saved = {f: open(os.path.join(ev_dir, f)).read() for f in os.listdir(ev_dir) if f.endswith(".json")}
    try:
        cp = pure_copy()
        rc, out = run_demo({"dir": dst, "copy": cp})
        shutil.rmtree(cp, True)
        meta["demo_with_change"] = {"exit": rc, "tail": out[-300:]}
        for c in checks:
            t0 = time.time()
            r = sh([os.path.join(VERIF, "check"), c], cwd=VERIF, timeout=3000)
            lines = [l for l in r.stdout.splitlines() if l.startswith(("VIOLATION", "OK", "KNOWN", "INFRA"))]
            info = {"exit": r.returncode, "lines": [l[:200] for l in lines][:6], "wall_s": round(time.time() - t0, 1)}
            # what the first replay says
            m = re.search(r"replay=(\S+)", r.stdout)
            if m:
                try:
                    rp = json.load(open(os.path.join(VERIF, m.group(1))))
                    info["replay_kind"] = rp.get("kind")
                    info["what"] = (rp.get("failure") or {}).get("kind") or rp.get("what")
                except Exception:
                    pass
            results[c] = info
            print(c, json.dumps(info)[:600])
    finally:
        sh(["git", "-C", REPO, "checkout", "--", "."])
        for f, txt in ev_saved.items():
            open(os.path.join(ev_dir, f), "w").write(txt)
    cp = pure_copy()
    rc0, out0 = run_demo({"dir": dst, "copy": cp})
    shutil.rmtree(cp, True)
    meta["demo_without_change"] = {"exit": rc0, "tail": out0[-200:]}
    meta.setdefault("checks", {}).update(results)
    meta["confirmed"] = bool(meta["demo_with_change"]["exit"] == 1 and rc0 == 0)
    meta["ran"] = "git -C /repo apply seeded/%s/patch.diff; ./check <id>; git -C /repo checkout -- ." % sid
    json.dump(meta, open(os.path.join(dst, "meta.json"), "w"), indent=1)
    print("demo with change:", meta["demo_with_change"]["exit"], "| without:", rc0, "| confirmed:", meta["confirmed"])
    return 0


if __name__ == "__main__":
    if sys.argv[1] == "import":
        do_import(sys.argv[2], sys.argv[3], sys.argv[4])
    else:
        sys.exit(do_run(sys.argv[2], sys.argv[3:]))
