"""Checks built on the `mgr` suite: C01 C02 C03 C17 C18 (and, through their own drivers, C13 C20)."""
import json
import os
import sys

import common as C

FAMILY = {"C01": "c01", "C02": "c02", "C03": "c03", "C17": "c17", "C18": "c18"}
# exactly the observables of each property's `observe_at` (DESIGN.md, Appendix A)
FIELDS = {
    "C01": {"bad-op", "exc", "store", "defs"},
    "C02": {"bad-op", "exc", "schedule", "trace"},
    "C03": {"bad-op", "exc", "sup", "defs", "find_deps", "tasks", "expr"},
    "C17": {"bad-op", "exc", "frozen", "defs", "sup", "store"},
    "C18": {"bad-op", "exc", "trace", "store", "defs", "sup"},
}
SIZES = {  # histories per tier, max ops per history
    "quick": {"C01": (640, 22), "C02": (640, 22), "C03": (1600, 16), "C17": (640, 22), "C18": (640, 22)},
    "thorough": {"C01": (20000, 26), "C02": (20000, 26), "C03": (60000, 16), "C17": (20000, 24), "C18": (20000, 24)},
}
CHAINS = {"quick": "40,-40,1500,-1500,3000", "thorough": "40,-40,2000,-2000,5000,-5000,12000"}


def worker_argv(family, seed, n, maxops, out, corpus=False, chains="", replay=None):
    argv = [C.PY, os.path.join(C.HARNESS, "w_mgr.py"), "--family", family, "--seed", str(seed), "--n", str(n),
            "--maxops", str(maxops), "--out", out]
    if corpus:
        argv += ["--corpus", "--chains", chains]
    if replay:
        argv += ["--replay", replay]
    return argv


def load_lines(path):
    with open(path) as f:
        return [json.loads(l) for l in f]


def compare(prefix, fields):
    """diff the model's output with the implementation's, per history: first divergence only"""
    sys.path.insert(0, C.HARNESS)
    import mgrlib_cmp as cmp
    ops = load_lines(prefix + ".ops.jsonl")
    mod = load_lines(prefix + ".model.jsonl")
    diffs = []
    bad = set()
    nlines = 0
    if len(ops) != len(mod):
        return [{"hist": -1, "field": "line-count", "impl": len(ops), "model": len(mod)}], 0
    for o, m in zip(ops, mod):
        if o["hist"] in bad:
            continue
        nlines += 1
        d = [x for x in cmp.compare_line(o, m) if x[0] in fields]
        if d:
            bad.add(o["hist"])
            f, a, b = d[0]
            diffs.append({"hist": o["hist"], "line": m.get("n"), "op": o["op"], "field": f, "impl": a, "model": b})
    return diffs, nlines


def history_ops(prefix, hist, upto=None):
    out = []
    for o in load_lines(prefix + ".ops.jsonl"):
        if o["hist"] == hist:
            out.append({k: v for k, v in o.items() if k not in ("impl", "order", "hist", "light")})
    return out if upto is None else out[:upto + 1]


def replay_batch(build, family, cands, tag):
    """run candidate operation lists; returns per candidate the list of failures"""
    sc = C.scratch()
    inp = os.path.join(sc, "cand_%s.json" % tag)
    with open(inp, "w") as f:
        json.dump(cands, f)
    out = os.path.join(sc, "cand_%s" % tag)
    C.run_jobs([(worker_argv(family, 0, 0, 0, out, replay=inp), C.py_env(build))])
    res = json.load(open(out + ".res.json"))
    per = [[] for _ in cands]
    for fl in res["failures"]:
        if 0 <= fl["hist"] < len(cands):
            per[fl["hist"]].append(fl)
    return per, out


def shrink(build, family, ops, prop, kind):
    """greedy one-operation removal, batched, until no single removal keeps the failure"""
    cur = ops
    for _ in range(60):
        idx = [i for i, o in enumerate(cur) if o["op"] not in ("reset", "container")]
        cands = [cur[:i] + cur[i + 1:] for i in idx]
        if not cands:
            break
        try:
            per, _ = replay_batch(build, family, cands, "shrink")
        except C.Infra:
            break
        nxt = None
        for c, fl in zip(cands, per):
            if any(f["property"] == prop and f["kind"] == kind for f in fl):
                nxt = c
                break
        if nxt is None:
            break
        cur = nxt
    return cur


def run(prop, tier, seed, replay=None):
    v = C.Verdict(prop, tier, seed)
    family = FAMILY[prop]
    pure = C.build_pure()
    if replay:
        return do_replay(prop, family, pure, replay)

    # ---- Lean side: build, forbidden constructs, axioms ----
    ok, log = C.lean_build()
    hits = C.grep_forbidden()
    thms, problems = ({}, ["lake build failed"]) if not ok else C.audit(prop)
    lean_problems = (["lake build failed: " + log[-1500:]] if not ok else []) + \
                    (["forbidden construct: " + h for h in hits]) + problems

    # ---- implementation side: histories + oracles ----
    n, maxops = SIZES[tier][prop]
    builds = [("pure", pure, None)]
    if tier == "thorough":
        builds += [("compiled", C.build_compiled(), None), ("pure", pure, 1), ("pure", pure, 2)]
    jobs, prefixes = [], []
    sc = C.scratch()
    per_job = max(1, n // C.NPROC)
    for bi, (bname, bdir, hs) in enumerate(builds):
        for j in range(C.NPROC if bi == 0 else 4):
            pref = os.path.join(sc, "%s_%s_%d_%d" % (prop, bname, bi, j))
            jobs.append((worker_argv(family, seed * 1000 + bi * 100 + j, per_job if bi == 0 else per_job // 2, maxops, pref,
                                     corpus=(j == 0 and bi == 0 and prop in ("C01", "C02")), chains=CHAINS[tier]),
                         C.py_env(bdir, hs if hs is not None else (seed * 31 + j) % 1000)))
            prefixes.append((pref, bdir))
    C.run_jobs(jobs)

    stats_total = {}
    failures = []
    for pref, bdir in prefixes:
        res = json.load(open(pref + ".res.json"))
        for k, val in res["stats"].items():
            if isinstance(val, (int, float)):
                stats_total[k] = stats_total.get(k, 0) + val
        for fl in res["failures"]:
            if fl["property"] == prop:
                failures.append((pref, bdir, fl))

    # ---- correspondence: the same lines through the model ----
    diffs = []
    nlines = 0
    if ok:
        for pref, bdir in prefixes:
            C.run_driver("mgr", pref + ".ops.jsonl", pref + ".model.jsonl")
            d, nl = compare(pref, FIELDS[prop])
            nlines += nl
            diffs += [(pref, bdir, x) for x in d]

    # ---- verdict ----
    seen = set()
    samples = []
    for pref, bdir, fl in failures:
        key = (fl["kind"], fl.get("known"))
        if key in seen and len(seen) >= 1:
            continue
        seen.add(key)
        if fl["hist"] >= 1000:
            ops = history_ops(pref, fl["hist"], fl["op_index"])
            if not fl.get("known"):
                ops = shrink(bdir, family, ops, prop, fl["kind"])
        else:
            ops = history_ops(pref, fl["hist"])
        v.failing_input(fl, {"suite": "mgr", "family": family, "ops": ops})
    if not v.violations:
        if lean_problems:
            v.broken("lean: " + "; ".join(lean_problems)[:600], {"suite": "mgr", "theorem_or_obligation": lean_problems[:5]})
        if diffs:
            pref, bdir, d0 = diffs[0]
            ops = history_ops(pref, d0["hist"])
            v.broken("correspondence: model and implementation disagree on `%s` after `%s`" % (d0["field"], d0["op"]),
                     {"suite": "mgr", "family": family, "ops": ops, "first_divergence": d0, "n_diverging_histories": len(diffs)})

    # ---- evidence ----
    if prefixes:
        some = load_lines(prefixes[-1][0] + ".ops.jsonl")
        h0 = some[0]["hist"] if some else None
        samples = [{k: val for k, val in o.items() if k not in ("impl", "hist")} for o in some if o["hist"] == h0][:12]
    C.proof_coverage(v, thms, extra_tb=[
        "correspondence harness harness/w_mgr.py + harness/mgrlib.py (generators, canonicalisation, diff)",
        "Python's dict/list/attribute semantics and int arithmetic as modelled in XModel/Store.lean and Manager.pyBinRaw"])
    distinct = int(stats_total.get("dataops", 0))
    v.coverage.update({
        "evaluations": int(stats_total.get("ops", 0)),
        "distinct_nontrivial": distinct,
        "rule": "operations of randomly generated manager histories (family %s, structured generator with a hidden rank "
                "making most data flow acyclic); non-trivial = an assignment (value / expression / in-place) that "
                "completed far enough to compute a schedule; histories are drawn from distinct PRNG states" % family,
        "samples": samples,
        "traces_validated_against_impl": nlines,
        "histories": int(stats_total.get("histories", 0)),
        "correspondence_divergences": len(diffs),
        "oracle_failures": len(failures),
        "input_distribution": {k: val for k, val in sorted(stats_total.items())},
        "builds": sorted(set(b[0] + ("" if b[2] is None else "/hashseed=%d" % b[2]) for b in builds)),
        "lean_problems": lean_problems,
    })
    v.assumptions = ["Python object model (dict/list/attribute get/set, exceptions) as modelled in XModel/Store.lean",
                     "set iteration order = arbitrary permutation (scheduler parameter of the model)",
                     "generated histories respect the property's exclusions (no container overwritten, one writer per location)"]
    return v.finish()


def do_replay(prop, family, build, path):
    payload = json.load(open(os.path.join(C.VERIF, path) if not os.path.isabs(path) else path))
    if "ops" not in payload:
        print(json.dumps(payload, indent=1)[:4000])
        return 0
    per, out = replay_batch(build, family, [payload["ops"]], "replay")
    ok, _ = C.lean_build()
    lines = load_lines(out + ".ops.jsonl")
    model = []
    if ok:
        C.run_driver("mgr", out + ".ops.jsonl", out + ".model.jsonl")
        model = load_lines(out + ".model.jsonl")
    for i, o in enumerate(lines):
        m = model[i] if i < len(model) else {}
        op = {k: val for k, val in o.items() if k not in ("impl", "hist")}
        print("op   :", json.dumps(op)[:400])
        print(" impl: exc=%s trace=%s" % (o["impl"]["exc"], json.dumps(o["impl"].get("trace"))[:300]))
        print(" model: exc=%s trace=%s sched=%s" % (m.get("exc"), json.dumps(m.get("trace"))[:300], m.get("sched")))
    mine = [f for f in per[0] if f["property"] == prop]
    for f in per[0]:
        print("oracle:", json.dumps(f))
    if any(not f.get("known") for f in mine):
        print("VIOLATION property=%s replay=%s" % (prop, path))
        return 1
    print("replay: no oracle failure for %s on the current tree" % prop)
    return 0
