"""Checks built on the `mgr` suite: C01 C02 C03 C17 C18."""
import suite as S
import mgrlib_cmp as cmp

CHAINS = {"quick": "40,-40,1500,-1500,3000", "thorough": "40,-40,2000,-2000,5000,-5000,12000"}


class Mgr(S.Suite):
    name = "mgr"
    worker = "w_mgr.py"
    FAMILY = {"C01": "c01", "C02": "c02", "C03": "c03", "C17": "c17", "C18": "c18", "C13": "c13"}
    # exactly the observables of each property's `observe_at` (DESIGN.md, Appendix A)
    FIELDS = {
        "C01": {"bad-op", "exc", "store", "defs"},
        "C02": {"bad-op", "exc", "schedule", "trace"},
        "C03": {"bad-op", "exc", "sup", "defs", "find_deps", "tasks", "expr"},
        "C17": {"bad-op", "exc", "frozen", "defs", "sup", "store"},
        "C18": {"bad-op", "exc", "trace", "store", "defs", "sup"},
        "C13": {"bad-op", "exc", "schedule", "trace", "store"},
    }
    SIZES = {
        "quick": {"C01": (640, 22), "C02": (640, 22), "C03": (1600, 16), "C17": (640, 22), "C18": (640, 22), "C13": (640, 14)},
        "thorough": {"C01": (20000, 26), "C02": (20000, 26), "C03": (60000, 16), "C17": (20000, 24), "C18": (20000, 24), "C13": (20000, 16)},
    }

    def family(self, prop):
        return self.FAMILY[prop]

    def fields(self, prop):
        return self.FIELDS[prop]

    def sizes(self, prop, tier):
        n, maxops = self.SIZES[tier][prop]
        return n, ["--maxops", str(maxops)]

    def extra_argv(self, prop, tier, job, build_index):
        if job == 0 and build_index == 0 and prop in ("C01", "C02"):
            return ["--corpus", "--chains", CHAINS[tier]]
        if job == 0 and build_index == 0 and prop in ("C13", "C17"):
            return ["--corpus"]
        if job == 0 and build_index == 0 and prop in ("C03", "C18"):
            return ["--corpus", "--chains", ""]
        return []

    def compare_line(self, line, model):
        return cmp.compare_line(line, model)

    def extra_workers(self, prop, tier):
        if prop == "C01":
            # definitions over the full expression language (builtins, calls, computed keys), perturbed through the
            # manager: the model's expression language has none of these, so this part is oracle-only
            return [("w_expr.py", "c05", 1500 if tier == "quick" else 30000, ["--fixed"])]
        if prop == "C13":
            # generated functions over the full expression language (operator precedence of the printed source, builtins,
            # calls): function vs assignments on a twin manager; oracle-only, the model's expression language is smaller
            return [("w_expr.py", "c13", 1200 if tier == "quick" else 25000, ["--fixed"])]
        return []

    def nontrivial(self, stats, prop):
        return int(stats.get("dataops", 0))

    def rule(self, prop):
        return ("operations of randomly generated manager histories (family %s, structured generator with a hidden rank "
                "making most data flow acyclic) plus the corpus scenarios; non-trivial = an assignment (value / "
                "expression / in-place) that went far enough to compute a schedule; histories come from distinct PRNG states"
                % self.FAMILY[prop])

    def trusted(self, prop):
        return ["correspondence harness harness/w_mgr.py + harness/mgrlib.py (generators, canonicalisation, diff)",
                "Python's dict/list/attribute semantics and int arithmetic as modelled in XModel/Store.lean and Manager.pyBinRaw"]

    def assumptions(self, prop):
        return ["Python object model (dict/list/attribute get/set, exceptions) as modelled in XModel/Store.lean",
                "set iteration order = arbitrary permutation (scheduler parameter of the model)",
                "generated histories respect the property's exclusions (no container overwritten, one writer per location)"]


def run(prop, tier, seed, replay=None):
    return S.run(Mgr(), prop, tier, seed, replay)
