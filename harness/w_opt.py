"""Worker for the optimizer properties C09 C10 C15 (and the solver part of C16): generated matching
problems run on the real xdeps.optimize (scratch copy on PYTHONPATH), each property's direct oracle,
and the recorded event stream (merit calls, container writes, log rows) for the model driver.

usage: w_opt.py --family c09|c10|c15 --seed S --n N --out PREFIX [--replay FILE]
"""
import argparse
import json
import math
import os
import random
import re
import signal
import struct
import sys
import time

import numpy as np
import xdeps as xd
from xdeps.general import _print

_print.suppress = True

import xdeps.optimize.optimize as OO
import xdeps.optimize.jacobian as JJ

TRACE = []     # merit calls / solver-step delimiters / solver.x assignments of the current API call

_orig_call = OO.MeritFunctionForMatch.__call__


# knob names: some are proper prefixes of others (k1 / k10 / k11), as in real lattices (kq1, kq10): a selector by name is
# a full match
KNAMES = ["k1", "k10", "k2", "k11", "k0", "k3"]

def _logged_call(self, x=None, check_limits=None, return_scalar=None, zero_if_met=None):
    TRACE.append(["m", None if x is None else [fbits(v) for v in np.atleast_1d(x)], check_limits])
    return _orig_call(self, x, check_limits=check_limits, return_scalar=return_scalar, zero_if_met=zero_if_met)


OO.MeritFunctionForMatch.__call__ = _logged_call
_orig_step = JJ.JacobianSolver.step


def _logged_step(self, *a, **k):
    TRACE.append(["S"])
    try:
        r = _orig_step(self, *a, **k)
    except Exception as e:
        TRACE.append(["E", type(e).__name__])
        raise
    TRACE.append(["E", None])
    return r


JJ.JacobianSolver.step = _logged_step
_orig_clip = OO.MeritFunctionForMatch._clip_to_max_steps


def _logged_clip(self, x_step):
    raw = [fbits(v) for v in np.atleast_1d(x_step)]
    out = _orig_clip(self, x_step)
    TRACE.append(["C", raw, [fbits(v) for v in np.atleast_1d(out)]])
    return out


OO.MeritFunctionForMatch._clip_to_max_steps = _logged_clip
_x_prop = JJ.JacobianSolver.x


def _x_set(self, v):
    TRACE.append(["X"])
    _x_prop.fset(self, v)


JJ.JacobianSolver.x = property(_x_prop.fget, _x_set)


# ---- the residual computation of the merit function (driver op `merit`, XModel/MeritNum.lean) -------------------------
# Every completed evaluation of the real merit function leaves one entry ["r", {...}] in TRACE: the raw target values
# the code stored (last_res_values), the value / tol / weight / active attributes of the Target objects AS THEY ARE when
# the call returns (read from the optimizer's own objects, not from the worker's copy of the problem), the effective
# zero_if_met / return_scalar, and what the call returned / the last_point_within_tol it set.  Numbers travel as the
# hex of their IEEE bits (fbits), so NaN / inf / -0.0 survive the JSON encoding.
_merit_call_below = OO.MeritFunctionForMatch.__call__


def _num_bits(v):
    try:
        return fbits(v)
    except (TypeError, ValueError):
        return None


def _merit_record(mf, out, return_scalar, zero_if_met):
    tt = list(mf.targets)
    scalar = bool(mf.return_scalar if return_scalar is None else return_scalar)
    rec = {"res": [_num_bits(v) for v in np.atleast_1d(mf.last_res_values)],
           "tar": [_num_bits(t.value._value if hasattr(t.value, "_value") else t.value) for t in tt],
           "tol": [_num_bits(t.tol) for t in tt],
           "weight": [None if t.weight is None else _num_bits(t.weight) for t in tt],
           "active": "".join("y" if getattr(t, "active", True) else "n" for t in tt),
           "zim": bool(mf.zero_if_met if zero_if_met is None else zero_if_met), "scalar": scalar,
           "within": bool(mf.last_point_within_tol),
           # optimize_log / transform are outside the model: such an evaluation is recorded as not comparable
           "outside": bool(any(getattr(t, "optimize_log", False) or hasattr(t, "transform") for t in tt))}
    rec["out"] = _num_bits(out) if scalar else [_num_bits(v) for v in np.atleast_1d(out)]
    return rec


def _recorded_call(self, x=None, check_limits=None, return_scalar=None, zero_if_met=None):
    out = _merit_call_below(self, x, check_limits=check_limits, return_scalar=return_scalar, zero_if_met=zero_if_met)
    try:
        TRACE.append(["r", _merit_record(self, out, return_scalar, zero_if_met)])
    except Exception as e:          # an evaluation the worker cannot describe is a divergence of its own, not a crash
        TRACE.append(["r", {"unreadable": "%s: %s" % (type(e).__name__, e)}])
    return out


OO.MeritFunctionForMatch.__call__ = _recorded_call


def merit_line(e):
    """one protocol line of the `opt` suite, op `merit`: the evaluations of the merit function recorded during one API
    call (whether or not the call itself is inside the skeleton model), or None when there were none"""
    evals = [t[1] for t in e["trace"] if t[0] == "r"]
    if not evals:
        return None
    return {"op": "merit", "call": {"kind": e["call"][0]}, "evals": evals, "impl": {}}


def fbits(x):
    return struct.pack("<d", float(x)).hex()


PER_CALL = ("enable_target", "enable_vary", "enable_vary_name", "disable_target", "disable_vary", "disable_vary_name")


def resolve_sel(entries, attrs):
    """the positions a selector of enable()/disable() switches: an int is a position (negative: from the end), a string is a
    regular expression that has to match the WHOLE attribute (tag or name).  None when the selector is of another form
    (True / False / anything else): outside what the model is given"""
    if entries is None:
        return []
    if isinstance(entries, bool):
        return None
    if isinstance(entries, (int, str)):
        entries = [entries]
    out = []
    for ent in entries:
        if isinstance(ent, bool):
            return None
        if isinstance(ent, int):
            if not -len(attrs) <= ent < len(attrs):
                return None
            out.append(ent % len(attrs))
        elif isinstance(ent, str):
            try:
                out += [i for i, a in enumerate(attrs) if re.fullmatch(ent, a)]
            except re.error:
                return None
        else:
            return None
    return out


def step_selectors(args, spec, names):
    """the six per-call arguments of step() as lists of positions (what the Lean model `Opt.optStepWith` takes), or None"""
    vtags = [k.get("tag", "") for k in spec["knobs"]]
    ttags = [t.get("tag", "") for t in spec["targets"]]
    attrs = {"enable_target": ttags, "disable_target": ttags, "enable_vary": vtags, "disable_vary": vtags,
             "enable_vary_name": list(names), "disable_vary_name": list(names)}
    sel = {}
    for k in PER_CALL:
        r = resolve_sel(args.get(k), attrs[k])
        if r is None:
            return None
        sel[k] = r
    return sel


class KnobBox(dict):
    """knob container: logs every write"""

    def __init__(self, init, log):
        dict.__init__(self, init)
        self._log = log

    def __setitem__(self, k, v):
        self._log.append(["w", k, fbits(v)])
        dict.__setitem__(self, k, v)


class UserRaise(Exception):
    pass


class CallHang(BaseException):
    """an API call of the library that has not returned within CALL_BUDGET seconds (a normal call takes milliseconds): not
    an `Exception`, so that no handler of the library or of the harness absorbs it"""


CALL_BUDGET = int(os.environ.get("VERIF_CALL_BUDGET", "30"))
PROP = "C09"        # the property of the family this worker runs (set in main): a call that does not return is its failure


def _on_alarm(signum, frame):
    raise CallHang()


class Act(xd.Action):
    def __init__(self, box, fun, names, log, raise_region=None):
        self.box, self.fun, self.names, self.log = box, fun, names, log
        self.ncalls = 0
        self.raise_region = raise_region      # (knob index, lo, hi): the action fails outside [lo, hi]

    def run(self):
        self.ncalls += 1
        x = np.array([self.box[n] for n in self.names], dtype=float)
        rr = self.raise_region
        if rr is not None and not (rr[1] <= x[rr[0]] <= rr[2]):
            self.log.append(["f", [fbits(v) for v in x], None])
            raise UserRaise("user action fails")
        y = self.fun(x)
        self.log.append(["f", [fbits(v) for v in x], [fbits(v) for v in y]])
        return {i: v for i, v in enumerate(y)}


def mkfun(spec):
    A = np.array(spec["A"], dtype=float)
    b = np.array(spec["b"], dtype=float)
    kind = spec["kind"]
    pert = spec.get("perturb")     # (target index, offset): only used for the disabled-target twin

    def wrap(f):
        if pert is None:
            return f
        return lambda x: f(x) + np.array([pert[1] * (1 + x[0]) if i == pert[0] else 0.0 for i in range(len(b))])
    if kind == "linear":
        return wrap(lambda x: A @ x - b)
    if kind == "quad":
        return wrap(lambda x: (A @ x) ** 2 - b)
    if kind == "trig":
        return wrap(lambda x: np.sin(A @ x) + 0.3 * (A @ x) - 0.2 * b)
    if kind == "incons":
        return wrap(lambda x: (A @ x) ** 2 + 1.0 + 0 * b)
    raise ValueError(kind)


def build(case):
    spec = case["problem"]
    log = []
    names = [KNAMES[i] for i in range(spec["nk"])]
    box = KnobBox({n: k["init"] for n, k in zip(names, spec["knobs"])}, log)
    vary = []
    for n, k in zip(names, spec["knobs"]):
        kw = {}
        if k.get("limits") is not None:
            kw["limits"] = tuple(k["limits"])
        if k.get("max_step") is not None:
            kw["max_step"] = k["max_step"]
        if k.get("weight") is not None:
            kw["weight"] = k["weight"]
        vary.append(xd.Vary(n, box, step=k.get("step", 1e-7), tag=k.get("tag", ""), **kw))
    fun = mkfun(spec)
    if spec.get("replace_target") is not None:
        fun = replaced_target(fun, spec["replace_target"], spec.get("eval_budget"))      # only used for the disabled-target twin
    act = Act(box, fun, names, log, spec.get("raise_region"))
    tars = []
    for i, t in enumerate(spec["targets"]):
        tt = act.target(i, t.get("value", 0.0), tol=t["tol"], tag=t.get("tag", ""))
        if t.get("weight") is not None:
            tt.weight = t["weight"]
        tars.append(tt)
    opt = xd.Optimize(vary=vary, targets=tars, show_call_counter=False, n_steps_max=spec.get("n_steps_max", 20),
                      restore_if_fail=spec.get("restore_if_fail", True), assert_within_tol=spec.get("assert_within_tol", True),
                      **({"check_limits": False} if spec.get("check_limits") is False else {}))
    return opt, box, names, fun, act, log


def flags(opt):
    return ("".join("y" if v.active else "n" for v in opt.vary), "".join("y" if t.active else "n" for t in opt.targets))


def nrows_of(L):
    return min(len(L[k]) for k in ("penalty", "knobs", "targets", "vary_active", "target_active", "tol_met", "alpha", "tag"))


def rows_of(opt):
    L = opt._log
    return [{"knobs": [fbits(v) for v in L["knobs"][i]], "penalty": fbits(L["penalty"][i]), "vary_active": L["vary_active"][i],
             "target_active": L["target_active"][i], "tol_met": L["tol_met"][i], "alpha": (-1 if L["alpha"][i] is None else int(L["alpha"][i])), "tag": L["tag"][i]}
            for i in range(nrows_of(L))]


def close(a, b, unit):
    if unit:
        return a == b
    return math.isclose(a, b, rel_tol=1e-12, abs_tol=1e-300)


def run_case(case, fail, stats):
    spec = case["problem"]
    try:
        opt, box, names, fun, act, log = build(case)
    except (AssertionError, UserRaise, ValueError):
        stats["build_failed"] += 1
        return None
    nk, nt = spec["nk"], len(spec["targets"])
    unit = all(k.get("weight") in (None, 1, 1.0) for k in spec["knobs"])
    lims = [k.get("limits") for k in spec["knobs"]]
    start_inside = all(l is None or l[0] <= k["init"] <= l[1] for k, l in zip(spec["knobs"], lims))
    events = []
    stats["cases"] += 1
    # target weights are the user's to change between two calls: every log row is judged with the weights in force when it
    # was written
    w_built = [t.weight for t in opt.targets]
    row_w = [list(w_built) for _ in range(nrows_of(opt._log))]

    def in_limits(vals, what):
        for i, l in enumerate(lims):
            if l is None:
                continue
            tol = 0 if unit else 1e-12 * max(1, abs(l[0]), abs(l[1]))
            if vals[i] < l[0] - tol or vals[i] > l[1] + tol:
                fail("C10", "outside-limits", {"what": what, "knob": i, "value": vals[i], "limits": l})
                return False
        return True

    for call in case["calls"]:
        name, args = call[0], (call[1] if len(call) > 1 else {})
        log.clear()
        TRACE.clear()
        k_before = [box[n] for n in names]
        f_before = flags(opt)
        nrows0 = nrows_of(opt._log)
        pre = {"knobs": [fbits(v) for v in k_before], "vact": f_before[0], "tact": f_before[1],
               "solverx": None if opt.solver.x is None else [fbits(v) for v in opt.solver.x],
               "last_within": bool(getattr(opt._err, "last_point_within_tol", False)),
               "log": [{"knobs": r["knobs"], "vary_active": r["vary_active"], "target_active": r["target_active"]} for r in rows_of(opt)]}
        exc = "ok"
        signal.alarm(CALL_BUDGET)
        try:
            if name == "solve":
                opt.solve(broyden=args.get("broyden", False), take_best=args.get("take_best", True))
            elif name == "step":
                kw = {k: v for k, v in args.items() if k in ("take_best", "broyden") + PER_CALL}
                opt.step(args.get("n", 1), **kw)
            elif name == "reload":
                opt.reload(args["i"] if args["i"] < len(opt._log["penalty"]) else 0)
            elif name == "tag":
                opt.tag(args.get("tag", "t"))
            elif name == "disable":
                opt.disable(**args)
            elif name == "enable":
                opt.enable(**args)
            elif name == "clear_log":
                opt.clear_log()
            elif name == "poke":
                # the user assigns a knob directly, between two calls of the optimizer (knobs are the user's data)
                box[names[args["knob"]]] = args["value"]
            elif name == "set_tol":
                # the user asks for a finer (or coarser) match of the same problem between two calls (targets are the user's
                # objects, as knobs are)
                opt.targets[args["target"]].tol = args["tol"]
            elif name == "set_weight":
                # ... or pushes harder on one target: .weight, or its alias .scale
                if args.get("scale"):
                    opt.targets[args["target"]].scale = args["weight"]
                else:
                    opt.targets[args["target"]].weight = args["weight"]
            else:
                raise ValueError(name)
        except UserRaise:
            exc = "UserRaise"
        except CallHang:
            # e.g. a bisection loop of the solver that never meets its exit condition: reported as a failing input of the
            # property being checked, the rest of the case is abandoned (the optimizer is in the middle of a call)
            stats["calls_not_returning"] = stats.get("calls_not_returning", 0) + 1
            fail(PROP, "call-does-not-return", {"call": call, "budget_s": CALL_BUDGET, "calls_before": [e["call"] for e in events]})
            return events
        except Exception as e:
            exc = type(e).__name__
        finally:
            signal.alarm(0)
        k_after = [box[n] for n in names]
        f_after = flags(opt)
        L = opt._log
        events.append({"call": call, "exc": exc, "events": list(log), "knobs": [fbits(v) for v in k_after],
                       "flags": list(f_after), "rows": rows_of(opt)[nrows0:] if name != "clear_log" else rows_of(opt),
                       "pre": pre, "trace": list(TRACE), "nrows0": nrows0,
                       "last_within": bool(getattr(opt._err, "last_point_within_tol", False))})
        reads = case.get("log_reads")
        if reads and len(events) - 1 < len(reads) and reads[len(events) - 1]:
            # the public view of the log is the recorded rows (knobs, flags, penalties, tags), whatever was read before
            stats["public_log_reads"] = stats.get("public_log_reads", 0) + 1
            try:
                T = opt.log()
                pub = {"penalty": [float(x) for x in T["penalty"]], "tag": [str(x) for x in T["tag"]],
                       "vary_active": [str(x) for x in T["vary_active"]], "target_active": [str(x) for x in T["target_active"]],
                       "knobs": [[float(v) for v in np.atleast_1d(r)] for r in T["vary"]] if len(T["penalty"]) else []}
                rec = {"penalty": [float(x) for x in L["penalty"]], "tag": [str(x) for x in L["tag"]],
                       "vary_active": [str(x) for x in L["vary_active"]], "target_active": [str(x) for x in L["target_active"]],
                       "knobs": [[float(v) for v in r] for r in L["knobs"]]}
                same = all(len(pub[k]) == len(rec[k]) for k in pub) and pub["tag"] == rec["tag"] and \
                    pub["vary_active"] == rec["vary_active"] and pub["target_active"] == rec["target_active"] and \
                    all(fbits(a) == fbits(b) or (a != a and b != b) for a, b in zip(pub["penalty"], rec["penalty"])) and \
                    all(fbits(a) == fbits(b) for ra, rb in zip(pub["knobs"], rec["knobs"]) for a, b in zip(ra, rb))
                if not same:
                    fail("C15", "public-log-differs-from-recorded-rows", {"after_call": call, "log()": {k: pub[k][:6] for k in pub},
                                                                          "recorded": {k: rec[k][:6] for k in rec}})
            except Exception as e:
                if nrows_of(L) > 0:
                    fail("C15", "public-log-raises", {"after_call": call, "exc": type(e).__name__})
        stats["calls"] += 1
        stats["call:" + name] = stats.get("call:" + name, 0) + 1
        stats["exc:" + exc] = stats.get("exc:" + exc, 0) + 1
        # the model is handed the tolerances in force during the call (set_tol is the only call that changes them, and it
        # has no model line), the rows written by the call carry the weights in force (set_weight writes no row)
        events[-1]["ttol"] = [fbits(t.tol) for t in opt.targets]
        if name == "clear_log":
            del row_w[:]
        while len(row_w) < nrows_of(L):
            row_w.append([t.weight for t in opt.targets])
            if row_w[-1] != w_built:
                stats["rows_written_under_changed_weights"] = stats.get("rows_written_under_changed_weights", 0) + 1
        if exc == "TypeError":
            fail("C10", "call-raises-TypeError", {"call": call})
            return events
        # ---------------- C09 ----------------
        if name == "solve":
            if exc == "ok":
                stats["solve_ok"] += 1
                y = fun(np.array(k_after, dtype=float))
                for i, t in enumerate(opt.targets):
                    if t.active and not abs(y[i] - t.value) < t.tol:
                        fail("C09", "returned-unmatched", {"target": i, "value": float(y[i]), "tol": t.tol, "knobs": k_after})
                        break
            else:
                stats["solve_raise"] += 1
                if spec.get("restore_if_fail", True) and nrows_of(L) > 0:
                    row0 = L["knobs"][0]
                    for i in range(nk):
                        if not close(k_after[i], row0[i], unit):
                            fail("C09", "not-restored", {"exc": exc, "knob": i, "left": k_after[i], "iteration0": row0[i], "unit_weights": unit})
                            break
                    if f_after != (L["vary_active"][0], L["target_active"][0]):
                        fail("C09", "flags-not-restored", {"exc": exc, "flags": f_after, "iteration0": [L["vary_active"][0], L["target_active"][0]]})
        # ---------------- C10 ----------------
        if start_inside:
            in_limits(k_after, "container after " + name)
            for r in range(nrows0, nrows_of(L)):
                if not in_limits(L["knobs"][r], "log row %d" % r):
                    break
        if name in ("disable", "enable") and exc == "ok":
            # a selector by position or by NAME switches exactly the knobs / targets it names (a name is a full match: k1 is
            # not k10), and nothing else
            on = "y" if name == "enable" else "n"
            want_v, want_t = list(f_before[0]), list(f_before[1])
            decided = True
            for key, val in args.items():
                if key == "vary" and all(isinstance(d, int) for d in val):
                    for d in val:
                        want_v[d] = on
                elif key == "vary_name":
                    for d in val:
                        for i, n in enumerate(names):
                            if n == d:
                                want_v[i] = on
                elif key == "target" and all(isinstance(d, int) for d in val):
                    for d in val:
                        want_t[d] = on
                else:
                    decided = False          # tags and other selectors: no expectation here
            if decided and f_after != ("".join(want_v), "".join(want_t)):
                fail("C10", "selector-switched-the-wrong-knobs", {"call": call, "before": f_before, "after": f_after,
                                                                  "expected": ["".join(want_v), "".join(want_t)], "names": names})
        if name in ("solve", "step"):
            # knobs disabled during the whole call never move.  The per-call arguments of step() are applied in the order
            # enable_vary, disable_vary, disable_vary_name, enable_vary_name: only the last re-enables a knob of a disable list
            dis = [i for i in range(nk) if f_before[0][i] == "n"]
            sel = step_selectors(args if name == "step" else {}, spec, names)
            if sel is not None:
                tmp_dis = set(sel["disable_vary"]) | set(sel["disable_vary_name"])
                off = ((set(dis) - set(sel["enable_vary"])) | tmp_dis) - set(sel["enable_vary_name"])
                for i in sorted(off):
                    moved = [r for r in range(nrows0, nrows_of(L)) if L["knobs"][r][i] != k_before[i]]
                    if (moved or k_after[i] != k_before[i]) and exc == "ok":
                        fail("C10", "disabled-knob-moved", {"knob": i, "before": k_before[i], "after": k_after[i]})
                        break
                if name == "step" and exc == "ok":
                    # arguments act "for the performed steps": afterwards the knobs / targets named by a disable_* argument are
                    # active again, those named by an enable_* argument are inactive again (the undo mirrors the set-up, in the
                    # same order), every other flag is what it was
                    want_v = "".join("n" if i in sel["enable_vary_name"] else "y" if i in tmp_dis else
                                     "n" if i in sel["enable_vary"] else ch for i, ch in enumerate(f_before[0]))
                    want_t = "".join("y" if i in sel["disable_target"] else "n" if i in sel["enable_target"] else ch
                                     for i, ch in enumerate(f_before[1]))
                    if f_after != (want_v, want_t):
                        fail("C10", "temporary-flags-not-restored", {"call": call, "before": f_before, "after": f_after,
                                                                     "expected": [want_v, want_t]})
                    if any(args.get(k) is not None for k in PER_CALL):
                        stats["per_call_args_steps"] = stats.get("per_call_args_steps", 0) + 1
                        # the rows logged by the call record the flags in force DURING the call
                        dur_v = "".join("y" if i in sel["enable_vary_name"] else "n" if i in tmp_dis else
                                        "y" if i in sel["enable_vary"] else ch for i, ch in enumerate(f_before[0]))
                        dur_t = "".join("n" if i in sel["disable_target"] else "y" if i in sel["enable_target"] else ch
                                        for i, ch in enumerate(f_before[1]))
                        for r in range(nrows0, nrows_of(L)):
                            if (L["vary_active"][r], L["target_active"][r]) != (dur_v, dur_t):
                                fail("C10", "row-flags-not-those-of-the-call", {"call": call, "row": r, "before": f_before,
                                                                                "row_flags": [L["vary_active"][r], L["target_active"][r]],
                                                                                "expected": [dur_v, dur_t]})
                                break
            # max_step between consecutive Jacobian steps
            for r in range(max(1, nrows0), nrows_of(L)):
                if L["alpha"][r] is not None and L["alpha"][r] >= 0:
                    for i, k in enumerate(spec["knobs"]):
                        ms = k.get("max_step")
                        if ms is not None and abs(L["knobs"][r][i] - L["knobs"][r - 1][i]) > ms * (1 + 1e-9):
                            fail("C10", "max_step-exceeded", {"row": r, "knob": i, "moved": abs(L["knobs"][r][i] - L["knobs"][r - 1][i]),
                                                               "max_step": ms, "weight": k.get("weight")})
                            break
        # ---------------- C15 (take_best) ----------------
        if name == "step" and exc == "ok" and args.get("take_best", True):
            pens = L["penalty"][nrows0:nrows_of(L)] if name != "solve" else []
            # the rows logged during the call start with the start row (tag())
            if len(pens) >= 2 and not opt._err.last_point_within_tol:
                final_pen = pens[-1]
                if any(p < final_pen * (1 - 1e-12) - 1e-300 for p in pens):
                    fail("C15", "take_best-not-minimum", {"penalties": [float(p) for p in pens]})
                if final_pen > pens[0] * (1 + 1e-12) + 1e-300:
                    fail("C15", "ended-worse-than-start", {"start": float(pens[0]), "end": float(final_pen)})
    # ---------------- C15: every row reloads to itself ----------------
    if case.get("check_rows", True):
        L = opt._log
        nrows = nrows_of(L)
        rows = [(list(L["knobs"][r]), L["penalty"][r], L["vary_active"][r], L["target_active"][r], list(L["targets"][r])) for r in range(nrows)]
        for r, (kn, pen, va, ta, tv) in enumerate(rows):
            # leave the knobs somewhere else first: reload must put EVERY logged value back, whatever the state it
            # starts from (otherwise reloading the rows in order hides a knob that is not written)
            for i, n in enumerate(names):
                box[n] = 977.25 + 3 * i
            signal.alarm(CALL_BUDGET)
            try:
                opt.reload(r)
            except CallHang:
                fail(PROP, "call-does-not-return", {"call": ["reload", {"i": r}], "budget_s": CALL_BUDGET, "where": "rows reloaded at the end"})
                return events
            except Exception as e:
                if start_inside and not isinstance(e, UserRaise):
                    fail("C15", "reload-raises", {"row": r, "exc": type(e).__name__})
                continue
            finally:
                signal.alarm(0)
            stats["rows_reloaded"] += 1
            kk = [box[n] for n in names]
            for i in range(nk):
                if not close(kk[i], kn[i], unit):
                    fail("C15", "reload-knobs-differ", {"row": r, "knob": i, "left": kk[i], "logged": kn[i], "unit_weights": unit})
                    break
            if flags(opt) != (va, ta):
                fail("C15", "reload-flags-differ", {"row": r, "flags": flags(opt), "logged": [va, ta]})
            lens = set(len(L[k]) for k in ("penalty", "knobs", "targets", "vary_active", "target_active", "tol_met", "alpha", "tag"))
            if len(lens) > 1:
                fail("C15", "log-columns-misaligned", {"lengths": {k: len(L[k]) for k in ("penalty", "knobs", "targets", "tag")}})
                break
            y = np.array(fun(np.array(kk, dtype=float)), dtype=float)
            mo = np.array([ch == "y" for ch in ta])
            w = np.array([t.weight for t in opt.targets], dtype=float)
            if r < len(row_w):
                w = np.array(row_w[r], dtype=float)      # the weights in force when the row was written
            tvals = np.array([t.value for t in opt.targets], dtype=float)
            e = (y - tvals).copy()
            e[~mo] = 0
            p = math.sqrt(float(np.sum((e * w) ** 2)))
            if not math.isclose(p, pen, rel_tol=1e-6, abs_tol=1e-9):
                fail("C15", "logged-penalty-not-reproducible", {"row": r, "recomputed": p, "logged": float(pen)})
            if not np.allclose(y, np.array(tv, dtype=float), rtol=1e-6, atol=1e-9):
                fail("C15", "logged-targets-not-reproducible", {"row": r})
    if case.get("twin") is not None:
        twin_oracle(case, events, fail, stats)
    return events


def reconstruct_iters(trace):
    """the solver's choice of evaluation points, read off the recorded merit calls: per JacobianSolver.step
    block the start point, the Jacobian perturbations (check_limits=False), the bisection trials, and
    whether the penalty-increase path (re-evaluation at the start point, then ValueError) was taken"""
    its = []
    x_since = False
    seen_first_m = False
    i = 0
    while i < len(trace):
        ev = trace[i]
        if ev[0] == "X":
            x_since = seen_first_m       # solve()'s own assignment precedes the start-row evaluation
        elif ev[0] == "m" and not its:
            seen_first_m = True
        if ev[0] == "S":
            j = i + 1
            ms = []
            while j < len(trace) and trace[j][0] != "E":
                if trace[j][0] == "m":
                    ms.append(trace[j])
                j += 1
            exc = trace[j][1] if j < len(trace) else "?"
            if not ms:
                return None
            clips = [t for t in trace[i + 1:j] if t[0] == "C"]
            num = {"raw": clips[0][1], "xstep": clips[0][2]} if len(clips) == 1 else {}
            x0 = ms[0][1]
            if len(ms) == 1:
                its.append({"resync": x_since, "early": True, "jac": [], "trials": [], "last": x0, "pe": False})
            else:
                k = 1
                jac = []
                while k < len(ms) and ms[k][2] is False:
                    jac.append(ms[k][1])
                    k += 1
                rest = [m[1] for m in ms[k:]]
                pe = bool(exc == "ValueError" and len(rest) >= 2 and rest[-1] == x0)
                if pe:
                    rest = rest[:-1]
                if rest:
                    its.append({"resync": x_since, "early": False, "jac": jac, "trials": rest[:-1], "last": rest[-1], "pe": pe, **num})
                else:
                    its.append({"resync": x_since, "early": False, "jac": jac, "trials": [], "last": x0, "pe": False})
            x_since = False
            i = j
        i += 1
    return its


def driver_line(case, e):
    """one protocol line of the `opt` suite for one API call, or None when the call is outside the model"""
    name, args = e["call"][0], (e["call"][1] if len(e["call"]) > 1 else {})
    spec = case["problem"]
    if name not in ("solve", "step", "reload", "tag"):
        return None
    if spec.get("check_limits") is False:
        return None          # the skeleton models the default configuration (limits checked by the merit function)
    sel = None
    if name == "step" and any(args.get(k) is not None for k in PER_CALL):
        # per-call arguments: e["pre"] is the state BEFORE they are applied (it is recorded before step() is entered); the
        # model gets the positions each argument switches and runs flags / call / undo itself (`Opt.optStepWith`)
        sel = step_selectors(args, spec, [KNAMES[i] for i in range(spec["nk"])])
        if sel is None:
            return None
    if e["exc"] not in ("ok", "UserRaise", "RuntimeError", "ValueError"):
        return None          # numerical failures inside numpy (LinAlgError, ...) are outside the model
    knobs = spec["knobs"]
    ftable = []
    for ev in e["events"]:
        if ev[0] == "f":
            ftable.append([ev[1], ev[2]])
    problem = {"n": spec["nk"], "nt": len(spec["targets"]),
               "weights": [fbits(k.get("weight") if k.get("weight") is not None else 1.0) for k in knobs],
               "limits": [None if k.get("limits") is None else [fbits(k["limits"][0]), fbits(k["limits"][1])] for k in knobs],
               "max_step": [None if k.get("max_step") is None else fbits(k["max_step"]) for k in knobs],
               "tvalue": [fbits(t.get("value", 0.0)) for t in spec["targets"]],
               "ttol": [fbits(t["tol"]) for t in spec["targets"]],
               "ftable": ftable, "assert": spec.get("assert_within_tol", True), "restore": spec.get("restore_if_fail", True)}
    if e.get("ttol") is not None:
        problem["ttol"] = e["ttol"]          # the tolerances in force during the call (the user may have changed them: set_tol)
    call = {"kind": name}
    if sel is not None:
        call["args"] = sel
    if name in ("solve", "step"):
        its = reconstruct_iters(e["trace"])
        if its is None:
            return None
        call["its"] = its
        take_best = args.get("take_best", True)
        if take_best and e["exc"] == "ok":
            rows = e["rows"]
            pens = [r["penalty"] for r in rows]
            if rows and rows[-1]["tag"] == "take_best":
                pens = pens[:-1]
            call["pens"] = pens
            call["log_start"] = e["nrows0"]
        elif take_best and e["exc"] != "ok" and name == "solve":
            # solve(): the failure may be the final assert after a completed step(); rows up to the restore row
            rows = e["rows"]
            if rows and e["exc"] == "RuntimeError":
                pens = [r["penalty"] for r in rows[:-1]]
                if pens and rows[-2]["tag"] == "take_best" if len(rows) >= 2 else False:
                    pens = pens[:-1]
                call["pens"] = pens
                call["log_start"] = e["nrows0"]
    elif name == "reload":
        i = args["i"]
        call["i"] = i if i < len(e["pre"]["log"]) else 0
    cat = {"ok": ["ok"], "UserRaise": ["user"], "RuntimeError": ["noTol"], "ValueError": ["limit", "penalty"]}[e["exc"]]
    return {"op": "call", "problem": problem, "pre": e["pre"], "call": call,
            "impl": {"exc": cat, "knobs": e["knobs"], "vact": e["flags"][0], "tact": e["flags"][1],
                     "rows": [{"knobs": r["knobs"], "vary_active": r["vary_active"], "target_active": r["target_active"]} for r in e["rows"]],
                     "last_within": e["last_within"]}}


# ----------------------------------------------------------------------------
# "a disabled target has no influence on the steps taken" (C10): the twin run
# ----------------------------------------------------------------------------
def unbits(h):
    return struct.unpack("<d", bytes.fromhex(h))[0]


def jnum(x):
    """a float for a failure detail: non-finite values as text (NaN is not a JSON literal)"""
    x = float(x)
    return x if math.isfinite(x) else repr(x)


class Runaway(Exception):
    """the twin run has evaluated the user function many times more often than the run it is compared with"""


def replaced_target(fun, rt, budget=None):
    """the user function with target d replaced by a diagnostic quantity of knob k that is not defined everywhere:
    rt = [d, mode, k, thr, side]; with u = side * (thr - x[k]) the value is log(u) (nan for u < 0, -inf at 0), sqrt(u) (nan
    for u < 0), 1/u (+-inf at 0), +-exp(710 - 50 u) (an overflow: +-inf for u <= 0), nan everywhere, or a constant.
    After `budget` evaluations the function fails (a search that does not end is reported, not waited for)"""
    d, mode, k, thr, side = rt
    count = [0]

    def g(x):
        count[0] += 1
        if budget is not None and count[0] > budget:
            raise Runaway("more than %d evaluations" % budget)
        y = np.array(fun(x), dtype=float)
        with np.errstate(all="ignore"):
            u = np.float64(side * (thr - x[k]))
            if mode == "log":
                v = np.log(u)
            elif mode == "sqrt":
                v = np.sqrt(u)
            elif mode == "inv":
                v = np.float64(1.0) / u
            elif mode == "exp":
                v = np.exp(710.0 - 50.0 * u)
            elif mode == "negexp":
                v = -np.exp(710.0 - 50.0 * u)
            elif mode == "nan":
                v = np.float64("nan")
            elif mode == "const":
                v = np.float64(thr)
            else:
                raise ValueError(mode)
        y[d] = v
        return y
    return g


def twin_oracle(case, events, fail, stats):
    """the same calls on a second problem whose user function differs ONLY in target d: as long as d is disabled in every
    call that takes steps (persistently, or for the call through step(disable_target=...)), both runs write the same values
    into the knob container in the same order, append the same rows (knobs, alpha, flags, tags; the penalty of every row
    logged while d is off), leave the same knobs and flags and end the same way"""
    tw = case["twin"]
    d = tw["target"]
    spec2 = dict(case["problem"])
    if tw.get("replace") is not None:
        spec2["replace_target"] = [d] + list(tw["replace"])
    else:
        spec2["perturb"] = [d, tw.get("perturb", 1.0)]
    # the twin may need as many evaluations as the problem as given, not 20 times more
    spec2["eval_budget"] = 1000 + 20 * sum(1 for e in events for ev in e["events"] if ev[0] == "f")
    # the calls up to the first one that takes steps with d switched on: from there on the two problems are different problems
    ncmp = 0
    for e in events:
        name, args = e["call"][0], (e["call"][1] if len(e["call"]) > 1 else {})
        if name in ("solve", "step"):
            en = args.get("enable_target") or []
            # tags / regular expressions among the per-call enable arguments may select d too: such a call is not compared
            off = e["pre"]["tact"][d] == "n" and d not in en and all(isinstance(x, int) and not isinstance(x, bool) for x in en)
            if name == "step" and d in (args.get("disable_target") or []):
                off = True
            if not off:
                break
        ncmp += 1
    if not any(e["call"][0] in ("solve", "step") for e in events[:ncmp]):
        return
    case2 = {"problem": spec2, "calls": case["calls"][:ncmp], "check_rows": False}
    st2 = {k: 0 for k in ("cases", "calls", "solve_ok", "solve_raise", "rows_reloaded", "build_failed")}
    ev2 = run_case(case2, lambda *a, **k: None, st2)
    if ev2 is None:
        return
    stats["twin_cases"] = stats.get("twin_cases", 0) + 1
    kind = "twin:" + (tw["replace"][0] if tw.get("replace") is not None else "perturb")
    stats[kind] = stats.get(kind, 0) + 1
    nonfinite = 0
    for j, (ea, eb) in enumerate(zip(events, ev2)):
        call = ea["call"]
        nonfinite += sum(1 for ev in eb["events"] if ev[0] == "f" and ev[2] is not None and not math.isfinite(unbits(ev[2][d])))
        stats["twin_calls_compared"] = stats.get("twin_calls_compared", 0) + 1
        diff = None
        wa = [ev for ev in ea["events"] if ev[0] == "w"]
        wb = [ev for ev in eb["events"] if ev[0] == "w"]
        if ea["exc"] != eb["exc"]:
            diff = ("outcome", ea["exc"], eb["exc"])
        elif ea["knobs"] != eb["knobs"]:
            diff = ("knobs left in the container", [jnum(unbits(h)) for h in ea["knobs"]], [jnum(unbits(h)) for h in eb["knobs"]])
        elif ea["flags"] != eb["flags"]:
            diff = ("flags", ea["flags"], eb["flags"])
        elif len(ea["rows"]) != len(eb["rows"]):
            diff = ("number of rows logged", len(ea["rows"]), len(eb["rows"]))
        elif wa != wb:
            i = next((i for i, (a, b) in enumerate(zip(wa, wb)) if a != b), min(len(wa), len(wb)))
            diff = ("writes into the knob container (first difference at write %d of %d / %d)" % (i, len(wa), len(wb)),
                    [[w[1], jnum(unbits(w[2]))] for w in wa[i:i + 4]], [[w[1], jnum(unbits(w[2]))] for w in wb[i:i + 4]])
        else:
            for r, (ra, rb) in enumerate(zip(ea["rows"], eb["rows"])):
                stats["twin_rows_compared"] = stats.get("twin_rows_compared", 0) + 1
                for col in ("knobs", "alpha", "vary_active", "target_active", "tag") + (("penalty",) if ra["target_active"][d] == "n" else ()):
                    if ra[col] != rb[col]:
                        dec = (lambda v: [jnum(unbits(h)) for h in v]) if col == "knobs" else ((lambda v: jnum(unbits(v))) if col == "penalty" else (lambda v: v))
                        diff = ("log column %r, row %d of the call" % (col, r), dec(ra[col]), dec(rb[col]))
                        break
                if diff:
                    break
        if diff:
            fail("C10", "disabled-target-influences-steps",
                 {"disabled_target": d, "twin": tw, "call_index": j, "call": call, "what": diff[0], "problem_as_given": diff[1],
                  "twin_problem": diff[2], "non_finite_values_of_the_disabled_target_so_far": nonfinite})
            break
    if nonfinite:
        stats["twin_cases_reaching_non_finite_values"] = stats.get("twin_cases_reaching_non_finite_values", 0) + 1
        stats["twin_non_finite_evaluations"] = stats.get("twin_non_finite_evaluations", 0) + nonfinite


# ----------------------------------------------------------------------------
# generator
# ----------------------------------------------------------------------------
def gen_problem(rng, klass=None):
    klass = klass or rng.choice(["converge", "converge", "tol_fail", "limit_fail", "raise", "far", "edge", "edge"])
    if klass == "edge":
        return gen_edge_problem(rng)
    nk = rng.randint(1, 4)
    nt = rng.randint(1, 5)
    kind = rng.choice(["linear", "linear", "quad", "trig"]) if klass != "tol_fail" else rng.choice(["incons", "quad"])
    if klass == "converge":
        nt = rng.randint(1, nk)        # not over-determined
        kind = rng.choice(["linear", "linear", "trig"])
    A = [[rng.choice([-2, -1, -0.5, 0.5, 1, 2, 3]) for _ in range(nk)] for _ in range(nt)]
    if klass == "converge":
        for i in range(nt):
            A[i][i % nk] = rng.choice([3, 4, 5]) * rng.choice([-1, 1])      # keep it well-conditioned
    b = [rng.choice([-3, -1, 0, 1, 2, 5]) for _ in range(nt)]
    unit = rng.random() < 0.6
    knobs = []
    for i in range(nk):
        if klass in ("limit_fail", "far"):
            lo, hi = rng.choice([-1, -0.5]), rng.choice([0.5, 1])
            z = rng.random()
            if z < 0.2:
                lo = 0            # a bound that is exactly zero (positivity constraint): int 0 / float 0.0 are falsy
            elif z < 0.35:
                hi = 0.0
        else:
            lo, hi = rng.choice([-50, -20, -10]), rng.choice([10, 20, 50])
        k = {"init": round(rng.uniform(lo * 0.8, hi * 0.8), 3)}
        if rng.random() < (0.9 if klass in ("limit_fail", "far") else 0.6):
            k["limits"] = [lo, hi]
        if rng.random() < 0.4:
            k["max_step"] = rng.choice([0.1, 0.5, 1, 2, 5])
        if not unit:
            k["weight"] = rng.choice([0.25, 0.5, 2, 4, 10])
        k["tag"] = rng.choice(["a", "b"])
        knobs.append(k)
    targets = [{"tol": rng.choice([1e-9, 1e-6, 1e-3]), "tag": rng.choice(["p", "q"])} for _ in range(nt)]
    if rng.random() < 0.3:
        for t in targets:
            t["weight"] = rng.choice([0.5, 2, 10])
    spec = {"class": klass, "kind": kind, "nk": nk, "A": A, "b": b, "knobs": knobs, "targets": targets,
            "n_steps_max": rng.choice([1, 3, 10, 20])}
    if rng.random() < 0.15:
        spec["check_limits"] = False       # the merit function does not refuse points outside the limits: the solver's own
                                           # clamping of the trial steps is all that keeps the iterates inside (oracle only)
    if klass == "raise":
        rad = rng.choice([0.05, 0.2, 0.5, 1.0, 2.0])
        spec["raise_region"] = [0, knobs[0]["init"] - rad, knobs[0]["init"] + rad]
    return spec


def gen_edge_problem(rng):
    """the solution lies just beyond a limit, the Jacobian step is coarse and the tolerance loose: the probes of the
    finite-difference Jacobian may be within tolerance while the iterate, blocked at the limit, is not"""
    nk = rng.randint(1, 2)
    tol = rng.choice([0.02, 0.05, 0.1])
    step = rng.choice([0.005, 0.01, 0.02, 0.05])
    slope = rng.choice([1.0, 1.0, 2.0])
    knobs, A, b = [], [], []
    for i in range(nk):
        hi = rng.choice([0.9, 0.975, 1.5])
        beyond = hi + (tol / slope) * rng.choice([1.02, 1.1, 1.25, 1.5])      # the matching value is outside the limit
        knobs.append({"init": round(rng.uniform(0.0, hi * 0.9), 3), "limits": [0.0, hi], "step": step, "tag": "a"})
        A.append([slope if j == i else 0.0 for j in range(nk)])
        b.append(slope * beyond)
    return {"class": "edge", "kind": "linear", "nk": nk, "A": A, "b": b, "knobs": knobs,
            "targets": [{"tol": tol, "tag": "p"} for _ in range(nk)], "n_steps_max": rng.choice([5, 10, 25])}


def gen_calls(rng, spec, family):
    nk, nt = spec["nk"], len(spec["targets"])
    calls = []
    if family == "c09" and rng.random() < 0.4:
        # the knobs leave their iteration-0 values before anything is disabled: a later failing solve() has to bring
        # every knob back, the disabled ones included
        calls.append(["step", {"n": rng.randint(1, 2), "take_best": rng.random() < 0.7}])
    if family == "c09" and nk > 1 and rng.random() < 0.2:
        # a knob that is OFF in iteration 0 of the log (the log cleared while it was disabled) and on, and moved, when the
        # solve fails: restoring means its value of iteration 0 as well as its flag
        k = rng.randrange(nk)
        calls += [["disable", {"vary": [k]}], ["clear_log", {}], ["enable", {"vary": [k]}],
                  ["step", {"n": rng.randint(1, 2), "take_best": rng.random() < 0.5}]]
    if rng.random() < 0.3 and nk > 1:
        calls.append(["disable", {"vary": [rng.randrange(nk)]}])
    if rng.random() < 0.3 and nt > 1:
        calls.append(["disable", {"target": [rng.randrange(nt)]}])
    if family == "c09":
        calls.append(["solve", {"broyden": rng.random() < 0.3}])
        if rng.random() < 0.3:
            calls.append(["solve", {}])
        return calls
    for _ in range(rng.randint(1, 5)):
        r = rng.random()
        if r < 0.45:
            a = {"n": rng.randint(1, 4), "take_best": rng.random() < 0.8}
            if rng.random() < 0.3:
                a["broyden"] = True
            x = rng.random()
            if x < 0.15 and nt > 1:
                a["disable_target"] = [rng.randrange(nt)]
            elif x < 0.3 and nk > 1:
                a["disable_vary"] = [rng.randrange(nk)]
            elif x < 0.4 and nk > 1:
                a["disable_vary_name"] = [KNAMES[rng.randrange(nk)]]
            elif x < 0.52:
                # all six per-call arguments, several at once, overlapping.  Drawn from a generator of its own (seeded by x),
                # so that the main stream — problems and call sequences — is the one it was before these existed
                gen_per_call(random.Random(int(x * 2 ** 53)), a, spec)
            calls.append(["step", a])
        elif r < 0.6:
            calls.append(["solve", {"broyden": rng.random() < 0.3}])
        elif r < 0.72:
            calls.append(["reload", {"i": rng.randint(0, 3)}])
        elif r < 0.8:
            calls.append(["tag", {"tag": "t%d" % rng.randint(0, 3)}])
        elif r < 0.88 and nk > 1:
            if rng.random() < 0.4:
                calls.append([rng.choice(["disable", "enable"]), {"vary_name": [KNAMES[rng.randrange(nk)]]}])
            else:
                calls.append([rng.choice(["disable", "enable"]), {"vary": [rng.randrange(nk)]}])
        elif r < 0.94 and nt > 1:
            calls.append([rng.choice(["disable", "enable"]), {"target": [rng.randrange(nt)]}])
        elif r < 0.97:
            calls.append(["clear_log", {}])
        else:
            k = rng.randrange(nk)
            lo, hi = spec["knobs"][k].get("limits") or [-1.0, 1.0]
            calls.append(["poke", {"knob": k, "value": round(rng.uniform(lo * 0.5, hi * 0.5), 3)}])
    return calls


def gen_per_call(r, a, spec):
    """one to three of enable_target / enable_vary / enable_vary_name / disable_target / disable_vary / disable_vary_name, by
    position, by tag (enable only: a tag may name every knob) or by name; the same knob may be named by several of them
    (the order in which step() applies them then decides).  Never every knob or every target disabled by the arguments"""
    nk, nt = spec["nk"], len(spec["targets"])
    kinds = ["enable_target", "enable_vary", "enable_vary_name"]
    if nt > 1:
        kinds.append("disable_target")
    if nk > 1:
        kinds += ["disable_vary", "disable_vary_name"]
    k0 = r.randrange(nk)             # a knob several arguments may share
    for kind in r.sample(kinds, r.randint(1, min(3, len(kinds)))):
        if kind == "enable_target":
            a[kind] = [r.choice(["p", "q"])] if r.random() < 0.3 else [r.randrange(nt)]
        elif kind == "enable_vary":
            a[kind] = [r.choice(["a", "b"])] if r.random() < 0.3 else [k0 if r.random() < 0.5 else r.randrange(nk)]
        elif kind == "enable_vary_name":
            a[kind] = [KNAMES[k0 if r.random() < 0.5 else r.randrange(nk)]]
        elif kind == "disable_target":
            a[kind] = [r.randrange(nt)]
        elif kind == "disable_vary":
            a[kind] = [k0 if r.random() < 0.5 else r.randrange(nk)]
        elif kind == "disable_vary_name":
            a[kind] = [KNAMES[k0 if r.random() < 0.5 else r.randrange(nk)]]


def gen_log_reads(rng, calls):
    """after which calls the PUBLIC log table (opt.log()) is read: not after every call, so that a table built at one
    length may be asked for again when the log, cleared in between, has grown back to that length"""
    return [rng.random() < 0.5 for _ in calls]


def fixed_cases():
    # the solver's own copy of the knobs goes stale for a DISABLED knob: steps, the knob disabled, an older row reloaded (which
    # writes every knob), further steps — the disabled knob stays where the reload put it, in the container and in the log
    for k in (0, 1):
        yield {"problem": {"class": "far", "kind": "linear", "nk": 2, "A": [[1, 0.5], [0.25, 1]], "b": [3, -2],
                            "knobs": [{"init": 0.5}, {"init": -1.0}], "targets": [{"tol": 1e-9}, {"tol": 1e-9}], "n_steps_max": 5},
               "calls": [["step", {"n": 2, "take_best": False}], ["disable", {"vary": [k]}], ["reload", {"i": 0}],
                         ["step", {"n": 1}], ["step", {"n": 2}], ["reload", {"i": 4}], ["enable", {"vary": [k]}], ["step", {"n": 1}]],
               "log_reads": [False, False, True, False, True, False, False, True]}
    # … and the plain form: the user changes a disabled knob by hand between two steps; the active knobs are untouched, so the
    # optimizer has no reason to look at its own copy again
    for k in (0, 1):
        yield {"problem": {"class": "far", "kind": "linear", "nk": 2, "A": [[1, 0.5], [0.25, 1]], "b": [3, -2],
                            "knobs": [{"init": 0.5}, {"init": -1.0}], "targets": [{"tol": 1e-9}, {"tol": 1e-9}], "n_steps_max": 5},
               "calls": [["step", {"n": 1, "take_best": False}], ["disable", {"vary": [k]}], ["poke", {"knob": k, "value": 1.25}],
                         ["step", {"n": 1}], ["step", {"n": 2}], ["reload", {"i": 2}], ["step", {"n": 1, "take_best": False}]]}
        yield {"problem": {"class": "far", "kind": "linear", "nk": 2, "A": [[1, 0.5], [0.25, 1]], "b": [3, -2],
                            "knobs": [{"init": 0.5, "weight": 4}, {"init": -1.0, "weight": 0.5}], "targets": [{"tol": 1e-9}, {"tol": 1e-9}],
                            "n_steps_max": 5},
               "calls": [["step", {"n": 1}], ["poke", {"knob": k, "value": -0.75}], ["step", {"n": 1, "disable_vary": [k]}], ["step", {"n": 1}]]}
    # knob names of which one is a prefix of another (k1 / k10), selected by name, persistently and for one call
    yield {"problem": {"class": "converge", "kind": "linear", "nk": 3, "A": [[3, 1, 0.5], [1, 4, 0.25]], "b": [1, 2],
                        "knobs": [{"init": 0.0}, {"init": 0.0}, {"init": 0.0}], "targets": [{"tol": 1e-9}, {"tol": 1e-9}], "n_steps_max": 5},
           "calls": [["disable", {"vary_name": ["k10"]}], ["step", {"n": 1, "disable_vary_name": ["k1"]}], ["step", {"n": 1}],
                     ["enable", {"vary_name": ["k10"]}], ["disable", {"vary_name": ["k1"]}], ["step", {"n": 1}]]}
    yield {"problem": {"class": "converge", "kind": "linear", "nk": 2, "A": [[3, 1], [1, 4]], "b": [1, 2],
                        "knobs": [{"init": 0.0}, {"init": 0.0}], "targets": [{"tol": 1e-9}, {"tol": 1e-9}], "n_steps_max": 5},
           "calls": [["disable", {"vary_name": ["k1"]}], ["step", {"n": 1}], ["enable", {"vary_name": ["k1"]}],
                     ["step", {"n": 1, "disable_vary_name": ["k1"]}], ["step", {"n": 1}], ["disable", {"vary_name": ["k10"]}], ["step", {"n": 1}]]}
    # the public log read at 3 rows, cleared, grown back to 3 rows from other knob values, read again
    yield {"problem": {"class": "far", "kind": "linear", "nk": 2, "A": [[1, 0.5], [0.25, 1]], "b": [3, -2],
                        "knobs": [{"init": 0.5}, {"init": -1.0}], "targets": [{"tol": 1e-9}, {"tol": 1e-9}], "n_steps_max": 5},
           "calls": [["step", {"n": 2, "take_best": False}], ["clear_log", {}], ["step", {"n": 2, "take_best": False}], ["reload", {"i": 0}]],
           "log_reads": [True, False, True, True]}
    # rows logged while a knob is frozen, the knob moved later, every row reloaded at the end
    for k in (0, 1):
        yield {"problem": {"class": "far", "kind": "linear", "nk": 2, "A": [[1, 0.5], [0.25, 1]], "b": [3, -2],
                            "knobs": [{"init": 0.5}, {"init": -1.0}], "targets": [{"tol": 1e-9}, {"tol": 1e-9}], "n_steps_max": 5},
               "calls": [["disable", {"vary": [k]}], ["step", {"n": 1}], ["tag", {"tag": "frozen"}], ["enable", {"vary": [k]}],
                         ["step", {"n": 2}], ["reload", {"i": 1}]]}
    # a tiny target weight: the weighted penalty drops below the solver's own threshold long before the target is within
    # its tolerance (slowly converging double root) — "converged" means every active target within tolerance, nothing else
    for w, tol in ((1e-12, 1e-10), (1e-9, 1e-13), (1e-15, 1e-6)):
        yield {"problem": {"class": "tolfail", "kind": "quad", "nk": 1, "A": [[1]], "b": [0],
                            "knobs": [{"init": 1.0, "limits": [-10, 10]}], "targets": [{"tol": tol, "weight": w}], "n_steps_max": 20},
               "calls": [["solve", {}]]}
        yield {"problem": {"class": "tolfail", "kind": "quad", "nk": 2, "A": [[1, 0], [0, 1]], "b": [0, 0],
                            "knobs": [{"init": 1.0}, {"init": -2.0}], "targets": [{"tol": tol, "weight": w}, {"tol": 1e-3}],
                            "n_steps_max": 25},
               "calls": [["solve", {}], ["solve", {}]]}
    # knobs moved by a step, one of them disabled, then a solve() that cannot succeed: restore to iteration 0
    for k in (0, 1):
        yield {"problem": {"class": "tolfail", "kind": "linear", "nk": 2, "A": [[1, 0], [0, 1], [1, 1]], "b": [1, 1, 5],
                            "knobs": [{"init": 0.0}, {"init": 0.0}], "targets": [{"tol": 1e-9}, {"tol": 1e-9}, {"tol": 1e-9}],
                            "n_steps_max": 3},
               "calls": [["step", {"n": 1}], ["disable", {"vary": [k]}], ["solve", {}]]}
    # the probed max_step witness: max_step = (1, 5), raw step (10, 10)
    yield {"problem": {"class": "far", "kind": "linear", "nk": 2, "A": [[1, 0], [0, 1]], "b": [10, 10],
                        "knobs": [{"init": 0.0, "max_step": 1}, {"init": 0.0, "max_step": 5}],
                        "targets": [{"tol": 1e-9}, {"tol": 1e-9}], "n_steps_max": 3}, "calls": [["step", {"n": 1}]]}
    # weight 4, max_step 1
    yield {"problem": {"class": "far", "kind": "linear", "nk": 1, "A": [[1]], "b": [10],
                        "knobs": [{"init": 0.0, "max_step": 1, "weight": 4}], "targets": [{"tol": 1e-9}], "n_steps_max": 3},
           "calls": [["step", {"n": 1}]]}
    # per-call arguments naming the same knob / target several times: the order in which step() applies and undoes them
    # decides (enable_vary, disable_vary, disable_vary_name, enable_vary_name); knobs / targets that are off before the call
    P3 = {"class": "converge", "kind": "linear", "nk": 3, "A": [[3, 1, 0.5], [1, 4, 0.25], [0.5, 1, 5]], "b": [1, 2, -1],
          "knobs": [{"init": 0.5, "limits": [-10, 10], "tag": "a"}, {"init": -0.5, "limits": [-10, 10], "tag": "b"},
                    {"init": 0.25, "limits": [-10, 10], "tag": "a"}],
          "targets": [{"tol": 1e-9, "tag": "p"}, {"tol": 1e-9, "tag": "q"}, {"tol": 1e-9, "tag": "p"}], "n_steps_max": 10}
    for kw in ({"disable_vary": [2, 0], "enable_vary_name": ["k2"], "enable_vary": [0]},
               {"enable_vary": ["a"], "disable_vary_name": ["k1"], "enable_target": ["q"]},
               {"enable_vary": [1], "enable_target": [1]},
               {"disable_vary": [1], "disable_vary_name": ["k2"], "disable_target": [1]},
               {"enable_vary_name": ["k10"], "disable_vary": [-3], "disable_target": [0], "enable_target": [0]}):
        yield {"problem": dict(P3), "calls": [["disable", {"vary": [1], "target": [1]}], ["step", dict(n=2, **kw)],
                                              ["step", {"n": 1}], ["step", dict(n=1, take_best=False, **kw)], ["solve", {}]]}
    # ... and a step() with per-call arguments that RAISES (the user's action fails away from the start point): there is no
    # try/finally in step(), the flags stay as the arguments set them; the calls after it start from those flags
    for kw in ({"disable_vary": [1], "disable_target": [1]}, {"enable_vary_name": ["k10"], "disable_vary_name": ["k2"]}):
        yield {"problem": dict(P3, raise_region=[0, 0.5 - 0.05, 0.5 + 0.05], **{"class": "raise"}),
               "calls": [["disable", {"vary": [1]}], ["step", dict(n=2, **kw)], ["step", {"n": 1}], ["tag", {}]]}
    # step(disable_target=...) and friends
    for kw in ({"disable_target": [1]}, {"disable_vary": [1]}, {"disable_vary_name": ["k1"]}):
        yield {"problem": {"class": "converge", "kind": "linear", "nk": 2, "A": [[3, 1], [1, 4]], "b": [1, 2],
                            "knobs": [{"init": 0.5, "limits": [-10, 10]}, {"init": -0.5, "limits": [-10, 10]}],
                            "targets": [{"tol": 1e-9}, {"tol": 1e-9}], "n_steps_max": 10},
               "calls": [["step", dict(n=2, **kw)], ["solve", {}]]}
    yield from fixed_cases_user_changes()


def fixed_cases_user_changes():
    """tolerances and target weights changed by the user between two calls; disabled targets that are not defined
    everywhere"""
    two = [{"init": 0.5, "limits": [-10, 10]}, {"init": -0.5, "limits": [-10, 10]}]
    # a coarse solve, the tolerances tightened (all / one / before anything else / tightened and partly loosened again),
    # solve again: a normal return means within the tolerances in force NOW
    for kind, A, b in (("trig", [[3, 1], [1, 4]], [1, 2]), ("quad", [[1, 0.5], [0.25, 1]], [3, 2]), ("trig", [[2, -1], [0.5, 3]], [5, -3])):
        prob = {"class": "converge", "kind": kind, "nk": 2, "A": A, "b": b, "knobs": two,
                "targets": [{"tol": 0.1}, {"tol": 0.1}], "n_steps_max": 20}
        yield {"problem": prob, "calls": [["solve", {}], ["set_tol", {"target": 0, "tol": 1e-9}], ["set_tol", {"target": 1, "tol": 1e-9}],
                                          ["solve", {}]]}
        yield {"problem": prob, "calls": [["solve", {}], ["set_tol", {"target": 1, "tol": 1e-10}], ["solve", {"broyden": True}]]}
        yield {"problem": prob, "calls": [["set_tol", {"target": 0, "tol": 1e-8}], ["set_tol", {"target": 1, "tol": 1e-8}], ["solve", {}]]}
        yield {"problem": prob, "calls": [["step", {"n": 1}], ["set_tol", {"target": 0, "tol": 1e-7}], ["set_tol", {"target": 1, "tol": 1e-7}],
                                          ["solve", {}], ["set_tol", {"target": 0, "tol": 0.1}], ["set_tol", {"target": 1, "tol": 1e-11}], ["solve", {}]]}
    # ... with a third target that is switched off (the coarse solve, a finer one, then an inconsistent one that restores)
    yield {"problem": {"class": "converge", "kind": "quad", "nk": 2, "A": [[1, 0.5], [0.25, 1], [1, 1]], "b": [3, 2, -40], "knobs": two,
                        "targets": [{"tol": 0.1}, {"tol": 0.1}, {"tol": 0.1}], "n_steps_max": 20},
           "calls": [["disable", {"target": [2]}], ["solve", {}], ["set_tol", {"target": 0, "tol": 1e-9}], ["set_tol", {"target": 1, "tol": 1e-9}],
                     ["set_tol", {"target": 2, "tol": 1e-9}], ["solve", {}], ["enable", {"target": [2]}], ["solve", {}]]}
    # a target weight changed between two calls ("push harder on this target"): rows written afterwards (tag, steps, reload)
    # carry penalties under the new weights, and take_best minimises under them
    for kind, A, b in (("quad", [[1, 0.5], [0.25, 1]], [3, 2]), ("trig", [[3, 1], [1, 4]], [1, 2])):
        prob = {"class": "far", "kind": kind, "nk": 2, "A": A, "b": b, "knobs": [{"init": 0.7}, {"init": -0.4}],
                "targets": [{"tol": 1e-9}, {"tol": 1e-9}], "n_steps_max": 3}
        for sc in (False, True):
            yield {"problem": prob, "calls": [["step", {"n": 1}], ["set_weight", {"target": 1, "weight": 25.0, "scale": sc}], ["tag", {"tag": "reweighted"}],
                                              ["step", {"n": 2}], ["reload", {"i": 2}]], "log_reads": [False, False, True, False, True]}
        yield {"problem": prob, "calls": [["set_weight", {"target": 0, "weight": 0.01}], ["step", {"n": 2, "take_best": False}],
                                          ["set_weight", {"target": 0, "weight": 4.0}], ["clear_log", {}], ["step", {"n": 1}]]}
        yield {"problem": dict(prob, targets=[{"tol": 1e-9, "weight": 2}, {"tol": 1e-9, "weight": 0.5}]),
               "calls": [["step", {"n": 1}], ["set_weight", {"target": 0, "weight": 10.0}], ["set_weight", {"target": 1, "weight": 10.0}],
                         ["step", {"n": 2}], ["solve", {}]]}
    # a disabled target that is not defined (nan), infinite or overflowing on part of the domain — an aperture-like margin
    # log(3.5 - k0), a square root, an overflow — finite at the start; the full Newton step of the enabled (linear)
    # targets lands where it is not: the steps are those of the problem in which that target is any other function
    lin = {"class": "far", "kind": "linear", "nk": 2, "A": [[1, 0], [0, 1], [0, 0]], "b": [4, 1, 0],
           "knobs": [{"init": 0.0, "limits": [-10, 10]}, {"init": 0.0, "limits": [-10, 10]}],
           "targets": [{"tol": 1e-9}, {"tol": 1e-9}, {"tol": 1e-9}], "n_steps_max": 5}
    for rt in (["log", 0, 3.5, 1], ["sqrt", 0, 3.5, 1], ["exp", 0, 3.5, 1], ["negexp", 1, 0.5, 1], ["log", 1, 0.75, 1], ["nan", 0, 0.0, 1]):
        tw = {"target": 2, "replace": rt}
        yield {"problem": lin, "twin": tw, "calls": [["disable", {"target": [2]}], ["step", {"n": 2}], ["solve", {}]]}
        yield {"problem": lin, "twin": tw, "calls": [["step", {"n": 2, "disable_target": [2]}], ["tag", {"tag": "t"}], ["reload", {"i": 1}]]}
        yield {"problem": lin, "twin": tw, "calls": [["disable", {"target": [2]}], ["step", {"n": 1, "broyden": True, "take_best": False}],
                                                     ["step", {"n": 2, "broyden": True}]]}
    yield {"problem": dict(lin, b=[-4, -1, 0]), "twin": {"target": 2, "replace": ["sqrt", 0, -3.5, -1]},
           "calls": [["disable", {"target": [2]}], ["step", {"n": 2}]]}
    # ... and the plain form of the twin: the disabled target is another finite function
    yield {"problem": lin, "twin": {"target": 2, "perturb": 7.5}, "calls": [["disable", {"target": [2]}], ["step", {"n": 2}]]}
    yield {"problem": lin, "twin": {"target": 2, "perturb": -3.0}, "calls": [["step", {"n": 2, "disable_target": [2]}], ["step", {"n": 1}]]}


def augment_case(rng, case, family):
    """the user's own moves between two calls, drawn from a PRNG of their own (the cases drawn before these existed stay what
    they were): a tolerance or a target weight changed, and — family c10 — the twin problem for a disabled target"""
    spec, calls = case["problem"], case["calls"]
    reads = case.get("log_reads")
    nk, nt = spec["nk"], len(spec["targets"])

    def insert(pos, call):
        calls.insert(pos, call)
        if reads is not None:
            reads.insert(pos, rng.random() < 0.3)

    def new_tol(t):
        return rng.choice([t * 1e-3, t * 1e-6, t * 1e3, 1e-12, 1e-9, 1e-6, 1e-3, 0.05])

    if family == "c09":
        if rng.random() < 0.4:
            # loosen before the first solve (so that it is a coarse one), tighten after it, solve again
            first = next((i for i, c in enumerate(calls) if c[0] == "solve"), None)
            if first is not None:
                which = [t for t in range(nt) if rng.random() < 0.7] or [rng.randrange(nt)]
                pos = first + 1
                for t in which:
                    insert(pos, ["set_tol", {"target": t, "tol": rng.choice([1e-12, 1e-10, 1e-8, spec["targets"][t]["tol"] * 1e-3])}])
                    pos += 1
                insert(pos, ["solve", {"broyden": rng.random() < 0.2}])
                if rng.random() < 0.7:
                    for t in which:
                        insert(first, ["set_tol", {"target": t, "tol": rng.choice([0.3, 0.1, 0.02, 1e-3])}])
        elif rng.random() < 0.15:
            insert(rng.randrange(len(calls) + 1), ["set_tol", {"target": rng.randrange(nt), "tol": new_tol(spec["targets"][0]["tol"])}])
    else:
        if rng.random() < 0.3:
            for _ in range(rng.randint(1, 2)):
                t = rng.randrange(nt)
                if rng.random() < 0.5:
                    insert(rng.randrange(len(calls) + 1), ["set_tol", {"target": t, "tol": new_tol(spec["targets"][t]["tol"])}])
                else:
                    insert(rng.randrange(len(calls) + 1), ["set_weight", {"target": t, "weight": rng.choice([1e-3, 0.5, 2.0, 10.0, 25.0]),
                                                                          "scale": rng.random() < 0.3}])
    if family == "c10" and nt > 1:
        # a target that the calls switch off (persistently or for one call), or one switched off here, and a twin problem
        # in which it is another function: finite, or not defined / infinite beyond some value of one knob
        d = None
        for c in calls:
            a = c[1] if len(c) > 1 else {}
            if c[0] == "disable" and a.get("target") and isinstance(a["target"][0], int):
                d = a["target"][0]
            elif c[0] == "step" and a.get("disable_target"):
                d = a["disable_target"][0]
            if d is not None or c[0] in ("step", "solve"):
                break
        if d is None and rng.random() < 0.25:
            d = rng.randrange(nt)
            insert(0, ["disable", {"target": [d]}])
        if d is not None:
            if rng.random() < 0.25:
                case["twin"] = {"target": d, "perturb": rng.choice([0.5, -3.0, 100.0])}
            else:
                k = rng.randrange(nk)
                side = rng.choice([1, -1])
                thr = round(spec["knobs"][k]["init"] + side * rng.choice([0.02, 0.1, 0.3, 1.0, 3.0]), 3)
                case["twin"] = {"target": d, "replace": [rng.choice(["log", "log", "sqrt", "inv", "exp", "negexp", "nan"]), k, thr, side]}


def main():
    ap = argparse.ArgumentParser()
    ap.add_argument("--family", default="c09")
    ap.add_argument("--seed", type=int, default=0)
    ap.add_argument("--n", type=int, default=100)
    ap.add_argument("--out", required=True)
    ap.add_argument("--replay", default=None)
    ap.add_argument("--fixed", action="store_true")
    a = ap.parse_args()
    global PROP
    PROP = a.family.upper()
    signal.signal(signal.SIGALRM, _on_alarm)
    rng = random.Random(a.seed * 1000003 + sum(map(ord, a.family)))
    t0 = time.time()
    stats = dict(ops=0, histories=0, cases=0, calls=0, solve_ok=0, solve_raise=0, rows_reloaded=0, build_failed=0)
    failures, lines = [], []
    if a.replay:
        cases = [c for ops in json.load(open(a.replay)) for c in ops]
        # a replay payload lists every protocol line of the history: only the `case` lines are inputs (the `call` / `merit`
        # lines are what the worker derived from them)
        cases = [c for c in cases if "calls" in c]
    else:
        cases = list(fixed_cases()) if a.fixed else []
        for i in range(a.n):
            spec = gen_problem(rng)
            calls = gen_calls(rng, spec, a.family)
            cases.append({"problem": spec, "calls": calls, "log_reads": gen_log_reads(rng, calls)})
            augment_case(random.Random(a.seed * 7919 + 104729 * i + sum(map(ord, a.family))), cases[-1], a.family)
    for i, case in enumerate(cases):
        def fail(prop, kind, detail, known=None, i=i):
            failures.append({"property": prop, "kind": kind, "hist": i, "op_index": 0, "detail": detail, "known": known})
        stats["ops"] += 1
        stats["histories"] += 1
        klass = case["problem"].get("class", "?")
        stats["class:" + klass] = stats.get("class:" + klass, 0) + 1
        ev = run_case(case, fail, stats)
        line = dict(case)
        line["op"] = "case"
        line["hist"] = i
        line["impl"] = {}
        lines.append(line)
        for e in (ev or []):
            dl = driver_line(case, e)
            if dl is not None:
                dl["hist"] = i
                lines.append(dl)
                stats["driver_lines"] = stats.get("driver_lines", 0) + 1
            ml = merit_line(e)
            if ml is not None:
                ml["hist"] = i
                lines.append(ml)
                stats["merit_lines"] = stats.get("merit_lines", 0) + 1
                stats["merit_evaluations"] = stats.get("merit_evaluations", 0) + len(ml["evals"])
    with open(a.out + ".ops.jsonl", "w") as f:
        for ln in lines:
            f.write(json.dumps(ln) + "\n")
    stats["wall_s"] = time.time() - t0
    with open(a.out + ".res.json", "w") as f:
        json.dump({"stats": stats, "failures": failures}, f)


if __name__ == "__main__":
    main()
