"""Tie A translator for xdeps/refs.py: probe the working tree's reference classes and emit the
tables of XModel/RefsTable.lean as Lean source (plus the raw observations as JSON).

Runs with PYTHONPATH pointing at a scratch copy of /repo's sources.
usage: extract_refs.py OUT_LEAN OUT_JSON
"""
import builtins
import inspect
import json
import math
import sys

import xdeps
import xdeps.refs as R


class Tag:
    """operand that records every operator applied to it"""

    def __init__(self, name):
        self.name = name

    def __repr__(self):
        return self.name

    def __hash__(self):
        return hash(self.name)


BIN = ["add", "sub", "mul", "matmul", "truediv", "floordiv", "mod", "pow", "and", "or", "xor",
       "lt", "le", "ge", "gt", "rshift", "lshift", "divmod"]
CMP = ("lt", "le", "ge", "gt")
PRIM = {"and": "and_", "or": "or_"}


def mk(opname, arity):
    if arity == 2:
        def f(self, other):
            return ("call", opname, repr(self), repr(other))
    else:
        def f(self, *a):
            return ("call", opname, repr(self)) + tuple(repr(x) for x in a)
    return f


for o in BIN:
    setattr(Tag, "__%s__" % o, mk(o, 2))
    if o not in CMP:
        setattr(Tag, "__r%s__" % o, mk("r" + o, 2))
for o in ["neg", "pos", "invert", "abs", "round", "trunc", "floor", "ceil"]:
    setattr(Tag, "__%s__" % o, mk(o, 1))


class ZTag(Tag):
    pass


def zraise(self, other):
    raise ZeroDivisionError("probe")


for o in BIN:
    setattr(ZTag, "__%s__" % o, zraise)

SPEC_BIN = []
for o in ["add", "sub", "mul", "truediv", "floordiv", "mod", "pow", "matmul", "and", "or", "xor", "rshift", "lshift"]:
    SPEC_BIN += ["__%s__" % o, "__r%s__" % o]
SPEC_BIN += ["__lt__", "__gt__", "__le__", "__ge__"]
SPEC_UN = ["__neg__", "__pos__", "__invert__"]
SPEC_BUILTIN = ["__abs__", "__round__", "__divmod__", "__trunc__", "__floor__", "__ceil__"]
SPEC_INPLACE = ["add", "sub", "mul", "matmul", "truediv", "floordiv", "mod", "pow", "lshift", "rshift", "and", "xor", "or"]


def lean_str(s):
    return '"' + s.replace("\\", "\\\\").replace('"', '\\"') + '"'


def main():
    out_lean, out_json = sys.argv[1], sys.argv[2]
    obs = {"compiled": R.is_cythonized(), "notes": []}
    m = xdeps.Manager()
    A, B, O, Z = Tag("A"), Tag("B"), Tag("O"), ZTag("Z")
    box = {"S": Tag("S"), "P": 2}
    r = m.ref(box, "box")
    S = r["S"]

    # ---- binary dunders: which node, where self went ----
    dunders = []
    for d in SPEC_BIN:
        meth = getattr(type(S), d, None)
        if meth is None:
            obs["notes"].append("%s missing" % d)
            continue
        try:
            node = meth(S, O)
        except Exception as e:
            obs["notes"].append("%s raises %s" % (d, type(e).__name__))
            continue
        if not isinstance(node, R.BinOpExpr):
            obs["notes"].append("%s builds %s" % (d, type(node).__name__))
            continue
        if node._lhs is S and node._rhs is O:
            side = "selfLhs"
        elif node._rhs is S and node._lhs is O:
            side = "selfRhs"
        else:
            obs["notes"].append("%s lost an operand" % d)
            continue
        dunders.append((d, type(node).__name__, side))
    # ---- classes: primitive applied, operand order, zero-division guard ----
    classes = []
    for cls in R.BinOpExpr.__subclasses__():
        try:
            res = cls(A, B)._get_value()
        except Exception as e:
            obs["notes"].append("%s evaluation raises %s" % (cls.__name__, type(e).__name__))
            continue
        if not (isinstance(res, tuple) and res[0] == "call"):
            # == and != on Tag fall back to identity: not recording operators (documented: use _eq/_neq)
            continue
        _, opname, x, y = res
        prim = opname[1:] if opname.startswith("r") and opname[1:] in BIN else opname
        swapped = (x, y) == ("B", "A")
        try:
            v = cls(Z, O)._get_value()
            guard = isinstance(v, float) and v != v
        except ZeroDivisionError:
            guard = False
        classes.append((cls.__name__, PRIM.get(prim, prim), swapped, guard))
    # ---- every other exception must reach the caller ----
    propagate = []

    def raiser(exc):
        class T(Tag):
            pass

        def r(self, *a):
            raise exc("probe")
        for o in BIN + ["eq", "ne"]:
            setattr(T, "__%s__" % o, r)
        for o in ["neg", "pos", "invert"]:
            setattr(T, "__%s__" % o, r)
        T.__hash__ = Tag.__hash__
        return T("X")

    for cls in list(R.BinOpExpr.__subclasses__()) + list(R.UnaryOpExpr.__subclasses__()):
        for exc in (OverflowError, FloatingPointError, ArithmeticError, ValueError, TypeError):
            node = cls(raiser(exc), O) if issubclass(cls, R.BinOpExpr) else cls(raiser(exc))
            try:
                node._get_value()
                ok_ = False
            except exc:
                ok_ = True
            except Exception:
                ok_ = False
            propagate.append((cls.__name__, exc.__name__, ok_))
    # ---- unary ----
    unary = []
    for d in SPEC_UN:
        meth = getattr(type(S), d, None)
        if meth is None:
            continue
        node = meth(S)
        if not isinstance(node, R.UnaryOpExpr) or node._arg is not S:
            obs["notes"].append("%s builds %r" % (d, node))
            continue
        res = type(node)(A)._get_value()
        if isinstance(res, tuple) and res[:3] == ("call", d.strip("_"), "A"):
            unary.append((d, type(node).__name__, d.strip("_")))
    # ---- builtins ----
    builtin = []

    def fname(f):
        mod = getattr(f, "__module__", None)
        return ("math." if mod == "math" else "") + f.__name__

    for d in SPEC_BUILTIN:
        meth = getattr(type(S), d, None)
        if meth is None:
            continue
        try:
            node = meth(S) if d != "__divmod__" else meth(S, O)
        except Exception as e:
            obs["notes"].append("%s raises %s" % (d, type(e).__name__))
            continue
        if not isinstance(node, R.BuiltinRef) or node._arg is not S:
            obs["notes"].append("%s builds %r" % (d, node))
            continue
        nparams = len(node._params) - (1 if d == "__divmod__" else 0)
        passes = False
        if d in ("__round__", "__divmod__"):
            n2 = meth(S, O)
            passes = tuple(n2._params) == (O,)
        builtin.append((d, fname(node._op), nparams, passes))
    # ---- in-place operators ----
    inplace = []
    for o in SPEC_INPLACE:
        d = "__i%s__" % o
        meth = getattr(type(S), d, None)
        if meth is None:
            inplace.append((d, False, None, None))
            continue
        vprim, ecls = None, None
        try:
            v1 = meth(S, O)           # S has no expression: old value (+) operand
            if v1 == ("call", o, "S", "O"):
                vprim = PRIM.get(o, o)
        except Exception as e:
            obs["notes"].append("%s value case raises %s" % (d, type(e).__name__))
        try:
            m2 = xdeps.Manager()
            b2 = {"S": 1, "P": 2}
            r2 = m2.ref(b2, "b")
            r2["S"] = r2["P"] * 1
            old = r2["S"]._expr
            v2 = getattr(type(r2["S"]), d)(r2["S"], O)
            if isinstance(v2, R.BinOpExpr) and v2._lhs is old and v2._rhs is O:
                ecls = type(v2).__name__
        except Exception as e:
            obs["notes"].append("%s expression case raises %s" % (d, type(e).__name__))
        inplace.append((d, True, vprim, ecls))
    # ---- dependency slots ----
    deps = []
    P = r["P"]
    Q = r["Q"]
    Q2 = r["Q2"]
    Q3 = r["Q3"]

    def inner_nodes():
        """what may stand in a slot: the probe ref itself and every kind of node around it, including nodes
        whose other operand contributes nothing (a literal, a LiteralExpr, a top-level container ref)"""
        yield P
        yield -P
        for other in (1, R.LiteralExpr(2), r, -r):
            yield R.AddExpr(other, P)
            yield R.MulExpr(P, other)
        yield R.BuiltinRef(P, abs)
        yield R.BuiltinRef(Q2, round, (P,))
        yield R.CallRef(Q2, (P,), {})
        yield R.CallRef(Q2, (), {"k": P})
        yield R.ItemRef(Q2, P, m)
        yield R.AddExpr(R.BuiltinRef(P, abs), 1)
        yield R.AddExpr(r, R.BuiltinRef(P, abs))

    def probe(cls, slot, make):
        covered, isset = True, True
        want = P._get_dependencies()
        for arg in inner_nodes():
            try:
                node = make(arg)
                dd = node._get_dependencies()
            except Exception as e:
                covered = False
                continue
            if not isinstance(dd, set):
                isset = False
                covered = False
                continue
            if not want <= dd:
                covered = False
            # the accumulator contract parents rely on: dependencies are added to the set that is passed in,
            # whether it is still empty or not
            for acc in (set(), {Q3}):
                try:
                    node._get_dependencies(acc)
                except Exception:
                    covered = False
                    continue
                if not want <= acc:
                    covered = False
        try:
            dd = make(r)._get_dependencies()           # a top-level container ref in the slot
            if not isinstance(dd, set):
                isset = False
        except Exception:
            pass
        deps.append((cls, slot, covered, isset))

    for cls in R.BinOpExpr.__subclasses__():
        probe(cls.__name__, "lhs", lambda a, cls=cls: cls(a, 1))
        probe(cls.__name__, "rhs", lambda a, cls=cls: cls(1, a))
    for cls in R.UnaryOpExpr.__subclasses__():
        probe(cls.__name__, "arg", lambda a, cls=cls: cls(a))
    probe("BuiltinRef", "arg", lambda a: R.BuiltinRef(a, round, (1,)))
    probe("BuiltinRef", "param", lambda a: R.BuiltinRef(Q, round, (a,)))
    probe("CallRef", "func", lambda a: R.CallRef(a, (1,), {}))
    probe("CallRef", "arg", lambda a: R.CallRef(Q, (1, a), {}))
    probe("CallRef", "kwarg", lambda a: R.CallRef(Q, (), {"k": a}))
    probe("ItemRef", "owner", lambda a: R.ItemRef(a, 1, m))
    probe("ItemRef", "key", lambda a: R.ItemRef(Q, a, m))
    probe("AttrRef", "owner", lambda a: R.AttrRef(a, "x", m))
    probe("AttrRef", "key", lambda a: R.AttrRef(Q, a, m))
    try:
        lit_set = isinstance(R.LiteralExpr(3)._get_dependencies(), set)
    except Exception:
        lit_set = False
    deps.append(("LiteralExpr", "none", True, lit_set))
    # ---- reduce ----
    reduce_rows = []

    def red(cls_name, node, args):
        same = inorder = rebuilds = False
        try:
            rr = node.__reduce__()
            same = rr[0] is type(node)
            got = tuple(rr[1])
            inorder = len(got) == len(args) and all((a is b) or (a == b and type(a) is type(b)) for a, b in zip(got, args))
            back = rr[0](*rr[1])
            rebuilds = (back == node) and hash(back) == hash(node) and type(back) is type(node)
        except BaseException as e:
            obs["notes"].append("%s.__reduce__ / rebuild: %s" % (cls_name, type(e).__name__))
        reduce_rows.append((cls_name, same, inorder, rebuilds))

    for cls in R.BinOpExpr.__subclasses__():
        red(cls.__name__, cls(P, 3), (P, 3))
    for cls in R.UnaryOpExpr.__subclasses__():
        red(cls.__name__, cls(P), (P,))
    red("LiteralExpr", R.LiteralExpr(3), (3,))
    red("BuiltinRef", R.BuiltinRef(P, round, (2,)), (P, round, (2,)))
    red("CallRef", R.CallRef(P, (Q, 1), {"k": 2}), (P, (Q, 1), (("k", 2),)))
    red("ItemRef", R.ItemRef(P, "k", m), (P, "k", m))
    red("AttrRef", R.AttrRef(P, "k", m), (P, "k", m))
    # container refs: what Manager.ref() and Manager.refattr() create
    box0 = {"a": 1}
    red("Ref", R.Ref(box0, "c0", m), (box0, "c0", m))
    red("ObjectAttrRef", R.ObjectAttrRef(box0, "c0", m), (box0, "c0", m))

    obs.update({"propagate": [p for p in propagate if not p[2]], "dunders": dunders, "classes": classes, "unary": unary, "builtin": builtin, "inplace": inplace,
                "deps": deps, "reduce": reduce_rows})
    with open(out_json, "w") as f:
        json.dump(obs, f, indent=1)

    # ---- Lean source ----
    def b(x):
        return "true" if x else "false"

    L = ["import XModel.RefsLift", "open Tables RefsTable", "namespace Generated", "", "def tbl : Full := {",
         "  bin := {",
         "    classes := [" + ", ".join("⟨%s, .%s, %s, %s⟩" % (lean_str(c), p, b(s), b(g)) for c, p, s, g in classes) + "],",
         "    dunders := [" + ", ".join("⟨%s, %s, .%s⟩" % (lean_str(d), lean_str(c), s) for d, c, s in dunders) + "] },",
         "  propagate := [" + ", ".join("⟨%s, %s, %s⟩" % (lean_str(c), lean_str(e), b(k)) for c, e, k in propagate) + "],",
         "  unary := [" + ", ".join("⟨%s, %s, .%s⟩" % (lean_str(d), lean_str(c), p) for d, c, p in unary) + "],",
         "  builtin := [" + ", ".join("⟨%s, %s, %d, %s⟩" % (lean_str(d), lean_str(o), n, b(p)) for d, o, n, p in builtin) + "],",
         "  inplace := [" + ", ".join("⟨%s, %s, %s, %s⟩" % (lean_str(d), b(pr), ("some .%s" % vp) if vp else "none",
                                                              ("some %s" % lean_str(ec)) if ec else "none")
                                     for d, pr, vp, ec in inplace) + "],",
         "  deps := [" + ", ".join("⟨%s, %s, %s, %s⟩" % (lean_str(c), lean_str(s), b(cv), b(st)) for c, s, cv, st in deps) + "],",
         "  reduce := [" + ", ".join("⟨%s, %s, %s, %s⟩" % (lean_str(c), b(x), b(y), b(z)) for c, x, y, z in reduce_rows) + "] }",
         ""]
    tails = {
        "C04": ["/-- the per-run obligation of Tie A for C04 -/",
                "theorem valid_ops : tbl.ValidOps = true := by decide",
                "",
                "/-- hence, for the working tree's tables: the homomorphism of C04 on the binary fragment -/",
                "theorem c04_lift {V : Type} (ops : PyOps V) (term : Term V) (hw : WFTerm term) :",
                "    ∃ node, build tbl.bin term = some node ∧ evalNode tbl.bin ops node = evalDirect ops term :=",
                "  build_eval tbl.bin (valid_bin tbl valid_ops) ops term hw",
                "",
                "/-- second per-run obligation: one class is one primitive (no two unary dunders share a class with different",
                "    primitives, the class of an in-place expression case is the guarded class of its primitive) -/",
                "theorem coherent : tbl.Coherent = true := by decide",
                "",
                "/-- hence the homomorphism on the FULL term language: all binary and reflected dunders, unary operators, builtins",
                "    with their parameters, in-place operators in the value and in the expression case -/",
                "theorem c04_lift_full {V : Type} (ops : RefsLift.PyOps2 V) (t : RefsLift.Term2 V) (hw : RefsLift.WF2 t) :",
                "    ∃ node, RefsLift.build2 tbl t = some node ∧ RefsLift.evalNode2 tbl ops node = RefsLift.evalDirect2 ops t :=",
                "  RefsLift.build_eval2 tbl valid_ops coherent ops t hw",
                "",
                "/-- the same with the node's classes shown to lie in the fixed class universe the validity test is closed over -/",
                "theorem c04_lift_universe {V : Type} (ops : RefsLift.PyOps2 V) (t : RefsLift.Term2 V) (hw : RefsLift.WF2 t) :",
                "    ∃ node, RefsLift.build2 tbl t = some node ∧ RefsLift.evalNode2 tbl ops node = RefsLift.evalDirect2 ops t ∧",
                "      RefsLift.nodeInUniverse node = true :=",
                "  RefsLift.build_eval2_universe tbl valid_ops coherent ops t hw"],
        "C05": ["/-- the per-run obligation of Tie A for C05 -/",
                "theorem valid_deps : tbl.ValidDeps = true := by decide",
                "",
                "/-- hence every tree over the listed (class, slot) pairs reports exactly the refs inside it -/",
                "theorem c05_lift (n : DNode) (h : wellSlotted tbl.deps n = true) : depsOf tbl.deps n = leafs n :=",
                "  deps_exact tbl.deps n h",
                "",
                "/-- and the value of such a tree depends only on the reported locations -/",
                "theorem c05_semantic {V : Type} (I : RefsLift.DSem V) (n : DNode) (hw : wellSlotted tbl.deps n = true)",
                "    (e1 e2 : Nat → V) (h : ∀ id ∈ depsOf tbl.deps n, e1 id = e2 id) : RefsLift.evalD I e1 n = RefsLift.evalD I e2 n :=",
                "  RefsLift.value_depends_only_on_reported tbl.deps I n hw e1 e2 h",
                "",
                "/-- with a hypothesis on the TREE alone (its classes and slots belong to the library's universe): the validity of the",
                "    regenerated table is what makes every such tree well slotted -/",
                "theorem c05_lift_universe (n : DNode) (h : InUniverse n = true) : depsOf tbl.deps n = leafs n :=",
                "  deps_exact_universe tbl valid_deps n h",
                "",
                "theorem c05_semantic_universe {V : Type} (I : RefsLift.DSem V) (n : DNode) (hu : InUniverse n = true)",
                "    (e1 e2 : Nat → V) (h : ∀ id ∈ depsOf tbl.deps n, e1 id = e2 id) : RefsLift.evalD I e1 n = RefsLift.evalD I e2 n :=",
                "  RefsLift.value_depends_only_on_reported_universe tbl valid_deps I n hu e1 e2 h"],
        "C12": ["/-- the per-run obligation of Tie A for C12 -/",
                "theorem valid_reduce : tbl.ValidReduce = true := by decide",
                "",
                "/-- hence pickling round-trips every object graph over the listed classes -/",
                "theorem c12_lift (sn : String → List String) (n : DNode) (h : picklable tbl.reduce sn n = true) :",
                "    unpickleN sn (pickleN tbl.reduce n) = n := unpickle_pickle tbl.reduce sn n h",
                "",
                "/-- with a hypothesis on the object graph alone (classes of the universe, constructor slots in order) -/",
                "theorem c12_lift_universe (n : DNode) (h : InUniverseCtor n = true) :",
                "    unpickleN ctorSlots (pickleN tbl.reduce n) = n := unpickle_pickle_universe tbl valid_reduce n h"],
    }
    base = out_lean[:-5] if out_lean.endswith(".lean") else out_lean
    for prop, tail in tails.items():
        with open("%s_%s.lean" % (base, prop), "w") as f:
            f.write("\n".join(L + tail + ["end Generated", ""]))


if __name__ == "__main__":
    main()
