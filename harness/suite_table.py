"""Checks built on the `table` suite: C07 C08 (C14 has its own worker family)."""
import suite as S


class TableSuite(S.Suite):
    name = "table"
    worker = "w_table.py"
    skip_keys = ("impl", "hist", "match")
    FAMILY = {"C07": "c07", "C08": "c08", "C14": "c14"}
    FIELDS = {"C07": {"bad-op", "exc", "val", "index"}, "C08": {"bad-op", "exc", "val"},
              "C14": {"bad-op", "exc", "val", "index", "cols", "nrows"}}
    SIZES = {"quick": {"C07": 2400, "C08": 1600, "C14": 1600}, "thorough": {"C07": 60000, "C08": 40000, "C14": 30000}}

    def family(self, prop):
        return self.FAMILY[prop]

    def fields(self, prop):
        return self.FIELDS[prop]

    def sizes(self, prop, tier):
        return self.SIZES[tier][prop], []

    def extra_argv(self, prop, tier, job, build_index):
        if prop == "C08" and job == 0 and build_index == 0:
            return ["--exhaustive", "4" if tier == "quick" else "5"]
        return []

    def builds(self, prop, tier):
        return ["pure"]      # table.py does not touch the compiled module

    def compare_line(self, line, model):
        if line.get("oracle_only"):
            return []          # an input outside the model's language (e.g. fractional range bounds): oracle only
        if line["op"] == "exprcol":
            return []          # numpy's elementwise arithmetic is a parameter of the model: oracle only
        if line["op"] == "derive" and line.get("then"):
            return []          # later assignments to the derived table are outside the model (oracle only)
        if line["op"] == "derive" and any(st[0] in ("transpose", "concatenate") for st in line["steps"]):
            # _t renders cells with numpy's str() and concatenate lists the common columns in set order: the shape is
            # compared (exception class, number of rows, the set of listed columns, rectangularity), not cell text / order
            if "bad-op" in model:
                return [("bad-op", None, model["bad-op"])]
            iv, mv = line["impl"].get("val") or {}, model.get("val") or {}
            a = (line["impl"].get("exc"), iv.get("nrows"), sorted(iv.get("cols") or []), iv.get("rect"))
            b = (model.get("exc"), mv.get("nrows"), sorted(mv.get("cols") or []), mv.get("rect"))
            return [] if a == b else [("val", list(a), list(b))]
        if "bad-op" in model:
            return [("bad-op", None, model["bad-op"])]
        impl = line["impl"]
        out = []
        for f in ("exc", "val", "index", "cols", "nrows"):
            if impl.get(f) != model.get(f):
                out.append((f, impl.get(f), model.get(f)))
        return out

    def nontrivial(self, stats, prop):
        if prop == "C07":
            return int(stats.get("c07_hits", 0) + stats.get("c07_keyerror_cases", 0))
        if prop == "C14":
            return int(stats.get("c14_derivations", 0) + stats.get("c14_exprcols", 0))
        return int(stats.get("c08_nonempty", 0))

    def rule(self, prop):
        if prop == "C07":
            return ("random interleavings of table mutations (cell writes by position and by name into the index column, "
                    "whole-column and attribute-style assignment, new / deleted columns) and look-ups in string and tuple "
                    "form through t[col,row], rows.get_index, t // row; index columns of 0..8 rows over a small alphabet so "
                    "repetition is common; non-trivial = a look-up whose scan reference is a position inside the table or KeyError")
        if prop == "C14":
            return ("chains of 1..4 derivations (row selection, column selection, +, *, _copy, _t, concatenate) on random tables with "
                    "int / float / string columns and scalar entries, arithmetic column expressions, column assignments in between; "
                    "non-trivial = one derivation step whose result was checked for rectangularity and whose source was snapshotted")
        return ("random tables (0..7 rows) x selectors of every documented form x indices/mask/rows, plus (job 0) every index "
                "column over a 3-name alphabet up to length 4 (quick) / 5 (thorough) against a fixed battery of selectors; "
                "non-trivial = the reference selection is non-empty")

    def trusted(self, prop):
        return ["correspondence harness harness/w_table.py", "numpy column storage and fancy indexing (parameter of the model)",
                "re.fullmatch(name, IGNORECASE) supplied as an oracle bit per row name, computed by the harness"]

    def assumptions(self, prop):
        return ["row names do not contain the separator strings (SepFree)", "offsets land inside the table",
                "updates go through the table API"]


def run(prop, tier, seed, replay=None):
    return S.run(TableSuite(), prop, tier, seed, replay)
