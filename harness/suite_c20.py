"""C20: the same programs under {compiled from the working tree, pure Python} x PYTHONHASHSEED must give one
canonical transcript (contents, definitions, dumped text, exception types), and every configuration
must correspond to the one Lean model."""
import json
import os

import common as C
import suite as S
import suite_mgr
import mgrlib_cmp as cmp


def transcript(lines):
    """per history: the canonical observation after every operation"""
    out = {}
    for o in lines:
        if o.get("light") or "store" not in o["impl"]:
            continue
        i = o["impl"]
        out.setdefault(o["hist"], []).append((o["op"], i["exc"], json.dumps(cmp.canon_val(i["store"])),
                                              json.dumps(cmp.canon_defs(i["defs"])), json.dumps(sorted(map(json.dumps, i.get("dump") or [])))))
    return out


def run(prop, tier, seed, replay=None):
    v = C.Verdict(prop, tier, seed)
    pure = C.build_pure()
    if replay:
        return S.do_replay(suite_mgr.Mgr(), prop, "c01", pure, replay)
    ok, log = C.lean_build()
    hits = C.grep_forbidden()
    thms, problems = ({}, []) if not ok else C.audit(prop)
    lean_problems = (["lake build failed: " + log[-1500:]] if not ok else []) + ["forbidden construct: " + h for h in hits] + problems
    compiled = C.build_compiled()
    seeds = [0, 1, 2, 3] if tier == "quick" else list(range(16))
    n_hist = 120 if tier == "quick" else 1500
    n_expr = 400 if tier == "quick" else 4000
    sc = C.scratch()
    configs = [(b, bd, hs) for b, bd in (("pure", pure), ("compiled", compiled)) for hs in seeds]
    jobs = []
    mgr, ex = suite_mgr.Mgr(), S.Suite()
    ex.worker = "w_expr.py"
    for b, bd, hs in configs:
        env = C.py_env(bd, hs)
        env["XDV_DUMP"] = "1"
        for fam in ("c01", "c03"):
            jobs.append((S.worker_argv(mgr, fam, seed * 1000 + 7, n_hist, os.path.join(sc, "c20_%s_%s_%d" % (fam, b, hs)), ["--maxops", "18"]), env))
        for fam in ("c04", "c06", "c11", "c12"):
            jobs.append((S.worker_argv(ex, fam, seed * 1000 + 7, n_expr, os.path.join(sc, "c20_%s_%s_%d" % (fam, b, hs)), ["--fixed"]), env))
    C.run_jobs(jobs)

    # the compiled configurations really ran the compiled module
    for b, bd, hs in configs:
        res = json.load(open(os.path.join(sc, "c20_c01_%s_%d.res.json" % (b, hs))))
        if res.get("build") != b:
            raise C.Infra("configuration %s ran as %s" % (b, res.get("build")))

    known_d1 = 0
    known_d30 = 0
    d30_samples = []
    nlines = 0
    diverging = []
    nhist = 0
    for fam in ("c01", "c03"):
        base_lines = S.load_lines(os.path.join(sc, "c20_%s_%s_%d.ops.jsonl" % (fam, configs[0][0], configs[0][2])))
        base = transcript(base_lines)
        nhist += len(base)
        # the model's verdict on order-dependence (declared cycle below the start set) for the base run
        acyc = {}
        if ok:
            pref = os.path.join(sc, "c20_%s_%s_%d" % (fam, configs[0][0], configs[0][2]))
            C.run_driver("mgr", pref + ".ops.jsonl", pref + ".model.jsonl")
            for o, m in zip(base_lines, S.load_lines(pref + ".model.jsonl")):
                if o["op"] in ("set", "setexpr", "iop"):
                    acyc.setdefault(o["hist"], []).append((m.get("hyp") or {}).get("acyclic", True))
        for b, bd, hs in configs[1:]:
            pref = os.path.join(sc, "c20_%s_%s_%d" % (fam, b, hs))
            lines = S.load_lines(pref + ".ops.jsonl")
            tr = transcript(lines)
            for h, rows in base.items():
                other = tr.get(h, [])
                if rows != other:
                    if not all(acyc.get(h, [True])):
                        known_d1 += 1      # the history contains an assignment whose declared graph is cyclic: D1
                    else:
                        k = next((i for i, (x, y) in enumerate(zip(rows, other)) if x != y), min(len(rows), len(other)))
                        diverging.append({"family": fam, "hist": h, "config": [b, hs], "base": [configs[0][0], configs[0][2]],
                                          "at_observation": k, "base_obs": rows[k][:2] if k < len(rows) else None,
                                          "other_obs": other[k][:2] if k < len(other) else None,
                                          "ops": S.history_ops(mgr, os.path.join(sc, "c20_%s_%s_%d" % (fam, configs[0][0], configs[0][2])), h)})
            # every configuration corresponds to the one model
            if ok:
                C.run_driver("mgr", pref + ".ops.jsonl", pref + ".model.jsonl")
                d, nl = S.compare(mgr, pref, {"bad-op", "exc", "store", "defs", "sup", "trace", "schedule"})
                nlines += nl
                for x in d:
                    diverging.append({"family": fam, "config": [b, hs], "model_vs_impl": x,
                                      "ops": S.history_ops(mgr, pref, x["hist"])})
    # expression-level transcripts: printed text, oracle verdicts
    expr_cases = 0
    rooteq_cases = rooteq_obs = 0
    for fam in ("c04", "c06", "c11", "c12"):
        def load(b, hs):
            pref = os.path.join(sc, "c20_%s_%s_%d" % (fam, b, hs))
            res = json.load(open(pref + ".res.json"))
            lines = S.load_lines(pref + ".ops.jsonl")
            texts = [o["impl"].get("text") for o in lines]
            vals = [o["impl"].get("val") for o in lines]
            vals0 = [o["impl"].get("val0") for o in lines]
            fails = sorted((f["hist"], f["property"], f["kind"]) for f in res["failures"])
            return texts, fails, res, vals, lines, vals0
        t0, f0, r0, v0, l0, z0 = load(configs[0][0], configs[0][2])
        expr_cases += len(t0)
        rooteq_cases += sum(1 for o in l0 if o.get("op") == "rooteq")
        rooteq_obs += int(r0["stats"].get("rooteq_observations", 0))
        for b, bd, hs in configs[1:]:
            t1, f1, r1, v1, l1, z1 = load(b, hs)
            if v1 != v0:
                # the values of the deferred expressions, bit for bit
                ks = [i for i, (x, y) in enumerate(zip(v0, v1)) if x != y]
                zero_sign_only = all(z0[i] == z1[i] for i in ks)
                if zero_sign_only and b != configs[0][0]:
                    known_d30 += 1      # KNOWN_FINDINGS.json D30: the compiled build loses / keeps the sign of a float zero
                    for i in ks:
                        smp = {"case": {k: x for k, x in l0[i].items() if k not in ("impl", "hist", "vals") or k == "vals"},
                               configs[0][0]: v0[i], b: v1[i]}
                        if smp not in d30_samples:
                            d30_samples.append(smp)
                else:
                    k = next(i for i in ks if z0[i] != z1[i]) if not zero_sign_only else ks[0]
                    diverging.append({"family": fam, "config": [b, hs], "base": [configs[0][0], configs[0][2]],
                                      "first_value_difference": [v0[k], v1[k]],
                                      "case": {kk: x for kk, x in l0[k].items() if kk not in ("impl", "hist")}})
                    if l0[k].get("op") == "rooteq":
                        # the transcript of a container-ref case is a table of named observations: name the ones that differ
                        oa, ob = json.loads(v0[k]), json.loads(v1[k])
                        diverging[-1]["observations_that_differ"] = {nm: [oa.get(nm), ob.get(nm)] for nm in sorted(set(oa) | set(ob))
                                                                     if oa.get(nm) != ob.get(nm)}
                        del diverging[-1]["first_value_difference"]
            if t1 != t0 or f1 != f0:
                k = next((i for i, (x, y) in enumerate(zip(t0, t1)) if x != y), None)
                diverging.append({"family": fam, "config": [b, hs], "base": [configs[0][0], configs[0][2]],
                                  "first_text_difference": None if k is None else [t0[k], t1[k]],
                                  "oracle_verdicts": [f0[:3], f1[:3]]})
        for f in r0["failures"]:
            if f["property"] in ("C04", "C06", "C11", "C12"):
                diverging.append({"family": fam, "oracle_failure_in_base_configuration": f})

    if known_d1:
        v.failing_input({"known": "D1", "kind": "order-dependent"}, {})
    if known_d30:
        v.failing_input({"known": "D30", "kind": "zero-sign-differs-between-builds"}, {"samples": d30_samples[:3]})
    for d in diverging[:3]:
        if "ops" in d:
            v.failing_input({"kind": "configurations-differ", "detail": {k: x for k, x in d.items() if k != "ops"}},
                            {"suite": "mgr", "family": d.get("family"), "ops": d["ops"], "configurations": d})
        else:
            v.failing_input({"kind": "configurations-differ", "detail": d}, {"configurations": d})
    if not v.violations and lean_problems:
        v.broken("lean: " + "; ".join(lean_problems)[:600], {"theorem_or_obligation": lean_problems[:5]})
    C.proof_coverage(v, thms, extra_tb=["Cython's compilation of refs.py (both builds are compared with each other and with the model, never proved equal)",
                                        "harness/w_mgr.py, harness/w_expr.py"])
    v.coverage.update({"evaluations": (nhist * 2 + expr_cases) * len(configs), "distinct_nontrivial": nhist + expr_cases,
                       "rule": "the c01/c03 manager histories and the c04/c11/c12 expression cases of one generator seed, executed under every "
                               "configuration of {pure, compiled from the working tree} x PYTHONHASHSEED %s; non-trivial = a history / case; "
                               "each configuration's transcript is compared with the first one and with the model" % seeds,
                       "samples": [{"configurations": [[b, hs] for b, bd, hs in configs]}],
                       "traces_validated_against_impl": nlines, "configurations": len(configs),
                       "histories_order_dependent_D1": known_d1, "configurations_with_zero_sign_difference_D30": known_d30,
                       "D30_samples": d30_samples[:3], "diverging": len(diverging), "lean_problems": lean_problems})
    # top-level container refs (Manager.refattr() / Manager.ref()) compared, hashed, looked up, ordered inside definitions:
    # cases of the c06 corpus whose whole observation table is part of the transcript compared between configurations
    v.coverage.update({"container_ref_cases": rooteq_cases, "container_ref_observations_per_configuration": rooteq_obs})
    v.assumptions = ["the generator is deterministic for a given VERIF_SEED (no iteration over sets)"]
    return v.finish()
