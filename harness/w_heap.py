"""Worker for C12's independence clause: container objects with arbitrary sharing and cycles, held by a real Manager,
around a real pickle.loads(pickle.dumps(manager)); an interleaved program of assignments made through the original
manager's references and through the restored manager's references.

For the model (XModel/PickleHeap.lean, suite `heap`) each case records the canonical form — objects numbered in
first-visit (pickle memo) order by id(), references as those numbers — of the original containers, of the restored ones
right after unpickling, and of both sides after the program.  Direct oracles (the failing-input search): the restored
containers are isomorphic to the originals including sharing; no container object is reachable from both sides; after
the program each side holds exactly what its own assignments produce on a manager that was never pickled.

usage: w_heap.py --family c12 --seed S --n N --out PREFIX [--replay FILE] [--fixed]
"""
import argparse
import json
import pickle
import random
import time

import xdeps

KEYS = ["a", "b", "x", "y", 0, 1, 2]


def build(spec):
    """real objects for a heap description: containers first, members afterwards (sharing and cycles are allowed)"""
    objs = [{} if o[0] == "d" else [] for o in spec]
    for o, c in zip(spec, objs):
        if o[0] == "d":
            for k, v in o[1]:
                c[k] = v[1] if v[0] == "n" else objs[v[1]]
        else:
            for v in o[1]:
                c.append(v[1] if v[0] == "n" else objs[v[1]])
    return objs


def canon(roots):
    """objects reachable from the roots numbered in first-visit order (explicit stack, members pushed in member order in
    front of the rest — the order in which pickle memoises), references written as those numbers"""
    order, num = [], {}
    stack = list(roots)
    while stack:
        o = stack.pop(0)
        if id(o) in num:
            continue
        num[id(o)] = len(order)
        order.append(o)
        members = list(o.values()) if isinstance(o, dict) else list(o)
        stack = [m for m in members if isinstance(m, (dict, list))] + stack
    def val(m):
        return ["r", num[id(m)]] if isinstance(m, (dict, list)) else ["n", m]
    out = []
    for o in order:
        if isinstance(o, dict):
            out.append(["d", [[k, val(m)] for k, m in o.items()]])
        else:
            out.append(["l", [val(m) for m in o]])
    return {"objs": out, "roots": [num[id(r)] for r in roots]}, set(num)


def manager_over(objs, roots):
    m = xdeps.Manager()
    refs = [m.ref(objs[a], "c%d" % i) for i, a in enumerate(roots)]
    return m, refs


def assign(ref, path, val):
    """ref[k1][k2]... = val through the manager's references; False when the statement raises"""
    try:
        r = ref
        for k in path[:-1]:
            r = r[k]
        r[path[-1]] = val
        return True
    except (KeyError, IndexError, TypeError, AttributeError):
        return False


def run_case(case, fail, stats):
    spec, roots, prog = case["heap"], case["roots"], case["prog"]
    objs = build(spec)
    m, refs = manager_over(objs, roots)
    orig_roots = [objs[a] for a in roots]
    impl = {}
    impl["canon0"], _ = canon(orig_roots)
    try:
        m2 = pickle.loads(pickle.dumps(m))
    except Exception as e:
        fail("C12", "manager-over-containers-does-not-pickle", {"exc": type(e).__name__, "heap": spec, "roots": roots})
        case["_impl"] = None
        return
    refs2 = [m2.containers["c%d" % i] for i in range(len(roots))]
    copy_roots = [r._owner for r in refs2]
    impl["canon_copy"], ids_c = canon(copy_roots)
    _, ids_o = canon(orig_roots)
    stats["objects"] = stats.get("objects", 0) + len(ids_o)
    stats["shared_or_cyclic"] = stats.get("shared_or_cyclic", 0) + int(sum(1 for o in impl["canon0"]["objs"] for v in (o[1] if o[0] == "l" else [kv[1] for kv in o[1]]) if v[0] == "r") >= len(ids_o))
    if impl["canon_copy"] != impl["canon0"]:
        fail("C12", "restored-containers-not-isomorphic", {"heap": spec, "roots": roots, "original": impl["canon0"], "restored": impl["canon_copy"]})
    if ids_o & ids_c:
        fail("C12", "restored-manager-shares-an-object-with-the-original", {"heap": spec, "roots": roots})
    done = []
    for side, idx, path, val in prog:
        ok = assign((refs if side == "o" else refs2)[idx], path, val)
        done.append(ok)
        stats["assignments"] = stats.get("assignments", 0) + 1
        stats["assignments_raising"] = stats.get("assignments_raising", 0) + (not ok)
    impl["final_orig"], ids_o2 = canon(orig_roots)
    impl["final_copy"], ids_c2 = canon(copy_roots)
    if ids_o2 & ids_c2:
        fail("C12", "sides-share-an-object-after-assignments", {"heap": spec, "roots": roots, "prog": prog})
    # each side against a manager that was never pickled and received that side's assignments only
    for side, key in (("o", "final_orig"), ("c", "final_copy")):
        objs3 = build(spec)
        m3, refs3 = manager_over(objs3, roots)
        for s, idx, path, val in prog:
            if s == side:
                assign(refs3[idx], path, val)
        want, _ = canon([objs3[a] for a in roots])
        if want != impl[key]:
            fail("C12", "assignments-to-one-manager-changed-the-other" if True else "", {
                "heap": spec, "roots": roots, "prog": prog, "side": "original" if side == "o" else "restored",
                "holds": impl[key], "its-own-assignments-alone-give": want})
            break
    try:
        m.verify()
        m2.verify()
    except Exception as e:
        fail("C12", "verify-fails-after-pickle", {"exc": type(e).__name__})
    case["_impl"] = impl


def gen_case(rng):
    n = rng.randint(1, 7)
    spec = []
    for a in range(n):
        kind = rng.choice(["d", "d", "l"])
        k = rng.randint(0, 4)
        def member():
            if rng.random() < 0.45:
                return ["r", rng.randrange(n)]
            return ["n", rng.randint(-5, 9)]
        if kind == "d":
            keys = rng.sample(KEYS, min(k, len(KEYS)))
            spec.append(["d", [[key, member()] for key in keys]])
        else:
            spec.append(["l", [member() for _ in range(k)]])
    roots = [rng.randrange(n) for _ in range(rng.randint(1, 3))]
    prog = []
    for _ in range(rng.randint(0, 6)):
        side = rng.choice(["o", "c"])
        idx = rng.randrange(len(roots))
        # a path that follows existing members most of the time
        path, a = [], roots[idx]
        for depth in range(rng.randint(1, 3)):
            o = spec[a]
            if o[0] == "d":
                ks = [kv[0] for kv in o[1]]
                k = rng.choice(ks) if ks and rng.random() < 0.8 else rng.choice(KEYS)
                nxt = dict((json.dumps(kk), v) for kk, v in o[1]).get(json.dumps(k))
            else:
                k = rng.randrange(len(o[1])) if o[1] and rng.random() < 0.85 else rng.choice([0, 1, 5, "a"])
                nxt = o[1][k] if isinstance(k, int) and 0 <= k < len(o[1]) else None
            path.append(k)
            if nxt is None or nxt[0] != "r":
                break
            a = nxt[1]
        prog.append([side, idx, path, rng.randint(10, 99)])
    return {"heap": spec, "roots": roots, "prog": prog}


FIXED = [
    # a dict shared by two containers (diamond), a list containing itself, an unreachable object
    {"heap": [["d", [["a", ["r", 2]], ["n", ["n", 1]]]], ["d", [["b", ["r", 2]]]], ["d", [["x", ["n", 7]]]],
              ["l", [["r", 3], ["n", 4]]], ["d", [["z", ["n", 0]]]]],
     "roots": [0, 1, 3],
     "prog": [["o", 0, ["a", "x"], 99], ["c", 1, ["b", "y"], 5], ["c", 2, [0], 6], ["o", 2, [1], 8], ["o", 1, ["b", "x"], 11],
              ["c", 0, ["q", "x"], 1], ["o", 2, [7], 3]]},
    # the same container registered under two labels
    {"heap": [["d", [["k", ["n", 1]]]]], "roots": [0, 0], "prog": [["o", 0, ["k"], 5], ["c", 1, ["k"], 6], ["c", 0, ["j"], 7]]},
    # mutual references
    {"heap": [["d", [["p", ["r", 1]]]], ["d", [["q", ["r", 0]], ["v", ["n", 2]]]]], "roots": [0],
     "prog": [["o", 0, ["p", "q", "p", "v"], 9], ["c", 0, ["p", "v"], 4]]},
]


def main():
    ap = argparse.ArgumentParser()
    ap.add_argument("--family", default="c12")
    ap.add_argument("--seed", type=int, default=0)
    ap.add_argument("--n", type=int, default=100)
    ap.add_argument("--out", required=True)
    ap.add_argument("--replay", default=None)
    ap.add_argument("--fixed", action="store_true")
    a = ap.parse_args()
    rng = random.Random(a.seed * 1000003 + 12)
    t0 = time.time()
    stats = dict(ops=0, histories=0)
    failures, lines = [], []
    if a.replay:
        cases = [c for ops in json.load(open(a.replay)) for c in ops]
    else:
        cases = [json.loads(json.dumps(c)) for c in FIXED] if a.fixed else []
        cases += [gen_case(rng) for _ in range(a.n)]
    for i, case in enumerate(cases):
        def fail(prop, kind, detail, known=None, i=i):
            failures.append({"property": prop, "kind": kind, "hist": i, "op_index": 0, "detail": detail, "known": known})
        stats["ops"] += 1
        stats["histories"] += 1
        run_case(case, fail, stats)
        line = {k: v for k, v in case.items() if not k.startswith("_")}
        line["op"] = "case"
        line["hist"] = i
        line["impl"] = case.get("_impl")
        lines.append(line)
    with open(a.out + ".ops.jsonl", "w") as f:
        for ln in lines:
            f.write(json.dumps(ln) + "\n")
    stats["wall_s"] = time.time() - t0
    with open(a.out + ".res.json", "w") as f:
        json.dump({"stats": stats, "failures": failures}, f)


if __name__ == "__main__":
    main()
