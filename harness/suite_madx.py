"""C19: the MAD-X grammar model (parser correspondence with lark), the evaluator-agreement theorem,
Tie A on the transformer's callbacks, and the three-way oracle deferred / immediate / Python."""
import json
import operator
import os
import struct

import common as C
import suite as S

SIZES = {"quick": (3000, 4), "thorough": (60000, 7)}


class MadxSuite(S.Suite):
    name = "madx"
    worker = "w_madx.py"
    skip_keys = ("impl", "hist", "op", "tokens", "stmt_tokens", "plain", "elems", "updates")


def model_outcome(v):
    """a value of the driver's statement op in the form `w_madx.outcome` gives the implementation's numbers:
    `float.hex()` of the double, "nan" for every NaN"""
    if v is None:
        return ["exc", "KeyError"]
    if v == "nan":
        return ["ok", "nan"]
    return ["ok", struct.unpack("<d", bytes.fromhex(v))[0].hex()]


def compare_assign(o, m, counts):
    """statement lists: the real `MadxEval` (deferred through the manager / immediate, re-run from scratch) against
    `runDef` + `DState.update` / `runImm` of XModel/MadxAssign.lean, step by step and variable by variable"""
    impl = o["impl"]["assign"]
    if "bad-op" in m or "assign" not in m:
        return {"text": o["text"], "model": m.get("bad-op", "no answer")}
    a = m["assign"]
    if not a.get("parsed"):
        return {"text": o["text"], "model": "parseStmt rejects a statement lark accepts"}
    if sorted(set(a["targets"])) != sorted(set(impl["targets"])):
        return {"text": o["text"], "model_targets": a["targets"], "impl_targets": impl["targets"]}
    counts["assign_lines"] += 1
    scope = a["wo"] and a["updates_outside_assigned"]
    counts["assign_in_scope"] += bool(scope)
    for k, (si, sm) in enumerate(zip(impl["steps"], a["steps"])):
        for side in ("imm", "def"):
            if side == "def" and not scope:
                continue        # list order is the manager's order on WellOrdered lists only (C19_assign_push_model)
            got = sm[side]
            if "exc" in got:
                if got["exc"] == "unsupported":
                    counts["assign_unsupported"] += 1
                    continue
                if side == "def" and got["exc"] == "ZeroDivisionError":
                    continue
                return {"text": o["text"], "step": k, "side": side, "model": got, "impl": si[side]}
            for t in impl["targets"]:
                counts["assign_values"] += 1
                if model_outcome(got["ok"].get(t)) != list(si[side][t]):
                    return {"text": o["text"], "step": k, "side": side, "variable": t,
                            "model": model_outcome(got["ok"].get(t)), "impl": si[side][t]}
    if len(a["steps"]) < len(impl["steps"]):
        return {"text": o["text"], "model": "fewer steps than the implementation made"}
    return None


TIE_A = r'''
import json, sys, math, re
from lark import Tree
from xdeps import madxutils as MU

class Tag:
    def __init__(s, n): s.n = n
    def __repr__(s): return s.n
def mk(op):
    return lambda self, *a: ("call", op, repr(self)) + tuple(repr(x) for x in a)
for op in ["add", "sub", "mul", "truediv", "pow", "neg", "pos", "radd", "rsub", "rmul", "rtruediv", "rpow"]:
    setattr(Tag, "__%s__" % op, mk(op))
ev = MU.MadxEval({}, math, {})
A, B = Tag("A"), Tag("B")
want = {"add": ("call", "add", "A", "B"), "sub": ("call", "sub", "A", "B"), "mul": ("call", "mul", "A", "B"),
        "div": ("call", "truediv", "A", "B"), "pow": ("call", "pow", "A", "B"),
        "neg": ("call", "neg", "A"), "pos": ("call", "pos", "A")}
rows = {}
for alias, w in want.items():
    kids = [A, B] if len(w) == 4 else [A]
    try:
        rows[alias] = ev.transform(Tree(alias, kids)) == w
    except Exception as e:
        rows[alias] = False
try:
    rows["number"] = ev.transform(Tree("number", ["1.5e1"])) == 15.0 and isinstance(ev.transform(Tree("number", ["2"])), float)
except Exception:
    rows["number"] = False
aliases = sorted(set(re.findall(r"->\s*(\w+)", MU.calc_grammar)))
json.dump({"callbacks": rows, "aliases": aliases}, open(sys.argv[1], "w"))
'''


def run(prop, tier, seed, replay=None):
    v = C.Verdict(prop, tier, seed)
    pure = C.build_pure()
    suite = MadxSuite()
    if replay:
        return S.do_replay_cases(suite, prop, "c19", pure, replay)
    ok, log = C.lean_build()
    hits = C.grep_forbidden()
    thms, problems = ({}, []) if not ok else C.audit(prop)
    lean_problems = (["lake build failed: " + log[-1500:]] if not ok else []) + ["forbidden construct: " + h for h in hits] + problems
    sc = C.scratch()
    # Tie A: every alias of the grammar is bound to the Python operator the model assumes
    tfile = os.path.join(sc, "madx_tie.json")
    C.run_jobs([([C.PY, "-c", TIE_A, tfile], C.py_env(pure, 0))])
    tie = json.load(open(tfile))
    expected_aliases = ["add", "assign_var", "call", "div", "getitem", "mul", "neg", "number", "pos", "pow", "sub", "var"]
    tie_problems = [k for k, good in tie["callbacks"].items() if not good]
    if tie["aliases"] != expected_aliases:
        tie_problems.append("aliases: %s" % tie["aliases"])

    n, depth = SIZES[tier]
    jobs, prefixes = [], []
    per_job = max(1, n // C.NPROC)
    for j in range(C.NPROC):
        pref = os.path.join(sc, "C19_%d" % j)
        extra = ["--depth", str(depth)] + (["--fixed"] if j == 0 else [])
        jobs.append((S.worker_argv(suite, "c19", seed * 1000 + j, per_job, pref, extra), C.py_env(pure, (seed * 31 + j) % 1000)))
        prefixes.append(pref)
    C.run_jobs(jobs)
    stats_total, failures = {}, []
    for pref in prefixes:
        res = json.load(open(pref + ".res.json"))
        for k, val in res["stats"].items():
            if isinstance(val, (int, float)):
                stats_total[k] = stats_total.get(k, 0) + val
        failures += [(pref, fl) for fl in res["failures"] if fl["property"] == prop]
    diffs, nlines = [], 0
    adiffs, acounts = [], {"assign_lines": 0, "assign_in_scope": 0, "assign_values": 0, "assign_unsupported": 0}
    if ok:
        for pref in prefixes:
            C.run_driver("madx", pref + ".ops.jsonl", pref + ".model.jsonl")
            for o, m in zip(S.load_lines(pref + ".ops.jsonl"), S.load_lines(pref + ".model.jsonl")):
                if o.get("stmt_tokens") is not None:
                    nlines += 1
                    d = compare_assign(o, m, acounts)
                    if d is not None:
                        adiffs.append(d)
                    continue
                if o.get("tokens") is None:
                    continue
                nlines += 1
                if "bad-op" in m or m.get("tree") != o["impl"]["tree"]:
                    diffs.append({"text": o["text"], "lark": o["impl"]["tree"], "model": m.get("tree", m.get("bad-op"))})
    seen = set()
    for pref, fl in failures:
        if fl["kind"] in seen:
            continue
        seen.add(fl["kind"])
        v.failing_input(fl, {"suite": "madx", "family": "c19", "ops": S.history_ops(suite, pref, fl["hist"])})
    if not v.violations:
        if lean_problems:
            v.broken("lean: " + "; ".join(lean_problems)[:600], {"theorem_or_obligation": lean_problems[:5]})
        if tie_problems:
            v.broken("Tie A: a grammar alias is not bound to the Python operator the model assumes", {"obligation": tie_problems, "observed": tie})
        if diffs:
            v.broken("correspondence: the model's parser and lark build different trees", {"first_divergence": diffs[0], "n": len(diffs)})
        if adiffs:
            v.broken("correspondence: statement lists — the variables MadxEval assigns (deferred through the manager / immediate) "
                     "differ from runDef / runImm of the model", {"first_divergence": adiffs[0], "n": len(adiffs)})
    samples = [o["text"] for o in S.load_lines(prefixes[-1] + ".ops.jsonl")[:10]]
    C.proof_coverage(v, thms, generated_obligations=len(tie["callbacks"]) + 1,
                     generated_ok=len(tie["callbacks"]) + 1 - len(tie_problems),
                     extra_tb=["lark's lexer (token stream is an input of the model's parser)", "harness/w_madx.py oracles",
                               "C04's homomorphism for the deferred nodes built by the callbacks"])
    v.coverage.update({"evaluations": int(stats_total.get("ops", 0)), "distinct_nontrivial": int(stats_total.get("parsed", 0)),
                       "rule": "strings derived from calc_grammar to depth %d (sums, products, powers with ^ and **, unary signs, every NUMBER form, "
                               "dotted names, element->attribute in item and attribute mode, one- and two-argument calls) plus the fixed list; "
                               "seq_* = cases of 2-5 strings through ONE fresh evaluator over variables spelled like element->attribute paths "
                               "(`el.l` with `el->l`, `el.l->x` with `el->l.x`), three-way agreement when built, after each update, rebuilt, and of bound variables; "
                               "non-trivial = lark parses the string" % depth,
                       "samples": samples, "traces_validated_against_impl": nlines, "correspondence_divergences": len(diffs) + len(adiffs),
                       "statement_lists": dict(acounts, rule="assign_in_scope = lines on which the driver's WellOrdered test (hypothesis of "
                                               "C19_assign_deferred_eq_immediate / _follows_updates) holds; deferred values are compared on those, "
                                               "immediate values on all; assign_unsupported = steps using a function the driver's float algebra "
                                               "does not have (hypot, fmod, complex powers)"),
                       "oracle_failures": len(failures), "tie_a": tie, "input_distribution": dict(sorted(stats_total.items())),
                       "lean_problems": lean_problems})
    v.assumptions = ["lark's lexer; the functions module and ** are used on arguments where they do not raise ZeroDivisionError (DivOnly)"]
    return v.finish()
