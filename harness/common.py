"""Shared machinery of the checks: scratch builds of /repo's working tree, the Lean side (build,
audit, driver), parallel workers, known findings, evidence, verdict."""
import atexit
import concurrent.futures as cf
import fcntl
import hashlib
import json
import os
import re
import shutil
import subprocess
import sys
import tempfile
import time

VERIF = os.path.dirname(os.path.dirname(os.path.abspath(__file__)))
HARNESS = os.path.join(VERIF, "harness")
LEAN = os.path.join(VERIF, "lean")
REPO = os.environ.get("XDEPS_REPO", "/repo")
PY = os.environ.get("XDEPS_PYTHON", "/venv/bin/python")
XDRIVER = os.path.join(LEAN, ".lake", "build", "bin", "xdriver")
NPROC = min(16, os.cpu_count() or 4)
ALLOWED_AXIOMS = {"propext", "Classical.choice", "Quot.sound"}
TIER = "quick"

_scratch = None


class Infra(Exception):
    """an infrastructure failure: exit 2, never a VIOLATION line"""


def scratch():
    global _scratch
    if _scratch is None:
        base = os.environ.get("XDEPS_SCRATCH") or ("/var/tmp" if os.path.isdir("/var/tmp") else tempfile.gettempdir())
        # scratch directories of runs that were killed (no atexit): their owner's pid is in the name
        for d in os.listdir(base):
            m = re.match(r"xdverif_p(\d+)_", d)
            if m and not os.path.exists("/proc/%s" % m.group(1)):
                shutil.rmtree(os.path.join(base, d), True)
        _scratch = tempfile.mkdtemp(prefix="xdverif_p%d_" % os.getpid(), dir=base)
        atexit.register(shutil.rmtree, _scratch, True)
    return _scratch


def build_pure():
    """the working tree's Python sources only: refs.py runs interpreted"""
    dst = os.path.join(scratch(), "pure")
    if os.path.isdir(dst):
        return dst
    os.makedirs(os.path.join(dst, "xdeps", "optimize"))
    for sub in ("", "optimize"):
        src = os.path.join(REPO, "xdeps", sub)
        for f in os.listdir(src):
            if f.endswith(".py"):
                shutil.copy(os.path.join(src, f), os.path.join(dst, "xdeps", sub, f))
    return dst


def build_compiled():
    """the same sources with refs.py cythonized from the working tree (not the stale in-tree .so)"""
    dst = os.path.join(scratch(), "compiled")
    if os.path.isdir(dst):
        return dst
    pure = build_pure()
    shutil.copytree(pure, dst)
    script = ("from setuptools import setup, Extension\n"
              "from Cython.Build import cythonize\n"
              "setup(name='x', ext_modules=cythonize([Extension('xdeps.refs', ['xdeps/refs.py'])], "
              "language_level=3, quiet=True), script_args=['build_ext', '--inplace', '-q'])\n")
    env = dict(os.environ, CFLAGS="-O0")
    r = subprocess.run([PY, "-c", script], cwd=dst, env=env, capture_output=True, text=True, timeout=600)
    ok = any(f.startswith("refs.") and f.endswith(".so") for f in os.listdir(os.path.join(dst, "xdeps")))
    if r.returncode != 0 or not ok:
        raise Infra("cythonize failed: " + (r.stderr or r.stdout)[-2000:])
    return dst


def py_env(build_dir, hashseed=None):
    env = dict(os.environ)
    env["PYTHONPATH"] = build_dir + os.pathsep + HARNESS
    env.pop("XSUITE_XDEPS_VERIF", None)
    if hashseed is not None:
        env["PYTHONHASHSEED"] = str(hashseed)
    env["PYTHONDONTWRITEBYTECODE"] = "1"
    env["PYTHONINTMAXSTRDIGITS"] = "0"      # histories of repeated products reach ints of thousands of digits
    return env


class LibraryRaised(Infra):
    """a worker died of an exception raised INSIDE the library (the frames after the last harness frame are library code):
    on a tree where the checks used to run this is a change of behaviour the harness has no oracle for — reported as a
    broken correspondence (VIOLATION … no-failing-input-found), not as an infrastructure failure"""

    def __init__(self, argv, stderr):
        Infra.__init__(self, "worker died inside the library: %s\n%s" % (" ".join(argv[-8:]), stderr[-3000:]))
        self.argv, self.stderr = list(argv), stderr


def raised_in_library(stderr):
    frames = re.findall(r'File "([^"]+)", line \d+, in', stderr or "")
    if not frames:
        return False
    last_h = max([i for i, f in enumerate(frames) if "/harness/" in f] or [-1])
    tail = frames[last_h + 1:]
    return bool(tail) and any(("/xdeps/" in f or f.startswith("xdeps/")) for f in tail)


def run_jobs(jobs, timeout=600):
    """jobs: list of (argv, env); run in parallel; returns list of CompletedProcess"""
    def one(job):
        argv, env = job
        return subprocess.run(argv, env=env, capture_output=True, text=True, timeout=timeout, cwd=scratch())
    with cf.ThreadPoolExecutor(max_workers=NPROC) as ex:
        res = list(ex.map(one, jobs))
    for (argv, _), r in zip(jobs, res):
        if r.returncode != 0:
            if raised_in_library(r.stderr):
                raise LibraryRaised(argv, r.stderr)
            raise Infra("worker failed: %s\n%s" % (" ".join(argv[-8:]), (r.stderr or r.stdout)[-3000:]))
    return res


# ----------------------------------------------------------------------------
# Lean side
# ----------------------------------------------------------------------------
class LeanLock:
    def __enter__(self):
        self.f = open(os.path.join(LEAN, ".verif.lock"), "w")
        fcntl.flock(self.f, fcntl.LOCK_EX)
        return self

    def __exit__(self, *a):
        fcntl.flock(self.f, fcntl.LOCK_UN)
        self.f.close()


FORBIDDEN = re.compile(r"\b(sorry|admit|native_decide|bv_decide|implemented_by|unsafe)\b|^\s*axiom\s|maxHeartbeats\s+0")


def lean_sources():
    out = []
    for root, dirs, files in os.walk(LEAN):
        dirs[:] = [d for d in dirs if d != ".lake"]
        for f in files:
            if f.endswith(".lean"):
                out.append(os.path.join(root, f))
    return sorted(out)


def strip_comments(text):
    text = re.sub(r"/-.*?-/", " ", text, flags=re.S)
    return re.sub(r"--.*", "", text)


def grep_forbidden():
    hits = []
    for p in lean_sources():
        body = strip_comments(open(p).read())
        for i, line in enumerate(body.splitlines(), 1):
            if FORBIDDEN.search(line):
                hits.append("%s:%d: %s" % (os.path.relpath(p, LEAN), i, line.strip()[:120]))
    return hits


def lean_build():
    """`lake build` (a no-op when nothing changed); returns (ok, log)"""
    with LeanLock():
        r = subprocess.run(["lake", "build"], cwd=LEAN, capture_output=True, text=True, timeout=3000)
    return r.returncode == 0 and os.path.exists(XDRIVER), (r.stdout + r.stderr)


def lean_run(relfile, timeout=900):
    """elaborate one file against the built libraries; returns (ok, output)"""
    with LeanLock():
        r = subprocess.run(["lake", "env", "lean", relfile], cwd=LEAN, capture_output=True, text=True, timeout=timeout)
    return r.returncode == 0, r.stdout + r.stderr


def audit(prop):
    """#print axioms for every property theorem of `prop`; returns dict theorem -> axioms, and problems"""
    rel = os.path.join("Audit", prop + ".lean")
    if not os.path.exists(os.path.join(LEAN, rel)):
        return {}, ["no audit file for " + prop]
    ok, out = lean_run(rel)
    thms = {}
    problems = []
    for m in re.finditer(r"'([^']+)' depends on axioms: \[([^\]]*)\]", out):
        ax = set(a.strip() for a in m.group(2).replace("\n", " ").split(",") if a.strip())
        thms[m.group(1)] = sorted(ax)
        if not ax <= ALLOWED_AXIOMS:
            problems.append("%s uses %s" % (m.group(1), sorted(ax - ALLOWED_AXIOMS)))
    for m in re.finditer(r"'([^']+)' does not depend on any axioms", out):
        thms[m.group(1)] = []
    if not ok:
        problems.append("audit file does not check: " + out[-1500:])
    if TIER == "thorough" and not problems:
        # the toolchain's independent re-checker replays the compiled declarations of the property module
        # (and everything it imports) through the kernel
        with LeanLock():
            r = subprocess.run(["lake", "env", "leanchecker", "XProofs.Properties." + prop], cwd=LEAN,
                               capture_output=True, text=True, timeout=3000)
        if r.returncode != 0:
            problems.append("leanchecker rejects XProofs.Properties.%s: %s" % (prop, (r.stdout + r.stderr)[-800:]))
        else:
            thms["(leanchecker XProofs.Properties.%s)" % prop] = ["re-checked"]
    return thms, problems


def run_driver(suite, infile, outfile):
    with open(infile) as fi, open(outfile, "w") as fo:
        r = subprocess.run([XDRIVER, suite], stdin=fi, stdout=fo, stderr=subprocess.PIPE, text=True, timeout=3000)
    if r.returncode != 0:
        raise Infra("xdriver %s failed: %s" % (suite, r.stderr[-2000:]))


# ----------------------------------------------------------------------------
# known findings, replays, evidence, verdict
# ----------------------------------------------------------------------------
def known_findings():
    p = os.path.join(VERIF, "KNOWN_FINDINGS.json")
    if not os.path.exists(p):
        return []
    return json.load(open(p))["findings"]


def write_replay(prop, tier, seed, n, payload):
    d = os.path.join(VERIF, "replays")
    os.makedirs(d, exist_ok=True)
    path = os.path.join(d, "%s-%s-%d-%d.json" % (prop, tier, seed, n))
    payload = dict(payload)
    payload.update({"property": prop, "tier": tier, "seed": seed,
                    "how_to_run": "./check %s --replay %s" % (prop, os.path.relpath(path, VERIF))})
    with open(path, "w") as f:
        json.dump(payload, f, indent=1)
    return os.path.relpath(path, VERIF)


class Verdict:
    def __init__(self, prop, tier, seed):
        self.prop, self.tier, self.seed = prop, tier, seed
        self.t0 = time.time()
        self.violations = []      # (replay_path, note, no_failing_input)
        self.known = {}           # finding id -> what
        self.coverage = {}
        self.assumptions = []
        self.nrep = 0
        self.kf = {f["id"]: f for f in known_findings() if f["property"] == prop}

    def failing_input(self, failure, payload):
        """an oracle failure: known finding or violation"""
        kid = failure.get("known")
        if kid and kid in self.kf and self.kf[kid]["status"] == "known":
            self.known.setdefault(kid, self.kf[kid]["what"])
            return
        self.nrep += 1
        path = write_replay(self.prop, self.tier, self.seed, self.nrep, dict(payload, kind="oracle", failure=failure))
        self.violations.append((path, failure.get("kind", ""), False))

    def broken(self, what, payload):
        """a proof obligation / audit / correspondence that no longer checks, with no failing input found"""
        self.nrep += 1
        path = write_replay(self.prop, self.tier, self.seed, self.nrep, dict(payload, kind="broken", what=what))
        self.violations.append((path, what, True))

    def finish(self, level="proof"):
        ev = {"property_id": self.prop, "tier": self.tier, "seed": self.seed, "level": level,
              "coverage": self.coverage, "assumptions": self.assumptions,
              "wall_s": round(time.time() - self.t0, 2), "violations": len(self.violations),
              "known_findings_reproduced": sorted(self.known)}
        os.makedirs(os.path.join(VERIF, "evidence"), exist_ok=True)
        with open(os.path.join(VERIF, "evidence", self.prop + ".json"), "w") as f:
            json.dump(ev, f, indent=1)
        for kid, what in sorted(self.known.items()):
            print("KNOWN-FINDING: property=%s %s: %s" % (self.prop, kid, what))
        if self.violations:
            # failing inputs first; one line per distinct replay, at most 5
            vs = sorted(self.violations, key=lambda v: v[2])[:5]
            for path, note, nofail in vs:
                print("VIOLATION property=%s replay=%s%s" % (self.prop, path, " no-failing-input-found" if nofail else ""))
            return 1
        print("OK property=%s tier=%s seed=%d wall=%.1fs" % (self.prop, self.tier, self.seed, time.time() - self.t0))
        return 0


def proof_coverage(verdict, thms, generated_obligations=0, generated_ok=0, extra_tb=()):
    """fill the proof-level keys of the evidence from the audit result"""
    cov = verdict.coverage
    cov["obligations"] = len(thms) + generated_obligations
    cov["discharged"] = len(thms) + generated_ok
    cov["checker_cmd"] = "cd lean && lake build && lake env lean Audit/%s.lean" % verdict.prop
    cov["trusted_base"] = ["Lean 4.33.0 kernel", "axioms: " + ", ".join(sorted(ALLOWED_AXIOMS)),
                           "hand-written model XModel/* tied to the source by the correspondence run of this check",
                           ] + list(extra_tb)
    cov["theorems"] = thms
