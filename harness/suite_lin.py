"""C16: SVD.lstsq against the Lean transcription on numpy's factors, the linear-algebra theorems, and oracles."""
import json
import os
import struct

import common as C
import suite as S

SIZES = {"quick": 2400, "thorough": 40000}


class LinSuite(S.Suite):
    name = "lin"
    worker = "w_lin.py"
    skip_keys = ("impl", "hist", "op", "U", "s", "Vh", "rcond_bits", "b_bits")


def f64(h):
    return struct.unpack("<d", bytes.fromhex(h))[0]


def run(prop, tier, seed, replay=None):
    v = C.Verdict(prop, tier, seed)
    pure = C.build_pure()
    suite = LinSuite()
    if replay:
        return S.do_replay_cases(suite, prop, "c16", pure, replay)
    ok, log = C.lean_build()
    hits = C.grep_forbidden()
    thms, problems = ({}, []) if not ok else C.audit(prop)
    lean_problems = (["lake build failed: " + log[-1500:]] if not ok else []) + ["forbidden construct: " + h for h in hits] + problems
    n = SIZES[tier]
    sc = C.scratch()
    jobs, prefixes = [], []
    for j in range(C.NPROC):
        pref = os.path.join(sc, "C16_%d" % j)
        jobs.append((S.worker_argv(suite, "c16", seed * 1000 + j, max(1, n // C.NPROC), pref), C.py_env(pure, (seed * 31 + j) % 1000)))
        prefixes.append(pref)
    C.run_jobs(jobs)
    stats_total, failures = {}, []
    for pref in prefixes:
        res = json.load(open(pref + ".res.json"))
        for k, val in res["stats"].items():
            if isinstance(val, (int, float)):
                stats_total[k] = stats_total.get(k, 0) + val
        failures += [(pref, fl) for fl in res["failures"] if fl["property"] == prop]
    diffs, nlines = [], 0
    if ok:
        for pref in prefixes:
            # the driver reads `b` as bit patterns
            lines = S.load_lines(pref + ".ops.jsonl")
            tmp = pref + ".drv.jsonl"
            with open(tmp, "w") as f:
                for o in lines:
                    d = {k: o[k] for k in ("U", "s", "Vh", "rcond", "cutoff") if k in o}
                    if "b_bits" in o:
                        d["b"] = o["b_bits"]
                    f.write(json.dumps(d) + "\n")
            C.run_driver("lin", tmp, pref + ".model.jsonl")
            for o, m in zip(lines, S.load_lines(pref + ".model.jsonl")):
                if "x" not in o.get("impl", {}):
                    continue
                nlines += 1
                if "x" not in m:
                    diffs.append({"A": o.get("A"), "model": m})
                    continue
                xi = [f64(h) for h in o["impl"]["x"]]
                xm = [f64(h) for h in m["x"]]
                scale = max([1.0] + [abs(t) for t in xi])
                if len(xi) != len(xm) or any(abs(a - b) > 1e-9 * scale for a, b in zip(xi, xm)):
                    diffs.append({"A": o.get("A"), "b": o.get("b"), "rcond": o.get("rcond"), "cutoff": o.get("cutoff"), "impl": xi, "model": xm})
    seen = set()
    for pref, fl in failures:
        if fl["kind"] in seen:
            continue
        seen.add(fl["kind"])
        v.failing_input(fl, {"suite": "lin", "family": "c16", "ops": S.history_ops(suite, pref, fl["hist"])})
    if not v.violations:
        if lean_problems:
            v.broken("lean: " + "; ".join(lean_problems)[:600], {"theorem_or_obligation": lean_problems[:5]})
        if diffs:
            v.broken("correspondence: SVD.lstsq and the model formula on the same factors differ", {"first_divergence": diffs[0], "n": len(diffs)})
    samples = [{k: o[k] for k in ("kind", "A", "b", "rcond", "cutoff") if k in o} for o in S.load_lines(prefixes[-1] + ".ops.jsonl")[:5]]
    C.proof_coverage(v, thms, extra_tb=["numpy.linalg.svd returns factors with U^T U = 1 and Vh Vh^T = 1 (checked numerically per case)",
                                        "IEEE rounding: formula comparison with relative tolerance 1e-9", "harness/w_lin.py oracles"])
    v.coverage.update({"evaluations": int(stats_total.get("ops", 0)), "distinct_nontrivial": int(stats_total.get("lstsq_cases", 0) + stats_total.get("newton_cases", 0) + stats_total.get("scaling_cases", 0) + stats_total.get("viewjac_cases", 0)),
                       "rule": "generated matrices 1..6 x 1..6 (full, rank-deficient by column / row, column-scaled, zero) with rcond / cutoff settings; "
                               "consistent linear problems with condition <= 100; weight / rescale round trips; view Jacobians for every combination "
                               "of return_scalar and rescale_x; non-trivial = the case reached its oracle",
                       "samples": samples, "traces_validated_against_impl": nlines, "correspondence_divergences": len(diffs),
                       "oracle_failures": len(failures), "input_distribution": dict(sorted(stats_total.items())), "lean_problems": lean_problems})
    v.assumptions = ["numpy's SVD satisfies the orthogonality hypotheses", "finite differences of non-linear merit functions carry truncation error (tolerance 1e-3 relative)"]
    return v.finish()
