"""Driving the real xdeps.Manager with the operations of the `mgr` line protocol.

Imported by worker processes whose PYTHONPATH points at a scratch copy of /repo's
working tree (never at /repo itself).  No source hooks: observation is done with
logging / fault-injecting containers and harness-defined task actions.
"""
import json
import math
import operator

import xdeps
from mgrlib_cmp import canon_val, pkey, canon_sup, canon_defs, compare_line  # noqa
from xdeps import refs as xr
from xdeps import tasks as xt


class Fault(Exception):
    pass


# ----------------------------------------------------------------------------
# logging containers
# ----------------------------------------------------------------------------
RAN = []      # ids of the tasks whose run() was entered during the current API call, in order


def _log_runs(cls):
    orig = cls.run

    def run(self, *a, **k):
        try:
            RAN.append(json.dumps(id_json(self.taskid)))
        except Exception:
            RAN.append(None)
        return orig(self, *a, **k)
    run._xdverif_wrapped = True
    if not getattr(orig, "_xdverif_wrapped", False):
        cls.run = run


for _cls in (xt.ExprTask, xt.FunctionTask, xt.LinearKnob):
    _log_runs(_cls)


class Hub:
    """shared write log + fault countdown"""

    def __init__(self):
        self.trace = []
        self.fault_in = None      # k more writes succeed, the next raises
        self.fault_exc = "Fault"  # class of the injected exception
        self.last_fault = None    # the injected exception object, once raised
        self.quiet = 0            # >0: writes are not logged (inside a function-task action)
        self.nwrites = 0

    def on_write(self, path):
        self.nwrites += 1
        if self.fault_in is not None:
            if self.fault_in == 0:
                self.fault_in = None
                # the container may raise anything: the library has to let every exception class through unchanged
                cls = {"Fault": Fault, "StopIteration": StopIteration, "KeyError": KeyError, "RuntimeError": RuntimeError,
                       "LookupError": LookupError, "ArithmeticError": ArithmeticError, "AttributeError": AttributeError,
                       "GeneratorExit_like": Fault}[self.fault_exc]
                self.last_fault = cls("injected")
                raise self.last_fault
            self.fault_in -= 1
        if not self.quiet:
            self.trace.append(["w", path])


class LDict(dict):
    def __init__(self, hub, path, init):
        dict.__init__(self, init)
        self._hub, self._path = hub, path

    def __setitem__(self, k, v):
        self._hub.on_write(self._path + [["i", k]])
        dict.__setitem__(self, k, v)

    def __reduce__(self):            # plain pickling support (C12)
        return (dict, (dict(self),))


class LList(list):
    def __init__(self, hub, path, init):
        list.__init__(self, init)
        self._hub, self._path = hub, path

    def __setitem__(self, k, v):
        list.__getitem__(self, k)          # IndexError / TypeError first, as for a plain list
        self._hub.on_write(self._path + [["i", k]])
        list.__setitem__(self, k, v)


class LObj:
    def __init__(self, hub, path, init):
        object.__setattr__(self, "_hub", hub)
        object.__setattr__(self, "_path", path)
        for k, v in init.items():
            object.__setattr__(self, k, v)

    def __setattr__(self, k, v):
        self._hub.on_write(self._path + [["a", k]])
        object.__setattr__(self, k, v)


def mk_container(hub, path, spec):
    """spec: the JSON value form {"d":[[k,v]..]} | {"l":[..]} | {"o":[[name,v]..]} | int | None | "nan" """
    if isinstance(spec, dict):
        if "d" in spec:
            return LDict(hub, path, {k: mk_container(hub, path + [["i", k]], v) for k, v in spec["d"]})
        if "l" in spec:
            return LList(hub, path, [mk_container(hub, path + [["i", i]], v) for i, v in enumerate(spec["l"])])
        if "o" in spec:
            return LObj(hub, path, {k: mk_container(hub, path + [["a", k]], v) for k, v in spec["o"]})
        raise ValueError(spec)
    if spec == "nan":
        return float("nan")
    return spec


def val_json(v):
    """canonical JSON of container contents (the model's value language)"""
    if isinstance(v, dict):
        return {"d": [[k, val_json(x)] for k, x in v.items()]}
    if isinstance(v, list):
        return {"l": [val_json(x) for x in v]}
    if isinstance(v, LObj):
        return {"o": [[k, val_json(x)] for k, x in vars(v).items() if not k.startswith("_")]}
    if v is None:
        return None
    if isinstance(v, bool):
        return {"bool": v}
    if isinstance(v, int):
        return v
    if isinstance(v, float):
        if math.isnan(v):
            return "nan"
        return {"float": v.hex()}
    return {"py": repr(v)}


# ----------------------------------------------------------------------------
# refs <-> paths, terms <-> expressions
# ----------------------------------------------------------------------------
def path_of_ref(ref):
    steps = []
    r = ref
    while isinstance(r, (xr.ItemRef, xr.AttrRef)):
        steps.append(["i" if isinstance(r, xr.ItemRef) else "a", r._key])
        r = r._owner
    assert isinstance(r, xr.Ref), r
    return [r._key] + steps[::-1]


def id_json(taskid):
    return taskid if isinstance(taskid, str) else path_of_ref(taskid)


BIN = {"Add": operator.add, "Sub": operator.sub, "Mul": operator.mul,
       "Floordiv": operator.floordiv, "Mod": operator.mod}
IOP = {"Add": operator.iadd, "Sub": operator.isub, "Mul": operator.imul,
       "Floordiv": operator.ifloordiv, "Mod": operator.imod}
UN = {"Neg": operator.neg, "Pos": operator.pos}


def expr_json(e):
    """structure of a real expression object, read from its fields (not from its repr)"""
    if isinstance(e, xr.BinOpExpr):
        return ["bin", type(e).__name__[:-4], expr_json(e._lhs), expr_json(e._rhs)]
    if isinstance(e, xr.UnaryOpExpr):
        return ["un", type(e).__name__[:-4], expr_json(e._arg)]
    if isinstance(e, (xr.ItemRef, xr.AttrRef)):
        return ["ref", path_of_ref(e)]
    if isinstance(e, xr.BaseRef):
        return ["other", type(e).__name__, repr(e)]
    return ["lit", val_json(e)]


def term_refs(t, out=None):
    out = [] if out is None else out
    if t[0] == "ref":
        out.append(t[1])
    elif t[0] == "bin":
        term_refs(t[2], out), term_refs(t[3], out)
    elif t[0] == "un":
        term_refs(t[2], out)
    return out


def chain(path):
    """owner chain without the container itself, as JSON paths"""
    return [path[:i] for i in range(2, len(path) + 1)]


def comparable(p, q):
    k = min(len(p), len(q))
    return p[:k] == q[:k]




class ImplMgr:
    """the real Manager plus what the harness needs to observe it"""

    def __init__(self):
        self.hub = Hub()
        self.m = xdeps.Manager()
        self.roots = {}      # label -> raw container
        self.rootrefs = {}
        self.fbodies = {}    # function task id -> body [(path, term)]
        self.want_dump = bool(__import__("os").environ.get("XDV_DUMP"))

    # -- building blocks -----------------------------------------------------
    def ref(self, path):
        r = self.rootrefs[path[0]]
        for kind, k in path[1:]:
            r = r[k] if kind == "i" else getattr(r, k)
        return r

    def raw_get(self, path):
        v = self.roots[path[0]]
        for kind, k in path[1:]:
            v = v[k] if kind == "i" else getattr(v, k)
        return v

    def raw_set(self, path, value):
        owner = self.raw_get(path[:-1])
        kind, k = path[-1]
        if kind == "i":
            owner[k] = value
        else:
            setattr(owner, k, value)

    def build(self, t):
        """a Python-level term -> what the user's expression evaluates to (expression or value)"""
        if t[0] == "lit":
            return float("nan") if t[1] == "nan" else t[1]
        if t[0] == "ref":
            return self.ref(t[1])
        if t[0] == "bin":
            return BIN[t[1]](self.build(t[2]), self.build(t[3]))
        if t[0] == "un":
            return UN[t[1]](self.build(t[2]))
        raise ValueError(t)

    def pull(self, t):
        """plain-Python evaluation of a mirrored term on the raw containers (the C01 oracle);
        guarded division classes yield NaN on ZeroDivisionError, as documented"""
        if t[0] == "lit":
            return float("nan") if t[1] == "nan" else t[1]
        if t[0] == "ref":
            return self.raw_get(t[1])
        if t[0] == "bin":
            a, b = self.pull(t[2]), self.pull(t[3])
            try:
                return BIN[t[1]](a, b)
            except ZeroDivisionError:
                if t[1] in ("Floordiv", "Mod"):
                    return float("nan")
                raise
        if t[0] == "un":
            return UN[t[1]](self.pull(t[2]))
        raise ValueError(t)

    # -- observation ---------------------------------------------------------
    def store_json(self):
        return {"d": [[lab, val_json(c)] for lab, c in self.roots.items()]}

    def defs_json(self):
        out = []
        for tid, t in self.m.tasks.items():
            if isinstance(t, xt.ExprTask):
                out.append([id_json(tid), "expr", expr_json(t.expr)])
            elif isinstance(t, xt.LinearKnob):
                out.append([id_json(tid), "knob", None])
            else:
                out.append([id_json(tid), "func", None])
        return out

    def sup_json(self):
        out = {}
        for name in ("rdeps", "rtasks", "deptasks", "tartasks"):
            rows = []
            for k, ss in getattr(self.m, name).items():
                if len(ss):
                    rows.append([id_json(k), [id_json(x) for x in ss]])
            out[name] = rows
        return out

    def observe(self, exc):
        out = {"exc": exc, "store": self.store_json(), "defs": self.defs_json(), "sup": self.sup_json(),
               "frozen": bool(self.m._tree_frozen), "trace": self.hub.trace}
        if self.want_dump:
            try:
                out["dump"] = [list(p) for p in self.m.dump()]
            except Exception as e:
                out["dump"] = type(e).__name__
        return out

    def order_after(self, path):
        """the schedule the implementation computes for an assignment to `path` in the current index
        state (set iteration order is deterministic within one process)"""
        try:
            return [id_json(t) for t in self.m.find_taskids(self.ref(path)._get_dependencies())]
        except Exception:
            return None

    def executed_order(self, listed, ran):
        """the schedule the implementation actually used: the tasks in the order in which their run() was entered during
        the call (observed through the wrapped `run` methods of the three task classes), followed by the listed tasks
        that did not run (a fault stopped the update), in the listed order.  A second query of find_taskids need not
        iterate its start set in the order the call itself did (a start set built another way has another iteration
        order) — what ran is the fact."""
        if not listed:
            return listed
        try:
            keys = [json.dumps(t) for t in listed]
            if any(r is None for r in ran):
                return listed
            seen, out = set(), []
            for r in ran:
                if r in keys and r not in seen:
                    seen.add(r)
                    out.append(json.loads(r))
            return out + [t for t, k in zip(listed, keys) if k not in seen]
        except Exception:
            return listed

    # -- operations ----------------------------------------------------------
    def apply(self, op):
        """execute one protocol operation; returns the line to hand to the model (op + impl)"""
        hub = self.hub
        hub.trace = []
        del RAN[:]
        exc = "ok"
        extra = {}
        kind = op["op"]
        try:
            if kind == "reset":
                pass
            elif kind == "container":
                lab = op["label"]
                c = mk_container(hub, [lab], op["value"])
                self.roots[lab] = c
                self.rootrefs[lab] = self.m.ref(c, lab)
            elif kind == "fault":
                hub.fault_in = op["k"]
                hub.fault_exc = op.get("exc", "Fault")
            elif kind == "set":
                v = op["value"]
                v = float("nan") if v == "nan" else v
                self.m.set_value(self.ref(op["path"]), v)
            elif kind == "setexpr":
                p = op["path"]
                owner = self.ref(p[:-1])
                k = p[-1][1]
                val = self.build(op["expr"])
                if p[-1][0] == "i":
                    owner[k] = val
                else:
                    setattr(owner, k, val)
            elif kind == "iop":
                p = op["path"]
                owner = self.ref(p[:-1])
                k = p[-1][1]
                operand = self.build(op["operand"])
                if p[-1][0] == "i":
                    tmp = owner[k]
                    tmp = IOP[op["iop"]](tmp, operand)
                    owner[k] = tmp
                else:
                    tmp = getattr(owner, k)
                    tmp = IOP[op["iop"]](tmp, operand)
                    setattr(owner, k, tmp)
            elif kind == "unregister":
                tid = op["id"]
                self.m.unregister(tid if isinstance(tid, str) else self.ref(tid))
            elif kind == "regfunc":
                body = op["body"]
                tid = op["id"]

                def action(body=body, tid=tid):
                    hub.trace.append(["a", tid])
                    hub.quiet += 1
                    try:
                        for p, t in body:
                            self.raw_set(p, self.pull_guarded(t))
                    finally:
                        hub.quiet -= 1

                self.fbodies[tid] = body
                self.m.register(xt.FunctionTask(tid, action, {self.ref(p) for p in op["tars"]},
                                                {self.ref(p) for p in op["deps"]}))
            elif kind == "regknob":
                task = xt.LinearKnob(op["id"], self.ref(op["src"]), list(op["ws"]),
                                     [self.ref(p) for p in op["tars"]])
                self.m.register(task)
            elif kind == "refresh":
                self.m.refresh()
            elif kind == "cleanup":
                self.m.cleanup()
            elif kind == "verify":
                import io, contextlib
                with contextlib.redirect_stdout(io.StringIO()):
                    self.m.verify()
            elif kind == "clone":
                other = self.m.clone()
                saved = self.m
                self.m = other
                try:
                    extra["clone_sup"] = self.sup_json()
                finally:
                    self.m = saved
            elif kind == "freeze":
                self.m.freeze_tree()
            elif kind == "unfreeze":
                self.m.unfreeze_tree()
            elif kind == "clonekeep":
                # a clone that the user KEEPS (oracle-only histories: the model's clone is compared and dropped)
                self.__dict__.setdefault("kept", []).append(self.m.clone())
            elif kind == "cloneop":
                # a call on a kept clone through the manager's own methods (assignments through refs go to ref._manager,
                # i.e. to the original; the clone is a manager of its own over the same containers)
                c = self.__dict__.setdefault("kept", [])[op["i"]]
                call = op["call"]
                if call == "unregister":
                    tid = op["id"]
                    c.unregister(tid if isinstance(tid, str) else self.ref(tid))
                elif call == "set":
                    c.set_value(self.ref(op["path"]), float("nan") if op["value"] == "nan" else op["value"])
                elif call == "setexpr":
                    c.set_value(self.ref(op["path"]), self.build(op["expr"]))
                elif call == "load":
                    c.load([(str(self.ref(p)), str(self.build(t))) for p, t in op["pairs"]], overwrite=op["overwrite"])
                elif call == "refresh":
                    c.refresh()
                elif call == "cleanup":
                    c.cleanup()
                elif call == "verify":
                    import io, contextlib
                    with contextlib.redirect_stdout(io.StringIO()):
                        c.verify()
                else:
                    raise ValueError("unknown call on a kept clone " + str(call))
            elif kind == "load":
                # the textual side of load() is C11's; here the pairs are printed by the library itself
                pairs = [(str(self.ref(p)), str(self.build(t))) for p, t in op["pairs"]]
                self.m.load(pairs, overwrite=op["overwrite"])
            elif kind == "genfun":
                # a generated setter: source (order of the listed tasks) and its effect on the containers
                kw = {"x%d" % i: self.ref(pth) for i, (pth, _) in enumerate(op["args"])}
                src = self.m.mk_fun("f", **kw)
                by_text = {str(tid): id_json(tid) for tid in self.m.tasks}
                listed = []
                for ln in src.split("\n")[1 + len(kw):]:
                    lhs = ln.strip().split(" = ", 1)[0]
                    listed.append(by_text.get(lhs, {"unknown": lhs}))
                extra["listed"] = listed
                f = self.m.gen_fun("f", **kw)
                f(*[float("nan") if v == "nan" else v for _, v in op["args"]])
            elif kind == "query":
                r = self.ref(op["path"])
                extra["find_deps"] = [id_json(x) for x in self.m.find_deps([r])]
                extra["tasks"] = [id_json(x) for x in r._tasks]
                e = r._expr
                extra["expr"] = None if e is None else expr_json(e)
            else:
                raise ValueError("unknown op " + kind)
        except RecursionError:
            exc = "RecursionError"
        except Exception as e:  # noqa
            exc = type(e).__name__
            # the injected exception itself (whatever its class), or one raised from it, counts as the fault
            chain, seen = e, 0
            while chain is not None and seen < 6:
                if chain is hub.last_fault:
                    exc = "Fault"
                    break
                chain, seen = (chain.__cause__ or chain.__context__), seen + 1
            # a KeyError whose key is a reference (or a task) comes from the manager's own tables, not from the data
            if isinstance(e, KeyError) and e.args and isinstance(e.args[0], (xr.BaseRef,)):
                extra["internal_keyerror"] = str(e.args[0])
        if hub.last_fault is not None:
            extra["fault_fired"] = True
            hub.last_fault = None
        hub.fault_in = None if kind != "fault" else hub.fault_in
        ran = list(RAN)
        line = dict(op)
        impl = self.observe(exc)
        impl.update(extra)
        if kind in ("set", "setexpr", "iop"):
            line["order"] = self.executed_order(self.order_after(op["path"]), ran)
        if kind == "genfun":
            line["order"] = extra.get("listed")
        line["impl"] = impl
        return line

    def pull_guarded(self, t):
        return self.pull(t)


