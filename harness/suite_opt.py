"""Checks of the optimizer properties C09 C10 C15: Lean theorems on the solve/step/reload state
machine + trace acceptance by the model + direct oracles on generated matching problems."""
import json
import os

import common as C
import suite as S

SIZES = {"quick": {"C09": 480, "C10": 480, "C15": 480}, "thorough": {"C09": 12000, "C10": 12000, "C15": 12000}}
FAMILY = {"C09": "c09", "C10": "c10", "C15": "c15"}


class OptSuite(S.Suite):
    name = "opt"
    worker = "w_opt.py"
    skip_keys = ("impl", "hist", "op")


def run(prop, tier, seed, replay=None):
    v = C.Verdict(prop, tier, seed)
    family = FAMILY[prop]
    pure = C.build_pure()
    suite = OptSuite()
    if replay:
        return S.do_replay_cases(suite, prop, family, pure, replay)
    ok, log = C.lean_build()
    hits = C.grep_forbidden()
    thms, problems = ({}, []) if not ok else C.audit(prop)
    lean_problems = (["lake build failed: " + log[-1500:]] if not ok else []) + ["forbidden construct: " + h for h in hits] + problems

    n = SIZES[tier][prop]
    jobs, prefixes = [], []
    sc = C.scratch()
    per_job = max(1, n // C.NPROC)
    for j in range(C.NPROC):
        pref = os.path.join(sc, "%s_%d" % (prop, j))
        jobs.append((S.worker_argv(suite, family, seed * 1000 + j, per_job, pref, ["--fixed"] if j == 0 else []), C.py_env(pure, (seed * 31 + j) % 1000)))
        prefixes.append((pref, pure, "pure"))
    C.run_jobs(jobs)
    stats_total, failures = {}, []
    for pref, bdir, bname in prefixes:
        res = json.load(open(pref + ".res.json"))
        for k, val in res["stats"].items():
            if isinstance(val, (int, float)):
                stats_total[k] = stats_total.get(k, 0) + val
        for fl in res["failures"]:
            if fl["property"] == prop:
                failures.append((pref, bdir, fl))

    diffs, nlines = [], 0
    if ok and os.path.exists(os.path.join(C.HARNESS, "suite_opt_trace.py")):
        import suite_opt_trace
        diffs, nlines = suite_opt_trace.correspond(prop, prefixes)

    seen = set()
    for pref, bdir, fl in failures:
        key = (fl["kind"], fl.get("known"))
        if key in seen:
            continue
        seen.add(key)
        v.failing_input(fl, {"suite": "opt", "family": family, "ops": S.history_ops(suite, pref, fl["hist"])})
    if not v.violations:
        if lean_problems:
            v.broken("lean: " + "; ".join(lean_problems)[:600], {"suite": "opt", "theorem_or_obligation": lean_problems[:5]})
        if diffs:
            v.broken("correspondence: the model does not accept the implementation's trace",
                     {"suite": "opt", "first_divergence": diffs[0], "n": len(diffs)})
    samples = []
    if prefixes:
        some = [o for o in S.load_lines(prefixes[-1][0] + ".ops.jsonl") if o.get("op") != "merit"]   # (long: every evaluation)
        samples = [{k: val for k, val in o.items() if k not in ("impl", "hist", "op")} for o in some[:4]]
    C.proof_coverage(v, thms, extra_tb=["direct oracles harness/w_opt.py (independent re-evaluation of the user function)",
                                        "floating point: theorems use order / field axioms only; NaN-free runs"])
    v.coverage.update({
        "evaluations": int(stats_total.get("calls", 0)), "distinct_nontrivial": int(stats_total.get("cases", 0)),
        "rule": "generated matching problems (linear / quadratic / trigonometric / inconsistent; 1-4 knobs, 1-5 targets; limits, "
                "max_step, weights, tolerances, n_steps_max, Broyden, disabled knobs/targets) drawn by class (converging / failing by "
                "tolerance / failing by limits / far start / raising action) x call sequences of solve/step/reload/tag/enable/disable/"
                "clear_log, and the user's own moves between two calls (a knob assigned, a tolerance or a target weight changed: "
                "set_tol / set_weight; the model is handed the tolerances in force); for disabled targets a twin run on the problem "
                "in which that target is another function — finite, or nan / infinite / overflowing on part of the domain (oracle "
                "only, twin_* counts); non-trivial = a problem whose Optimize object could be built; distinct PRNG states",
        "samples": samples, "traces_validated_against_impl": nlines, "correspondence_divergences": len(diffs),
        "oracle_failures": len(failures), "input_distribution": dict(sorted(stats_total.items())), "builds": ["pure"],
        "theorem_scope": dict(suite_opt_trace.STATS) if diffs is not None and "suite_opt_trace" in dir() else {},
        "lean_problems": lean_problems})
    v.assumptions = ["IEEE doubles without NaN; 'up to rounding' bounds use 1e-12 relative tolerance only for non-unit weights",
                     "solve() is claimed with assert_within_tol=True and check_limits=True (defaults)"]
    return v.finish()
