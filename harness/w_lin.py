"""Worker for C16: SVD.lstsq vs the truncated pseudo-inverse, Newton step on linear problems, weight and
rescale round trips, view Jacobians vs finite differences.

usage: w_lin.py --family c16 --seed S --n N --out PREFIX [--replay FILE]
"""
import argparse
import json
import math
import random
import struct
import sys
import time

import numpy as np
import xdeps as xd
from xdeps.optimize.matrixutils import SVD
from xdeps.general import _print

_print.suppress = True


def fbits(x):
    return struct.pack("<d", float(x)).hex()


def gen_matrix(rng, m, n, kind):
    A = np.array([[rng.choice([-3, -2, -1, -0.5, 0.5, 1, 2, 3]) for _ in range(n)] for _ in range(m)], dtype=float)
    if kind == "rankdef" and n > 1:
        A[:, -1] = A[:, 0] * rng.choice([1, -2, 0.5])
    if kind == "rankdef_rows" and m > 1:
        A[-1, :] = A[0, :]
    if kind == "scaled":
        A = A * np.array([10.0 ** rng.randint(-3, 3) for _ in range(n)])
    if kind == "zero":
        A = A * 0
    return A


def fd_inside(view, p, lo, hi, h):
    """Finite differences of `view` at `p` that never leave the box [lo, hi] (a view with check_limits=True raises outside):
    central where p[j] +- h are both inside, otherwise the three-point ONE-SIDED formula towards the inside of the range,
    (3 f(p) - 4 f(p -+ h) + f(p -+ 2h)) / (+-2h).  Both are exact up to rounding for the linear families (linear vector view,
    quadratic scalar view) and carry an O(h^2) truncation error for the smooth non-linear ones.
    Returns (Jfd, number of one-sided columns)."""
    p = np.array(p, dtype=float)
    f0 = np.atleast_1d(view(p))
    Jfd = np.zeros((len(f0), len(p)))
    onesided = 0
    for j in range(len(p)):
        if p[j] + h <= hi[j] and p[j] - h >= lo[j]:
            xp, xm = p.copy(), p.copy()
            xp[j] += h
            xm[j] -= h
            Jfd[:, j] = (np.atleast_1d(view(xp)) - np.atleast_1d(view(xm))) / (xp[j] - xm[j])
            continue
        sgn = -1.0 if p[j] + h > hi[j] else 1.0       # towards the inside
        x1, x2 = p.copy(), p.copy()
        x1[j] += sgn * h
        x2[j] += sgn * 2 * h
        h1, h2 = x1[j] - p[j], x2[j] - p[j]           # the steps actually taken (signed), h2 ~ 2 h1
        f1, f2 = np.atleast_1d(view(x1)), np.atleast_1d(view(x2))
        # derivative at p of the parabola through (0, f0), (h1, f1), (h2, f2)
        Jfd[:, j] = ((f1 - f0) * h2 / h1 - (f2 - f0) * h1 / h2) / (h2 - h1)
        onesided += 1
    return Jfd, onesided


def viewjac_on_limits(opt, vary, box, scalar, resc, phase, case, lrng, fail, stats):
    """The Jacobian clause of C16 at the edge of the domain of a view: one knob sits exactly ON its lower / upper limit
    (native x = limit / weight, rescaled x = rescale_x[0 or 1]) or within a few Jacobian steps of it, the others are inside.
    The view under test is the one a caller gets by default (check_limits=True: it raises outside the limits), so the
    reference differences are taken one-sidedly towards the inside (fd_inside).  Returns False after the first failure."""
    nk = len(vary)
    view = opt.get_merit_function(return_scalar=scalar, rescale_x=resc, check_limits=True)
    # the limits in the units of the view, from the knobs themselves (not from the library's own report)
    lo_n = np.array([float(v.limits[0]) / (v.weight if v.weight is not None else 1.0) for v in vary])
    hi_n = np.array([float(v.limits[1]) / (v.weight if v.weight is not None else 1.0) for v in vary])
    st_n = np.array([float(v.step) / (v.weight if v.weight is not None else 1.0) for v in vary])
    if resc is None:
        lo, hi, st = lo_n, hi_n, st_n
    else:
        lo, hi = np.full(nk, float(resc[0])), np.full(nk, float(resc[1]))
        st = st_n * (hi - lo) / (hi_n - lo_n)
    mid = lo + np.array([lrng.choice([0.3, 0.45, 0.6]) for _ in range(nk)]) * (hi - lo)
    h = 1e-5
    saved = dict(box)
    try:
        for k in range(nk):
            for end in ("lower", "upper"):
                # exactly on the limit, and one point a few Jacobian steps inside it
                for nsteps in (0.0, lrng.choice([0.5, 1.0, 2.0, 5.0])):
                    p = mid.copy()
                    p[k] = lo[k] + nsteps * st[k] if end == "lower" else hi[k] - nsteps * st[k]
                    where = {"knob": k, "end": end, "steps_inside": nsteps, "x": p.tolist(), "x_limits": [lo.tolist(), hi.tolist()]}
                    try:
                        Jfd, onesided = fd_inside(view, p, lo, hi, h)
                    except ValueError:
                        # limit / weight * weight (or the rescaling of an end of the range) may round to just outside the
                        # limits, and then the view refuses the point: nothing the property speaks about
                        stats["viewjac_limit_points_rejected"] = stats.get("viewjac_limit_points_rejected", 0) + 1
                        continue
                    try:
                        J = np.atleast_2d(view.get_jacobian(p))
                    except Exception as e:
                        fail("C16", "view-jacobian-raises-on-a-limit", {"scalar": scalar, "rescale": resc, "phase": phase, "exc": type(e).__name__,
                                                                        "at": where, "case": {q: case.get(q) for q in ("A", "c", "weights", "tweights", "limits", "range", "nonlinear")}})
                        return False
                    stats["viewjac_limit_checks"] = stats.get("viewjac_limit_checks", 0) + 1
                    stats["viewjac_limit_checks_" + end] = stats.get("viewjac_limit_checks_" + end, 0) + 1
                    if nsteps == 0.0:
                        stats["viewjac_limit_checks_exactly_on"] = stats.get("viewjac_limit_checks_exactly_on", 0) + 1
                    stats["viewjac_limit_onesided_columns"] = stats.get("viewjac_limit_onesided_columns", 0) + onesided
                    tol = 1e-3 * max(1.0, float(np.max(np.abs(Jfd))))
                    if J.shape != Jfd.shape or not np.allclose(J, Jfd, rtol=1e-3, atol=tol):
                        fail("C16", "view-jacobian-on-a-limit-differs-from-one-sided-differences",
                             {"scalar": scalar, "rescale": resc, "phase": phase, "at": where, "J": J.tolist(), "fd": Jfd.tolist(), "fd_step": h,
                              "case": {q: case.get(q) for q in ("A", "c", "weights", "tweights", "limits", "range", "nonlinear")}})
                        return False
    finally:
        box.update(saved)        # the interior checks of the other phases start from the knob values they had
    return True


def run_case(case, fail, stats):
    kind = case["kind"]
    if kind == "lstsq":
        A = np.array(case["A"], dtype=float)
        b = np.array(case["b"], dtype=float)
        rcond = case.get("rcond", "default")
        cutoff = case.get("cutoff")
        kw = {}
        if rcond != "default":
            kw["rcond"] = rcond
        svd = SVD(A, **kw)
        x = svd.lstsq(b, sing_val_cutoff=cutoff)
        stats["lstsq_cases"] += 1
        cut = len(svd.s) if cutoff is None else cutoff
        rc = svd.rcond
        case["_line"] = {"U": [[fbits(v) for v in row] for row in svd.U], "s": [fbits(v) for v in svd.s],
                         "Vh": [[fbits(v) for v in row] for row in svd.Vh], "b": [fbits(v) for v in b],
                         "rcond": None if rc is None else fbits(rc), "cutoff": cut, "x": [fbits(v) for v in x]}
        # hypotheses of the theorem, numerically
        k = len(svd.s)
        if not (np.allclose(svd.U.T @ svd.U, np.eye(k), atol=1e-10) and np.allclose(svd.Vh @ svd.Vh.T, np.eye(k), atol=1e-10)):
            stats["svd_hypotheses_failed"] += 1
            return
        # reference: minimum-norm least squares of the matrix restricted to the kept singular values
        s = svd.s.copy()
        keep = np.zeros(k, dtype=bool)
        keep[:cut] = True
        keep &= s > 0
        if rc is not None:
            keep &= ~(s < rc * s[0])
        At = (svd.U[:, keep] * s[keep]) @ svd.Vh[keep, :]
        xref = np.linalg.pinv(At, rcond=1e-15) @ b if keep.any() else np.zeros(A.shape[1])
        scale = max(1.0, float(np.max(np.abs(xref))) if xref.size else 1.0)
        # two correct solvers differ by about eps * cond * |x| on an ill-conditioned (truncated) matrix
        cond = float(s[keep].max() / s[keep].min()) if keep.any() else 1.0
        tol = max(1e-9, 1e-13 * cond)
        stats["max_cond_log10"] = max(stats.get("max_cond_log10", 0), int(np.log10(max(cond, 1.0))))
        if x.shape != xref.shape or not np.allclose(x, xref, rtol=10 * tol, atol=tol * scale):
            fail("C16", "lstsq-differs-from-truncated-pinv", {"A": case["A"], "b": case["b"], "rcond": rcond, "cutoff": cutoff, "cond": cond,
                                                               "got": x.tolist(), "want": xref.tolist()})
            return
        # least squares and minimum norm against perturbations
        r0 = np.linalg.norm(At @ x - b)
        rng = random.Random(len(case["b"]))
        for _ in range(4):
            z = x + np.array([rng.uniform(-1, 1) for _ in range(len(x))])
            if np.linalg.norm(At @ z - b) < r0 * (1 - 1e-9) - 1e-12:
                fail("C16", "not-least-squares", {"A": case["A"], "b": case["b"]})
                break
    elif kind == "lstsq_seq":
        # one SVD object reused for several solves with different truncation settings
        A = np.array(case["A"], dtype=float)
        svd = SVD(A)
        stats["lstsq_seq_cases"] = stats.get("lstsq_seq_cases", 0) + 1
        # the reference uses the factors as they were BEFORE any solve: a solve must not change the stored decomposition
        U0, s0, Vh0 = svd.U.copy(), svd.s.copy(), svd.Vh.copy()
        rcond0 = svd.rcond
        k = len(s0)
        for b, rcond, cutoff in case["calls"]:
            b = np.array(b, dtype=float)
            kw = {}
            if rcond is not None:
                kw["rcond"] = rcond
            x = svd.lstsq(b, sing_val_cutoff=cutoff, **kw)
            if not (np.array_equal(svd.s, s0) and np.array_equal(svd.U, U0) and np.array_equal(svd.Vh, Vh0)):
                stats["stored_factors_changed"] = stats.get("stored_factors_changed", 0) + 1     # not a verdict by itself
            rc = rcond0 if rcond is None else rcond
            cut = k if cutoff is None else cutoff
            s = s0
            keep = np.zeros(k, dtype=bool)
            keep[:cut] = True
            keep &= s > 0
            if rc is not None:
                keep &= ~(s < rc * s[0])
            At = (U0[:, keep] * s[keep]) @ Vh0[keep, :]
            xref = np.linalg.pinv(At, rcond=1e-15) @ b if keep.any() else np.zeros(A.shape[1])
            scale = max(1.0, float(np.max(np.abs(xref))) if xref.size else 1.0)
            cond = float(s[keep].max() / s[keep].min()) if keep.any() else 1.0
            tol = max(1e-9, 1e-13 * cond)
            if not np.allclose(x, xref, rtol=10 * tol, atol=tol * scale):
                fail("C16", "reused-SVD-lstsq-differs-from-truncated-pinv", {"A": case["A"], "calls": case["calls"],
                                                                              "failing_call": [b.tolist(), rcond, cutoff],
                                                                              "got": x.tolist(), "want": xref.tolist()})
                break
    elif kind == "newton":
        # a consistent, well-conditioned linear problem inside wide limits: the first step lands on the solution
        A = np.array(case["A"], dtype=float)
        xs = np.array(case["xsol"], dtype=float)
        bvec = A @ xs
        nk = A.shape[1]
        box = {"k%d" % i: case["x0"][i] for i in range(nk)}

        class Act(xd.Action):
            def run(self):
                y = A @ np.array([box["k%d" % i] for i in range(nk)]) - bvec
                return {i: v for i, v in enumerate(y)}
        act = Act()
        w = case.get("weights") or [None] * nk
        vary = [xd.Vary("k%d" % i, box, step=1e-6, limits=(-1e3, 1e3), weight=w[i]) for i in range(nk)]
        tars = [act.target(i, 0.0, tol=1e-7) for i in range(A.shape[0])]
        opt = xd.Optimize(vary=vary, targets=tars, show_call_counter=False, n_steps_max=10)
        stats["newton_cases"] += 1
        if case.get("queries"):
            # read-only queries of merit-function views (what a scipy-style caller does to build `bounds`) before the step:
            # they must not change what the optimizer does afterwards
            stats["newton_with_queries"] = stats.get("newton_with_queries", 0) + 1
            for resc in (None, tuple(case["queries"])):
                try:
                    v = opt.get_merit_function(rescale_x=resc, check_limits=False)
                    v.get_x_limits()
                    v.get_x()
                    v.get_x_limits()
                except Exception as e:
                    fail("C16", "view-query-raises", {"case": case, "rescale": resc, "exc": type(e).__name__})
                    return
            xl = np.array(opt._err._get_x_limits(), dtype=float)
            want = np.array([[-1e3 / (wi or 1.0), 1e3 / (wi or 1.0)] for wi in w])
            if xl.shape != want.shape or not np.allclose(xl, want, rtol=1e-12):
                fail("C16", "view-query-changed-the-solver-limits", {"case": case, "got": xl.tolist(), "want": want.tolist()})
                return
        try:
            opt.step(1, broyden=False)
        except Exception as e:
            fail("C16", "newton-step-raises", {"case": case, "exc": type(e).__name__})
            return
        got = np.array([box["k%d" % i] for i in range(nk)])
        if not np.allclose(got, xs, rtol=1e-5, atol=1e-5):
            fail("C16", "first-step-misses-linear-solution", {"A": case["A"], "x0": case["x0"], "got": got.tolist(), "want": xs.tolist()})
            return
        for broy in (False, True):
            for i in range(nk):
                box["k%d" % i] = case["x0"][i]
            opt2 = xd.Optimize(vary=vary, targets=tars, show_call_counter=False, n_steps_max=10)
            try:
                opt2.solve(broyden=broy)
            except Exception as e:
                fail("C16", "solve-fails-on-linear-problem", {"A": case["A"], "x0": case["x0"], "broyden": broy, "exc": type(e).__name__})
    elif kind == "scaling":
        nk = len(case["x"])
        box = {"k%d" % i: 0.0 for i in range(nk)}

        class Act(xd.Action):
            def run(self):
                return {0: sum(box.values())}
        act = Act()
        vary = [xd.Vary("k%d" % i, box, step=1e-6, limits=tuple(case["limits"][i]), weight=case["weights"][i]) for i in range(nk)]
        opt = xd.Optimize(vary=vary, targets=[act.target(0, 0.0, tol=1e-3)], show_call_counter=False)
        mf = opt._err
        x = np.array(case["x"], dtype=float)
        stats["scaling_cases"] += 1
        k = mf._x_to_knobs(x)
        if not np.allclose(mf._knobs_to_x(k), x, rtol=1e-12, atol=1e-300):
            fail("C16", "weights-not-inverse", {"x": case["x"], "weights": case["weights"]})
        if not np.allclose(mf._x_to_knobs(mf._knobs_to_x(x)), x, rtol=1e-12, atol=1e-300):
            fail("C16", "weights-not-inverse", {"x": case["x"], "weights": case["weights"], "direction": "knobs"})
        view = opt.get_merit_function(rescale_x=tuple(case["range"]), check_limits=False)
        # the mapping sends the ends of the range to the limits in solver units (limit / weight), before and after the
        # view has been asked for its own limits (a read-only query), and that query answers with the range
        lo_n = np.array([l[0] / wt for l, wt in zip(case["limits"], case["weights"])], dtype=float)
        hi_n = np.array([l[1] / wt for l, wt in zip(case["limits"], case["weights"])], dtype=float)
        r0, r1 = case["range"]
        for when in ("built", "after-get_x_limits"):
            ends = [np.array(view._scaled_to_native(np.full(nk, float(r))), dtype=float) for r in (r0, r1)]
            if not (np.allclose(ends[0], lo_n, rtol=1e-9, atol=1e-9) and np.allclose(ends[1], hi_n, rtol=1e-9, atol=1e-9)):
                fail("C16", "rescale-does-not-map-the-range-onto-the-limits",
                     {"when": when, "limits": case["limits"], "weights": case["weights"], "range": case["range"],
                      "got": [e.tolist() for e in ends], "want": [lo_n.tolist(), hi_n.tolist()]})
                break
            vl = np.array(view.get_x_limits(), dtype=float)
            if vl.shape != (nk, 2) or not (np.allclose(vl[:, 0], r0) and np.allclose(vl[:, 1], r1)):
                fail("C16", "rescaled-view-limits-are-not-the-range", {"got": vl.tolist(), "range": case["range"]})
                break
            nl = np.array(opt.get_merit_function(check_limits=False).get_x_limits(), dtype=float)
            if nl.shape != (nk, 2) or not (np.allclose(nl[:, 0], lo_n, rtol=1e-12) and np.allclose(nl[:, 1], hi_n, rtol=1e-12)):
                fail("C16", "native-view-limits-are-not-the-solver-limits", {"when": when, "got": nl.tolist(), "want": [lo_n.tolist(), hi_n.tolist()]})
                break
        xn = view._scaled_to_native(x)
        if not np.allclose(view._scaled_from_native(xn), x, rtol=1e-9, atol=1e-9):
            fail("C16", "rescale-not-inverse", {"x": case["x"], "limits": case["limits"], "range": case["range"]})
        if not np.allclose(view._scaled_to_native(view._scaled_from_native(x)), x, rtol=1e-9, atol=1e-9):
            fail("C16", "rescale-not-inverse", {"x": case["x"], "limits": case["limits"], "range": case["range"], "direction": "native"})
    elif kind == "viewjac":
        A = np.array(case["A"], dtype=float)
        c = np.array(case["c"], dtype=float)
        nk = A.shape[1]
        box = {"k%d" % i: 0.1 * i for i in range(nk)}

        class Act(xd.Action):
            def run(self):
                v = np.array([box["k%d" % i] for i in range(nk)])
                y = A @ v - c
                if case.get("nonlinear"):
                    y = y + 0.1 * np.sin(A @ v)
                return {i: t for i, t in enumerate(y)}
        act = Act()
        vary = [xd.Vary("k%d" % i, box, step=1e-7, limits=tuple(case["limits"][i]), weight=case["weights"][i]) for i in range(nk)]
        tars = [act.target(i, 0.0, tol=1e-9, weight=case["tweights"][i]) for i in range(A.shape[0])]
        opt = xd.Optimize(vary=vary, targets=tars, show_call_counter=False)
        stats["viewjac_cases"] += 1
        # choices of the on-limit checks: a generator of their own, derived from the case (replays reproduce them and the
        # stream of generated cases stays what it was)
        lrng = random.Random(json.dumps([case["A"], case["c"], case["weights"], case["limits"], case["range"]]))
        for scalar in (False, True):
            for resc in (None, tuple(case["range"])):
                view = opt.get_merit_function(return_scalar=scalar, rescale_x=resc, check_limits=False)
                # in which of the four phases below this view is also examined on the limits of its knobs
                lim_phase = lrng.choice(("built", "limits-changed", "weight-changed", "restored"))
                # the same view object three times: as built, after the limits of a knob changed, after a weight changed
                # (the view reads limits and weights on every call, so its Jacobian has to follow them as well)
                lim0, w0 = np.array(vary[0].limits, dtype=float), vary[-1].weight
                for phase in ("built", "limits-changed", "weight-changed", "restored"):
                    if phase == "restored":
                        vary[0].limits, vary[-1].weight = lim0, w0
                    if phase == "limits-changed":
                        lo, hi = vary[0].limits
                        vary[0].limits = np.array([lo * 1.5 - 0.25, hi * 2.0 + 0.5])
                    elif phase == "weight-changed":
                        vary[-1].weight = vary[-1].weight * 4.0
                    x = view.get_x()
                    if case.get("queries"):
                        view.get_x_limits()          # a read-only query between the evaluations
                    try:
                        J = np.atleast_2d(view.get_jacobian(x))
                    except Exception as e:
                        fail("C16", "view-jacobian-raises", {"scalar": scalar, "rescale": resc, "exc": type(e).__name__, "phase": phase})
                        continue
                    f0 = np.atleast_1d(view(x))
                    h = 1e-5
                    Jfd = np.zeros((len(f0), len(x)))
                    for j in range(len(x)):
                        # central differences: exact (up to rounding) for the quadratic scalar view
                        xp, xm = np.array(x, dtype=float), np.array(x, dtype=float)
                        xp[j] += h
                        xm[j] -= h
                        Jfd[:, j] = (np.atleast_1d(view(xp)) - np.atleast_1d(view(xm))) / (2 * h)
                    tol = 1e-3 * max(1.0, float(np.max(np.abs(Jfd))))
                    stats["viewjac_checks"] = stats.get("viewjac_checks", 0) + 1
                    if J.shape != Jfd.shape or not np.allclose(J, Jfd, rtol=1e-3, atol=tol):
                        fail("C16", "view-jacobian-differs-from-finite-differences",
                             {"scalar": scalar, "rescale": resc, "phase": phase, "J": J.tolist(), "fd": Jfd.tolist(),
                              "case": {k: case[k] for k in ("A", "weights", "limits", "range")}})
                    if phase == lim_phase:
                        viewjac_on_limits(opt, vary, box, scalar, resc, phase, case, lrng, fail, stats)
    else:
        raise ValueError(kind)


def gen_cases(rng, n):
    # exact ties: a singular value equal to rcond * s[0] is KEPT (only values strictly below the threshold are cut);
    # dyadic diagonal / permutation matrices make the tie exact in floating point
    for A, rc in [([[4, 0, 0], [0, 2, 0], [0, 0, 1]], 0.5), ([[4, 0, 0], [0, 2, 0], [0, 0, 1]], 0.25), ([[8, 0], [0, 1]], 0.125),
                  ([[0, 3], [3, 0]], 1.0), ([[2, 0, 0], [0, 0, 2], [0, 1, 0], [0, 0, 0]], 0.5), ([[0, 0.5], [16, 0]], 0.03125)]:
        m = len(A)
        yield {"kind": "lstsq", "A": A, "b": [1, 1, 1, 1][:m], "rcond": rc}
        yield {"kind": "lstsq_seq", "A": A, "calls": [[[1, 2, 3, 4][:m], rc, None], [[-1, 0, 2, 1][:m], None, None]]}
    for i in range(n):
        r = rng.random()
        if r < 0.12:
            m, nn = rng.randint(2, 6), rng.randint(2, 5)
            A = gen_matrix(rng, m, nn, rng.choice(["full", "scaled", "full"]))
            calls = [[[rng.choice([-3, -1, 0, 1, 2, 5.5]) for _ in range(m)], rng.choice([None, None, 1e-6, 0.05, 0.3, 0.7]),
                      rng.choice([None, None, 1, 2])] for _ in range(rng.randint(2, 4))]
            yield {"kind": "lstsq_seq", "A": A.tolist(), "calls": calls}
        elif r < 0.55:
            m, nn = rng.randint(1, 6), rng.randint(1, 6)
            kind = rng.choice(["full", "full", "rankdef", "rankdef_rows", "scaled", "zero"])
            A = gen_matrix(rng, m, nn, kind)
            c = {"kind": "lstsq", "A": A.tolist(), "b": [rng.choice([-3, -1, 0, 1, 2, 5.5]) for _ in range(m)]}
            x = rng.random()
            if x < 0.25:
                c["rcond"] = rng.choice([1e-14, 1e-6, 1e-2, 0.5])
            elif x < 0.35 and kind in ("full", "scaled") and np.linalg.matrix_rank(A) == min(m, nn):
                c["rcond"] = None      # "keep every positive singular value" is only meaningful at full rank
            if rng.random() < 0.3:
                c["cutoff"] = rng.randint(1, min(m, nn))
            yield c
        elif r < 0.7:
            nk = rng.randint(1, 4)
            m = rng.randint(nk, nk + 2)
            while True:
                A = gen_matrix(rng, m, nk, "full")
                if np.linalg.matrix_rank(A) == nk and np.linalg.cond(A) <= 100:
                    break
            yield {"kind": "newton", "A": A.tolist(), "xsol": [rng.choice([-2, -1, 0.5, 1, 3]) for _ in range(nk)],
                   "x0": [rng.choice([-1.5, 0.0, 0.25, 2.0]) for _ in range(nk)],
                   "weights": [rng.choice([None, 0.5, 2.0, 10.0]) for _ in range(nk)] if rng.random() < 0.5 else None,
                   "queries": rng.choice([None, [0, 1], [-1, 1]])}
        elif r < 0.85:
            nk = rng.randint(1, 4)
            lims = [[rng.choice([-10, -2, -1, 0]), rng.choice([0.5, 1, 3, 10])] for _ in range(nk)]
            yield {"kind": "scaling", "x": [rng.choice([-0.5, 0.0, 0.25, 0.9, 1.0]) for _ in range(nk)],
                   "weights": [rng.choice([0.25, 0.5, 1.0, 2.0, 4.0, 10.0]) for _ in range(nk)], "limits": lims,
                   "range": rng.choice([[0, 1], [-1, 1], [0, 10]])}
        else:
            nk, m = rng.randint(1, 3), rng.randint(1, 3)
            A = gen_matrix(rng, m, nk, "full")
            yield {"kind": "viewjac", "A": A.tolist(), "c": [rng.choice([-1, 0, 2]) for _ in range(m)],
                   "weights": [rng.choice([0.5, 1.0, 2.0]) for _ in range(nk)], "tweights": [rng.choice([0.5, 1.0, 3.0]) for _ in range(m)],
                   "limits": [[rng.choice([-10, -2]), rng.choice([3, 10])] for _ in range(nk)], "range": rng.choice([[0, 1], [-1, 1]]),
                   "nonlinear": rng.random() < 0.3, "queries": rng.random() < 0.5}


def main():
    ap = argparse.ArgumentParser()
    ap.add_argument("--family", default="c16")
    ap.add_argument("--seed", type=int, default=0)
    ap.add_argument("--n", type=int, default=100)
    ap.add_argument("--out", required=True)
    ap.add_argument("--replay", default=None)
    a = ap.parse_args()
    rng = random.Random(a.seed * 1000003 + 16)
    t0 = time.time()
    stats = dict(ops=0, histories=0, lstsq_cases=0, newton_cases=0, scaling_cases=0, viewjac_cases=0, svd_hypotheses_failed=0)
    failures, lines = [], []
    cases = [c for ops in json.load(open(a.replay)) for c in ops] if a.replay else list(gen_cases(rng, a.n))
    for i, case in enumerate(cases):
        def fail(prop, kind, detail, known=None, i=i):
            failures.append({"property": prop, "kind": kind, "hist": i, "op_index": 0, "detail": detail, "known": known})
        stats["ops"] += 1
        stats["histories"] += 1
        try:
            run_case(case, fail, stats)
        except np.linalg.LinAlgError:
            stats["linalg_error"] = stats.get("linalg_error", 0) + 1
        line = {k: v for k, v in case.items() if not k.startswith("_")}
        line["op"] = "case"
        line["hist"] = i
        dl = case.get("_line")
        if dl:
            line.update({k: dl[k] for k in ("U", "s", "Vh", "rcond", "cutoff")})
            line["b_bits"] = dl["b"]
            line["impl"] = {"x": dl["x"]}
        else:
            line["impl"] = {}
        lines.append(line)
    with open(a.out + ".ops.jsonl", "w") as f:
        for ln in lines:
            f.write(json.dumps(ln) + "\n")
    stats["wall_s"] = time.time() - t0
    with open(a.out + ".res.json", "w") as f:
        json.dump({"stats": stats, "failures": failures}, f)


if __name__ == "__main__":
    main()
