"""Printer correspondence for C06 / C11: the model's token list for an expression structure read from
the real object's fields vs Python's own tokenisation of the object's printed text."""
import common as C
import suite as S


# what the last call of `correspond` saw (evidence): lines compared, lines whose structure has a key outside str | int
# (printed and parsed by XModel/ParseKeys.lean), lines where the model parser read Python's tokens of the real text
STATS = {"lines": 0, "extended_key_lines": 0, "real_tokens_parsed_by_model": 0}


def correspond(prop, prefixes):
    diffs, n = [], 0
    for k in STATS:
        STATS[k] = 0
    for pref, bdir, bname in prefixes:
        C.run_driver("expr", pref + ".ops.jsonl", pref + ".model.jsonl")
        ops = S.load_lines(pref + ".ops.jsonl")
        mod = S.load_lines(pref + ".model.jsonl")
        if len(ops) != len(mod):
            diffs.append({"field": "line-count", "impl": len(ops), "model": len(mod)})
            continue
        for o, m in zip(ops, mod):
            if m.get("skip") or o.get("pexpr") is None:
                continue
            n += 1
            if "bad-op" in m:
                diffs.append({"field": "bad-op", "pexpr": o["pexpr"], "model": m["bad-op"]})
            elif o["impl"].get("tokens") != m.get("tokens"):
                diffs.append({"field": "tokens", "pexpr": o["pexpr"], "text": o["impl"].get("text"),
                              "impl": o["impl"].get("tokens"), "model": m.get("tokens")})
            elif not m.get("parses_back"):
                diffs.append({"field": "parses_back", "pexpr": o["pexpr"], "text": o["impl"].get("text")})
            elif m.get("ext_tokens_same") is False or m.get("ext_parses_back") is False:
                # a structure inside XModel/Parse.lean's language: the extended model (XModel/ParseKeys.lean) must print
                # its embedding with the same tokens and read them back (ParseKeys.print_embed / parse_print_embed, executed)
                diffs.append({"field": "extended-model-disagrees-with-Parse", "pexpr": o["pexpr"], "text": o["impl"].get("text"),
                              "ext_tokens_same": m.get("ext_tokens_same"), "ext_parses_back": m.get("ext_parses_back")})
            elif m.get("impl_parse") is False:
                # the MODEL parser (with tuple / bool / None / float keys) on Python's tokens of the REAL text does not
                # give the structure read from the object's fields
                diffs.append({"field": "impl_parse", "pexpr": o["pexpr"], "text": o["impl"].get("text"),
                              "impl": o["impl"].get("tokens")})
            STATS["lines"] += 1
            STATS["extended_key_lines"] += bool(m.get("ext"))
            STATS["real_tokens_parsed_by_model"] += m.get("impl_parse") is True
    return diffs, n
