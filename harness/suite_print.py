"""Printer correspondence for C06 / C11: the model's token list for an expression structure read from
the real object's fields vs Python's own tokenisation of the object's printed text."""
import common as C
import suite as S


def correspond(prop, prefixes):
    diffs, n = [], 0
    for pref, bdir, bname in prefixes:
        C.run_driver("expr", pref + ".ops.jsonl", pref + ".model.jsonl")
        ops = S.load_lines(pref + ".ops.jsonl")
        mod = S.load_lines(pref + ".model.jsonl")
        if len(ops) != len(mod):
            diffs.append({"field": "line-count", "impl": len(ops), "model": len(mod)})
            continue
        for o, m in zip(ops, mod):
            if m.get("skip") or o.get("pexpr") is None:
                continue
            n += 1
            if "bad-op" in m:
                diffs.append({"field": "bad-op", "pexpr": o["pexpr"], "model": m["bad-op"]})
            elif o["impl"].get("tokens") != m.get("tokens"):
                diffs.append({"field": "tokens", "pexpr": o["pexpr"], "text": o["impl"].get("text"),
                              "impl": o["impl"].get("tokens"), "model": m.get("tokens")})
            elif not m.get("parses_back"):
                diffs.append({"field": "parses_back", "pexpr": o["pexpr"], "text": o["impl"].get("text")})
    return diffs, n
