"""Worker: generate manager histories, run them on the real xdeps (scratch copy on PYTHONPATH),
apply the properties' own oracles, and write the protocol lines for the Lean driver.

usage: w_mgr.py --family F --seed S --n N --out PREFIX [--replay FILE]
writes PREFIX.ops.jsonl (one protocol line per op, with a `hist` field) and PREFIX.res.json
"""
import argparse
import copy
import json
import math
import random
import sys
import time

sys.setrecursionlimit(1000)   # CPython's default: the depth clause of C01/C02 is about this limit

import mgrlib as ml
from xdeps.tasks import ExprTask as xt_ExprTask
from mgrlib import pkey, chain, comparable

# ----------------------------------------------------------------------------
# universe
# ----------------------------------------------------------------------------
TOP = list("abcdefgh")


def initial_store(rng, nested):
    d = [[k, rng.randint(-4, 6)] for k in TOP]
    if nested:
        d.append(["n", {"d": [[k, rng.randint(-4, 6)] for k in "xyz"]}])
        d.append(["k", {"d": [[k, rng.randint(-4, 6)] for k in "pq"]}])
        d.append(["l", {"l": [rng.randint(-4, 6) for _ in range(3)]}])
        d.append(["o", {"o": [[k, rng.randint(-4, 6)] for k in "uv"]}])
        # three levels deep: d['zz']['hh']['u'] (an assignment there triggers the readers of d['zz']['t'] through d['zz'])
        d.append(["zz", {"d": [["hh", {"d": [[k, rng.randint(-4, 6)] for k in "uv"]}], ["t", rng.randint(-4, 6)]]}])
    m = [[k, rng.randint(-4, 6)] for k in "rst"]
    if nested:
        m.append(["w", {"o": [["i", rng.randint(-4, 6)], ["j", rng.randint(-4, 6)]]}])
    return {"d": {"d": d}, "m": {"d": m}}


def leaf_paths(nested):
    P = [["d", ["i", k]] for k in TOP] + [["m", ["i", k]] for k in "rst"]
    if nested:
        P += [["d", ["i", "n"], ["i", k]] for k in "xyz"]
        P += [["d", ["i", "k"], ["i", k]] for k in "pq"]
        P += [["d", ["i", "l"], ["i", i]] for i in range(3)]
        P += [["d", ["i", "o"], ["a", k]] for k in "uv"]
        P += [["m", ["i", "w"], ["a", k]] for k in "ij"]
        P += [["d", ["i", "zz"], ["i", "hh"], ["i", k]] for k in "uv"] + [["d", ["i", "zz"], ["i", "t"]]]
    return P


# ----------------------------------------------------------------------------
# mirror: what the *user* has defined, maintained from the operations alone
# ----------------------------------------------------------------------------
class Mirror:
    def __init__(self):
        self.defs = {}       # pkey(path) -> ("expr", path, term) | ("func", id, body, deps, tars) | ("knob", id, src, ws, tars)
        self.plain = {}      # pkey(path) -> last value assigned (locations without a definition)
        self.knob_prev = {}  # id -> last source value seen
        self.unsettled = set()  # ids registered but not yet triggered (function / knob / loaded)

    def writers(self):
        """(id, [leaf targets], [leaf reads]) per definition"""
        out = []
        for k, d in self.defs.items():
            if d[0] == "expr":
                out.append((k, [d[1]], ml.term_refs(d[2])))
            elif d[0] == "func":
                out.append((k, [p for p, _ in d[2]], [r for _, t in d[2] for r in ml.term_refs(t)]))
            else:
                out.append((k, list(d[4]), [d[2]]))
        return out

    def dataflow_cyclic(self):
        ws = self.writers()
        adj = {k: [] for k, _, _ in ws}
        for ku, tu, _ in ws:
            for kt, _, rt in ws:
                if any(comparable(a, r) for a in tu for r in rt):
                    adj[ku].append(kt)
        # any cycle, self-loops included
        color = {}

        def dfs(u):
            color[u] = 1
            for v in adj[u]:
                if color.get(v) == 1:
                    return True
                if v not in color and dfs(v):
                    return True
            color[u] = 2
            return False

        return any(k not in color and dfs(k) for k in adj)

    def overlapping_targets(self):
        ws = self.writers()
        for i, (ku, tu, _) in enumerate(ws):
            for kt, tt, _ in ws[i + 1:]:
                if any(comparable(a, b) for a in tu for b in tt):
                    return True
        return False


def is_nan(x):
    return isinstance(x, float) and math.isnan(x)


def same(a, b):
    if is_nan(a) or is_nan(b):
        return is_nan(a) and is_nan(b)
    return type(a) is type(b) and a == b


# ----------------------------------------------------------------------------
# declared graph from the public task attributes (oracle side of C02 / D1 signature)
# ----------------------------------------------------------------------------
def declared(im):
    tasks = im.m.tasks
    ids = list(tasks)
    T = {pkey(ml.id_json(t)): set(pkey(ml.path_of_ref(r)) for r in tasks[t].targets) for t in ids}
    D = {pkey(ml.id_json(t)): set(pkey(ml.path_of_ref(r)) for r in tasks[t].dependencies) for t in ids}
    return T, D


def triggered_set(T, D, p):
    ch = set(pkey(c) for c in chain(p))
    start = [t for t in D if D[t] & ch]
    reach = set(start)
    todo = list(start)
    while todo:
        u = todo.pop()
        for t in D:
            if t not in reach and (T[u] & D[t]):
                reach.add(t)
                todo.append(t)
    return reach


def has_two_cycle(T, D, nodes):
    """a cycle through at least two distinct tasks inside `nodes`"""
    nodes = list(nodes)
    adj = {u: [t for t in nodes if t != u and (T[u] & D[t])] for u in nodes}
    # Tarjan-free: reachability closure (graphs are small)
    for a in nodes:
        seen = set()
        todo = list(adj[a])
        while todo:
            x = todo.pop()
            if x in seen:
                continue
            seen.add(x)
            todo.extend(adj[x])
        if a in seen:
            return True
    return False


def executed_tasks(im, mirror, trace, p):
    """task executions in the write/action trace of one assignment (after the initial write)"""
    ev = list(trace)
    if ev and ev[0] == ["w", p]:
        ev = ev[1:]
    knob_of = {}
    for k, d in mirror.defs.items():
        if d[0] == "knob":
            for t in d[4]:
                knob_of[pkey(t)] = (k, [pkey(x) for x in d[4]])
    out = []
    i = 0
    while i < len(ev):
        kind, what = ev[i]
        if kind == "a":
            out.append(pkey(what))
            i += 1
        elif pkey(what) in knob_of and pkey(what) not in {k for k, d in mirror.defs.items() if d[0] == "expr"}:
            kid, tars = knob_of[pkey(what)]
            j = 0
            while i < len(ev) and j < len(tars) and ev[i][0] == "w" and pkey(ev[i][1]) == tars[j]:
                i += 1
                j += 1
            if j == 0:
                i += 1
            out.append(kid)
        else:
            out.append(pkey(what))
            i += 1
    return out


# ----------------------------------------------------------------------------
# history generation
# ----------------------------------------------------------------------------
MIX = {
    # family: weights of (set, setexpr, iop, unregister, regfunc, regknob, maint, load, query)
    "c01": dict(set=30, setexpr=34, iop=10, unregister=6, regfunc=5, regknob=4, maint=3, load=0, query=0, freeze=0, fault=0),
    "c02": dict(set=40, setexpr=32, iop=6, unregister=4, regfunc=8, regknob=6, maint=0, load=0, query=0, freeze=0, fault=0),
    "c03": dict(set=16, setexpr=32, iop=6, unregister=16, regfunc=5, regknob=2, maint=10, load=6, query=7, freeze=0, fault=0),
    "c17": dict(set=24, setexpr=24, iop=8, unregister=10, regfunc=5, regknob=2, maint=12, load=6, query=3, freeze=10, fault=0),
    "c13": dict(set=30, setexpr=50, iop=8, unregister=4, regfunc=0, regknob=0, maint=0, load=0, query=0, freeze=0, fault=0, genfun=8),
    # C11's manager half: definitions loaded from dumps (overwrite on and off) between assignments; expression tasks only
    "c11": dict(set=28, setexpr=34, iop=4, unregister=4, regfunc=0, regknob=0, maint=6, load=20, query=4, freeze=0, fault=0),
    "c18": dict(set=40, setexpr=26, iop=6, unregister=3, regfunc=6, regknob=3, maint=2, load=0, query=0, freeze=0, fault=22),
}


for _m in MIX.values():
    _m.setdefault("genfun", 0)


class Gen:
    def __init__(self, rng, family):
        self.rng = rng
        self.family = family
        self.nested = rng.random() < (0.45 if family != "c03" else 0.7)
        self.P = leaf_paths(self.nested)
        order = list(range(len(self.P)))
        rng.shuffle(order)
        self.rank = {pkey(self.P[i]): r for r, i in enumerate(order)}
        self.nfunc = 0
        self.acyclic_bias = 0.93 if family in ("c01", "c02", "c18") else (0.97 if family == "c13" else 0.8)
        # "flat producers" mode keeps nested members from reading their own container (no D1 cycles)
        self.safe_nested = rng.random() < 0.6

    def term(self, target, depth=0, need_ref=True):
        rng = self.rng
        x = rng.random()
        if depth >= 3 or x < 0.35:
            if need_ref or rng.random() < 0.75:
                return ["ref", self.pick_src(target)]
            return ["lit", rng.randint(-3, 4)]
        if x < 0.9:
            op = rng.choice(["Add", "Add", "Sub", "Mul", "Floordiv", "Mod"])
            a = self.term(target, depth + 1, need_ref)
            b = self.term(target, depth + 1, False)
            if rng.random() < 0.3:
                a, b = b, a
            if a[0] == "lit" and b[0] == "lit":
                a = ["ref", self.pick_src(target)]
            return ["bin", op, a, b]
        return ["un", rng.choice(["Neg", "Pos"]), self.term(target, depth + 1, True)]

    def pick_src(self, target):
        rng = self.rng
        P = self.P
        if target is not None and rng.random() < self.acyclic_bias:
            lower = [q for q in P if self.rank[pkey(q)] < self.rank[pkey(target)]]
            if self.safe_nested and len(target) > 2:
                lower = [q for q in lower if q[:2] != target[:2]]
            if lower:
                return rng.choice(lower)
        return rng.choice(P)


def leaf_diff(a, b, prefix=None):
    """paths (protocol form) of the leaves at which two canonical store values differ"""
    out = []
    if prefix is None:
        da, db = dict((k, v) for k, v in a.get("d", [])), dict((k, v) for k, v in b.get("d", []))
        for lab in sorted(set(da) | set(db)):
            if lab not in da or lab not in db:
                out.append([lab])
            else:
                out += leaf_diff(da[lab], db[lab], [lab])
        return out
    if isinstance(a, dict) and isinstance(b, dict) and set(a) == set(b) and len(a) == 1:
        kind = next(iter(a))
        if kind in ("d", "o"):
            step = "i" if kind == "d" else "a"
            da = dict((json.dumps(k), (k, v)) for k, v in a[kind])
            db = dict((json.dumps(k), (k, v)) for k, v in b[kind])
            for kk in sorted(set(da) | set(db)):
                if kk not in da or kk not in db:
                    out.append(prefix + [[step, json.loads(kk)]])
                else:
                    out += leaf_diff(da[kk][1], db[kk][1], prefix + [[step, da[kk][0]]])
            return out
        if kind == "l":
            if len(a["l"]) != len(b["l"]):
                return [prefix]
            for idx, (x, y) in enumerate(zip(a["l"], b["l"])):
                out += leaf_diff(x, y, prefix + [["i", idx]])
            return out
    return [] if json.dumps(a, sort_keys=True) == json.dumps(b, sort_keys=True) else [prefix]


class Session:
    """one history: the real manager, the mirror of what the user defined, and the oracles.
    `step(op)` executes one protocol operation and checks every property's oracle on it, so that a
    recorded operation list can be replayed (and shrunk) without the generator."""

    def __init__(self, hist_id, stats, failures, family="c01"):
        self.im = ml.ImplMgr()
        self.mirror = Mirror()
        self.hist_id = hist_id
        self.stats = stats
        self.failures = failures
        self.family = family
        self.lines = []
        self.c01_live = True
        self.frozen = False
        self.snapshot = None
        self.armed = None          # fault armed by the previous op
        self.P = []
        self.no_recovery_oracle = False
        self.recovery_checks = 0
        self.partial_knob_targets = set()    # targets of linear knobs whose run a fault interrupted after a target write

    # ---- plumbing ----
    def emit(self, op):
        line = self.im.apply({k: v for k, v in op.items() if not k.startswith("_")})
        for k, v in op.items():
            if k.startswith("_"):
                line[k] = v
        line["hist"] = self.hist_id
        self.lines.append(line)
        st = self.stats
        st["ops"] += 1
        st["op:" + op["op"]] = st.get("op:" + op["op"], 0) + 1
        if line["impl"]["exc"] != "ok":
            st["exc:" + line["impl"]["exc"]] = st.get("exc:" + line["impl"]["exc"], 0) + 1
        if line["impl"]["exc"] == "Fault" and ml.RAN and ml.RAN[-1] is not None:
            # which task was running when the container raised: a linear knob with several targets of which at least one
            # had been written has been left half applied (D34's signature)
            try:
                import xdeps.tasks as _xt
                last = json.loads(ml.RAN[-1])
                for tid, task in self.im.m.tasks.items():
                    if isinstance(task, _xt.LinearKnob) and ml.id_json(tid) == last and len(task.targets) >= 2:
                        tars = [json.dumps(ml.path_of_ref(t)) for t in task.targets]
                        written = [json.dumps(ev[1]) for ev in line["impl"].get("trace", []) if ev and ev[0] == "w"]
                        if any(t in written for t in tars):
                            self.partial_knob_targets.update(pkey(json.loads(t)) for t in tars)
                            st["knob_runs_interrupted_between_targets"] = st.get("knob_runs_interrupted_between_targets", 0) + 1
            except Exception:
                pass
        if line["impl"].get("internal_keyerror") and op["op"] in ("set", "setexpr", "iop"):
            # an assignment that dies on a task / location missing from the manager's own tables: none of the tasks it
            # should run has run (C02), the dependants are stale (C01), and a removed definition left a trace (C03)
            for prop in ("C01", "C02", "C03", "C17", "C18"):
                self.fail(prop, "assignment-fails-on-the-managers-own-tables",
                          {"op": {k: v for k, v in op.items() if not k.startswith("_")}, "missing": line["impl"]["internal_keyerror"]})
        return line

    def fail(self, prop, kind, detail, known=None):
        self.failures.append({"property": prop, "kind": kind, "hist": self.hist_id, "op_index": len(self.lines) - 1,
                              "detail": detail, "known": known})

    def recovery_oracle(self, p, cyclic):
        """C18, last sentence, for EVERY kind of dependant (expression, function and linear-knob targets): after the
        fault-free repeat the containers hold what they would hold had the faulty attempts never been made — the same
        history without the armed faults and without the attempts they stopped, replayed on a fresh manager."""
        if self.no_recovery_oracle or self.recovery_checks >= 2 or cyclic:
            return
        if self.mirror.dataflow_cyclic() or self.mirror.overlapping_targets() or getattr(self, "ever_out_of_scope", False):
            return
        if any(l["impl"]["exc"] not in ("ok", "Fault") for l in self.lines):
            return          # another failure left a partial update whose extent depends on the order of independent tasks
        srcs = {pkey(l["src"]) for l in self.lines if l["op"] == "regknob"}
        if any(l["op"] in ("setexpr", "iop", "load", "regfunc") and
               (pkey(l.get("path")) in srcs or any(pkey(q) in srcs for q in l.get("tars", [])) or
                any(pkey(pe[0]) in srcs for pe in l.get("pairs", []))) for l in self.lines):
            return          # a knob whose source is itself computed (possibly from the knob's own targets) is a feedback loop:
                            # the state depends on how often the knob ran, with or without a fault
        self.recovery_checks += 1
        clean = []
        for l in self.lines:
            if l["op"] == "fault" or l["impl"]["exc"] == "Fault":
                continue
            clean.append({k: v for k, v in l.items() if k not in ("impl", "order", "hist") and not k.startswith("_")})
        tw = Session(self.hist_id, new_stats(), [], self.family)
        tw.no_recovery_oracle = True
        try:
            for o in clean:
                tw.step(o)
        except Exception:
            return
        if not tw.lines or any(l["impl"]["exc"] != "ok" for l in tw.lines):
            return
        got = ml.canon_val(self.lines[-1]["impl"]["store"])
        want = ml.canon_val(tw.lines[-1]["impl"]["store"])
        self.stats["c18_recovered_vs_never_faulted"] = self.stats.get("c18_recovered_vs_never_faulted", 0) + 1
        if got == want:
            return
        differing = leaf_diff(got, want)
        known = None
        if self.partial_knob_targets and differing:
            # D34: every differing location is a target of a knob left half applied, or depends on one
            down = [json.loads(k) for k in self.partial_knob_targets]
            try:
                start = [self.im.ref(t) for t in list(down)]
                for r in self.im.m.find_deps(start):
                    down.append(ml.path_of_ref(r))
            except Exception:
                pass
            if all(any(d[:len(t)] == t for t in down) for d in differing):
                known = "D34"
        self.fail("C18", "recovered-state-differs-from-never-faulted", {"path": p, "differing": differing[:8] if differing else differing,
                                                                         "half_applied_knob_targets": sorted(self.partial_knob_targets)}, known)

    def quiet_verify(self):
        import io, contextlib
        with contextlib.redirect_stdout(io.StringIO()):
            self.im.m.verify()

    def blocked(self, for_def):
        out = []
        for d in self.mirror.defs.values():
            if d[0] == "func":
                out += [q for q, _ in d[2]]
            elif d[0] == "knob" and for_def:
                out += list(d[4])
        return out

    # ---- one operation ----
    def step(self, op):
        im, mirror, stats = self.im, self.mirror, self.stats
        kind = op["op"]
        frozen = self.frozen
        prev_store = None
        if self.lines and "store" in self.lines[-1]["impl"]:
            prev_store = ml.canon_val(self.lines[-1]["impl"]["store"])
        faulted = self.armed if kind in ("set", "setexpr", "iop") else None
        self.armed = None
        expect_reject = False
        line = None
        p = op.get("path")
        if kind in ("reset",):
            self.emit(op)
            return
        if kind == "container":
            self.emit(op)
            self._index_leaves(op["label"], op["value"])
            return
        if kind == "fault":
            self.emit(op)
            self.armed = op["k"]
            return
        if kind == "set":
            v = op["value"]
            expect_reject = pkey(p) in mirror.defs
            line = self.emit(op)
            if not (frozen and expect_reject) and line["impl"]["exc"] in ("ok", "Fault"):
                mirror.defs.pop(pkey(p), None)
                mirror.plain[pkey(p)] = float("nan") if v == "nan" else v
        elif kind == "setexpr":
            expect_reject = True
            line = self.emit(op)
            if not frozen:
                mirror.defs[pkey(p)] = ("expr", p, op["expr"])
                mirror.plain.pop(pkey(p), None)
        elif kind == "iop":
            opn, operand = op["iop"], op["operand"]
            old_def = mirror.defs.get(pkey(p))
            try:
                oldv = im.raw_get(p)
            except Exception:
                oldv = None
            expect_reject = (old_def is not None) or operand[0] == "ref"
            line = self.emit(op)
            if not (frozen and expect_reject):
                if old_def is not None:
                    mirror.defs[pkey(p)] = ("expr", p, ["bin", opn, old_def[2], operand])
                elif operand[0] == "ref":
                    mirror.defs[pkey(p)] = ("expr", p, ["bin", opn, ["lit", ml.val_json(oldv)], operand])
                    mirror.plain.pop(pkey(p), None)
                else:
                    try:
                        want = ml.BIN[opn](oldv, operand[1])
                        wexc = "ok"
                    except Exception as e:
                        want, wexc = None, type(e).__name__
                    if line["impl"]["exc"] in ("ok", "Fault") and wexc == "ok":
                        mirror.plain[pkey(p)] = want     # what Python computes on the old value
                    elif line["impl"]["exc"] != wexc:
                        self.fail("C01", "inplace-exception", {"path": p, "op": opn, "old": repr(oldv), "operand": operand[1],
                                                               "got": line["impl"]["exc"], "want": wexc})
        elif kind == "unregister":
            expect_reject = True
            tid = op["id"]
            k = pkey(tid)
            d = mirror.defs.get(k)
            ln = self.emit(op)
            if not frozen and d is not None:
                mirror.defs.pop(k, None)
                mirror.unsettled.discard(k)
                try:
                    if d[0] == "expr":
                        mirror.plain[k] = im.raw_get(d[1])
                    else:
                        for t in (d[4] if d[0] == "knob" else [q for q, _ in d[2]]):
                            mirror.plain[pkey(t)] = im.raw_get(t)
                except Exception:
                    pass
                if ln["impl"]["exc"] != "ok":
                    self.fail("C03", "unregister-raises", {"id": tid, "exc": ln["impl"]["exc"]})
        elif kind == "regfunc":
            expect_reject = True
            self.emit(op)
            if not frozen:
                mirror.defs[pkey(op["id"])] = ("func", op["id"], op["body"], op["deps"], op["tars"])
                for q, _ in op["body"]:
                    mirror.plain.pop(pkey(q), None)
                mirror.unsettled.add(pkey(op["id"]))
        elif kind == "regknob":
            expect_reject = True
            ln = self.emit(op)
            if not frozen and ln["impl"]["exc"] == "ok":
                mirror.defs[pkey(op["id"])] = ("knob", op["id"], op["src"], op["ws"], op["tars"])
                mirror.knob_prev[pkey(op["id"])] = im.raw_get(op["src"])
        elif kind in ("refresh", "cleanup", "verify", "clone"):
            # refresh() does not add or remove a definition: it may raise ValueError or not,
            # but must leave everything as it is
            self.emit(op)
        elif kind == "load":
            ow = op["overwrite"]
            expect_reject = any(ow or pkey(q) not in mirror.defs for q, _ in op["pairs"])
            self.emit(op)
            if not frozen:
                for q, t in op["pairs"]:
                    k = pkey(q)
                    if k in mirror.defs and not ow:
                        continue
                    mirror.defs[k] = ("expr", q, t)
                    mirror.plain.pop(k, None)
                    mirror.unsettled.add(k)
        elif kind == "query":
            self.emit(op)
        elif kind in ("clonekeep", "cloneop"):
            # oracle-only histories (NeverFrozenTwin below): a clone that is kept, and calls made on it.  Neither changes a
            # definition of THIS manager; a call on the clone may write the shared containers behind this manager's back,
            # after which the pull-model oracle of C01 has nothing to say about it
            self.emit(op)
            if kind == "cloneop":
                self.c01_live = False
        elif kind == "genfun":
            self._genfun(op)
            return
        elif kind == "freeze":
            ln = self.emit(op)
            self.frozen = True
            self.ever_frozen = True
            impl = ln["impl"]
            self.snapshot = (ml.canon_defs(impl["defs"]), ml.canon_sup(impl["sup"]))
            return
        elif kind == "unfreeze":
            self.emit(op)
            self.frozen = False
            return
        else:
            raise ValueError("unknown op " + kind)

        last = self.lines[-1]
        # ---------------- C17: while frozen ----------------
        if frozen:
            impl = last["impl"]
            stats["frozen_ops"] += 1
            if last["op"] != "query":
                cur = (ml.canon_defs(impl["defs"]), ml.canon_sup(impl["sup"]))
                if cur != self.snapshot:
                    self.fail("C17", "graph-changed-while-frozen", {"op": last["op"], "exc": impl["exc"]})
                    self.snapshot = cur
                if expect_reject:
                    stats["frozen_rejected"] = stats.get("frozen_rejected", 0) + 1
                    data_err = last["op"] == "iop" and impl["exc"] in ("KeyError", "IndexError", "TypeError", "AttributeError", "ZeroDivisionError", "OverflowError")
                    if impl["exc"] != "ValueError" and not data_err:
                        self.fail("C17", "no-ValueError", {"op": last["op"], "exc": impl["exc"]})
                    if ml.canon_val(impl["store"]) != prev_store:
                        self.fail("C17", "data-changed-by-rejected-call", {"op": last["op"]})
                elif last["op"] == "refresh" and impl["exc"] not in ("ok", "ValueError"):
                    self.fail("C17", "refresh-raises-while-frozen", {"exc": impl["exc"]})
                elif last["op"] in ("verify", "cleanup", "clone") and impl["exc"] != "ok":
                    self.fail("C17", "maintenance-raises-while-frozen", {"op": last["op"], "exc": impl["exc"]})
            if expect_reject:
                line = None     # a rejected call is not an assignment

        # ---------------- oracles on a data operation ----------------
        if line is not None and line["op"] in ("set", "setexpr", "iop"):
            impl = line["impl"]
            T, D = declared(im)
            trig = triggered_set(T, D, p)
            cyc2 = has_two_cycle(T, D, trig)
            stats["dataops"] += 1
            stats["declared_cyclic"] += cyc2
            # ---- C02: exactly the triggered set, once each, producers first
            if impl["exc"] == "ok":
                ex = executed_tasks(im, mirror, impl["trace"], p)
                if len(set(ex)) != len(ex):
                    self.fail("C02", "ran-twice", {"path": p, "executed": ex})
                if set(ex) != trig:
                    self.fail("C02", "wrong-set", {"path": p, "executed": sorted(ex), "expected": sorted(trig)})
                elif not cyc2:
                    pos = {t: i for i, t in enumerate(ex)}
                    for u in trig:
                        for t in trig:
                            if u != t and (T[u] & D[t]) and pos[u] > pos[t]:
                                self.fail("C02", "order", {"path": p, "producer": u, "consumer": t, "executed": ex})
                if len(trig) > 1:
                    stats["c02_nontrivial"] += 1
            elif impl["exc"] == "RecursionError":
                self.fail("C02", "RecursionError", {"path": p, "ntasks": len(im.m.tasks)})
                self.fail("C01", "RecursionError", {"path": p, "ntasks": len(im.m.tasks)})
            # ---- C18: a fault reaches the caller, the prefix ran, nothing else changed
            if faulted is not None:
                stats["faulted_ops"] += 1
                if impl["exc"] == "Fault":
                    stats["faults_fired"] += 1
                    # what ran is a prefix of the schedule; nothing after the failing task ran
                    ex = executed_tasks(im, mirror, impl["trace"], p)
                    sched = [pkey(x) for x in (line.get("order") or [])]
                    nw = sum(1 for e in impl["trace"] if e[0] == "w")
                    if ex != sched[:len(ex)] or nw > faulted:
                        self.fail("C18", "not-a-prefix", {"path": p, "k": faulted, "executed": ex, "schedule": sched})
                    try:
                        self.quiet_verify()
                    except Exception as e:
                        self.fail("C18", "verify-after-fault", {"path": p, "exc": type(e).__name__})
                    self.c01_live = False   # values downstream of the failed update are legitimately stale
                elif impl["exc"] == "ok" and impl.get("fault_fired"):
                    # the container did raise, and the assignment returned normally
                    self.fail("C18", "fault-swallowed-or-changed", {"path": p, "exc": "ok", "k": faulted})
                elif impl["exc"] == "ok":
                    stats["faults_not_reached"] += 1
                elif impl["exc"] not in ("KeyError", "IndexError", "TypeError", "AttributeError", "ZeroDivisionError", "OverflowError", "ValueError"):
                    self.fail("C18", "fault-swallowed-or-changed", {"path": p, "exc": impl["exc"]})
            if op.get("_repeat") and impl["exc"] == "ok":
                # the repeated assignment must re-establish everything downstream of it
                if not cyc2 and not mirror.dataflow_cyclic() and not mirror.overlapping_targets():
                    stats["c18_repeats_checked"] = stats.get("c18_repeats_checked", 0) + 1
                    for k, d in mirror.defs.items():
                        if d[0] == "expr" and (k in trig or k == pkey(p)):
                            try:
                                want = im.pull(d[2])
                                got = im.raw_get(d[1])
                            except Exception:
                                continue
                            if not same(got, want):
                                self.fail("C18", "stale-after-repeat", {"location": d[1], "got": repr(got), "want": repr(want)})
            elif op.get("_repeat") and impl["exc"] not in ("KeyError", "IndexError", "TypeError", "AttributeError", "ZeroDivisionError", "OverflowError"):
                self.fail("C18", "repeat-raises", {"path": p, "exc": impl["exc"]})
            if op.get("_repeat") and impl["exc"] == "ok":
                self.recovery_oracle(p, cyc2)
            # ---- C01: pull-model re-evaluation
            if impl["exc"] != "ok" and not (frozen and impl["exc"] == "ValueError"):
                self.c01_live = False          # (a call rejected by the freeze leaves everything as it was)
            if mirror.dataflow_cyclic() or mirror.overlapping_targets():
                if self.c01_live:
                    stats["c01_out_of_scope"] += 1
                self.c01_live = False
                self.ever_out_of_scope = True      # a definition that reads what it writes: the state depends on how often it ran
            if self.c01_live:
                self._c01_pull(p, trig, cyc2)

        # ---------------- C03 oracle: supports are a function of the surviving tasks ----------------
        if "sup" in last["impl"] and last["op"] != "clone":
            self._c03_supports(last)
        elif last["op"] == "clone" and "clone_sup" in last["impl"]:
            self._c03_supports(last, key="clone_sup")
        if last["op"] == "verify" and last["impl"]["exc"] != "ok":
            self.fail("C03", "verify-fails", {"exc": last["impl"]["exc"]})

    def _genfun(self, op):
        """C13: f(*values) on this manager vs assigning the values one by one on a twin"""
        im, mirror, stats = self.im, self.mirror, self.stats
        prior = [strip_op(l) for l in self.lines]
        T, D = declared(im)
        trig = set()
        for pth, _ in op["args"]:
            trig |= triggered_set(T, D, pth)
        cyc2 = has_two_cycle(T, D, trig)
        line = self.emit(op)
        stats["genfun_ops"] = stats.get("genfun_ops", 0) + 1
        self.c01_live = False
        for pth, v in op["args"]:
            mirror.plain[pkey(pth)] = float("nan") if v == "nan" else v
        if line["impl"]["exc"] != "ok":
            texts = " ".join(str(getattr(t, "expr", "")) for t in im.m.tasks.values())
            if line["impl"]["exc"] == "NameError" and ("nan" in texts or "inf" in texts):
                # an earlier division by zero left NaN in a location, and an in-place operator baked it into an expression
                # as a literal: the printed source then names `nan` (C13 excludes division by zero, C11 non-finite constants)
                stats["c13_out_of_scope"] = stats.get("c13_out_of_scope", 0) + 1
                return
            if line["impl"]["exc"] not in ("KeyError", "IndexError", "TypeError", "AttributeError", "ZeroDivisionError", "OverflowError"):
                self.fail("C13", "generated-function-raises", {"args": op["args"], "exc": line["impl"]["exc"]})
            return
        # source lists the triggered expression tasks once each, in dependency order
        listed = [pkey(x) for x in (line.get("order") or [])]
        if len(set(listed)) != len(listed):
            self.fail("C13", "task-listed-twice", {"listed": listed})
        if set(listed) != trig:
            self.fail("C13", "listed-tasks-differ", {"args": [a[0] for a in op["args"]], "listed": sorted(listed), "expected": sorted(trig)})
        elif not cyc2:
            pos = {t: i for i, t in enumerate(listed)}
            for u in trig:
                for t in trig:
                    if u != t and (T[u] & D[t]) and pos[u] > pos[t]:
                        self.fail("C13", "listed-out-of-order", {"producer": u, "consumer": t})
        if cyc2 or mirror.dataflow_cyclic() or mirror.overlapping_targets():
            stats["c13_out_of_scope"] = stats.get("c13_out_of_scope", 0) + 1
            return
        tw = ml.ImplMgr()
        for o in prior:
            if o["op"] in ("fault",):
                continue
            tw.apply(o)
        bad = False
        for pth, v in op["args"]:
            r = tw.apply({"op": "set", "path": pth, "value": v})
            bad = bad or r["impl"]["exc"] != "ok"
        a, b = ml.canon_val(line["impl"]["store"]), ml.canon_val(tw.store_json())
        if bad or '"nan"' in json.dumps(a) or '"nan"' in json.dumps(b):
            stats["c13_out_of_scope"] = stats.get("c13_out_of_scope", 0) + 1
            return
        stats["c13_twin_checks"] = stats.get("c13_twin_checks", 0) + 1
        if a != b:
            self.fail("C13", "function-differs-from-assignments", {"args": op["args"]})

    def _index_leaves(self, label, spec):
        def walk(path, v):
            if isinstance(v, dict) and "d" in v:
                for k, x in v["d"]:
                    walk(path + [["i", k]], x)
            elif isinstance(v, dict) and "l" in v:
                for i, x in enumerate(v["l"]):
                    walk(path + [["i", i]], x)
            elif isinstance(v, dict) and "o" in v:
                for k, x in v["o"]:
                    walk(path + [["a", k]], x)
            else:
                self.P.append(path)
                self.mirror.plain[pkey(path)] = float("nan") if v == "nan" else v
        walk([label], spec)

    def _c01_pull(self, p, trig, cyc2):
        im, mirror, stats = self.im, self.mirror, self.stats
        for k in list(mirror.unsettled):
            if k in trig:
                mirror.unsettled.discard(k)
        for k, d in mirror.defs.items():
            if d[0] == "knob" and k in trig:
                s = im.raw_get(d[2])
                delta = s - mirror.knob_prev[k]
                for w, t in zip(d[3], d[4]):
                    if pkey(t) in mirror.plain:
                        mirror.plain[pkey(t)] = mirror.plain[pkey(t)] + w * delta
                mirror.knob_prev[k] = s
        stats["c01_checked_ops"] += 1
        for k, d in mirror.defs.items():
            if k in mirror.unsettled:
                continue
            checks = []
            if d[0] == "expr":
                checks = [(d[1], d[2])]
            elif d[0] == "func":
                checks = [(q, t) for q, t in d[2]]
            for q, t in checks:
                try:
                    want = im.pull(t)
                    got = im.raw_get(q)
                except Exception:
                    continue
                stats["c01_locations_checked"] += 1
                if not same(got, want):
                    known = "D1" if (cyc2 and k in trig) else None
                    self.fail("C01", "stale", {"assigned": p, "location": q, "got": repr(got), "want": repr(want),
                                               "declared_cycle_in_triggered_set": bool(cyc2)}, known)
                    if known is None and getattr(self, "ever_frozen", False):
                        # "assigning plain values ... still updates all their dependants" while frozen, and "after
                        # unfreeze_tree() the manager behaves as if it had never been frozen"
                        self.fail("C17", "stale-while-frozen" if self.frozen else "stale-after-unfreeze",
                                  {"assigned": p, "location": q, "got": repr(got), "want": repr(want)})
                    self.c01_live = False
                    return
        for k, v in mirror.plain.items():
            q = json.loads(k)
            try:
                got = im.raw_get(q)
            except Exception:
                continue
            if not same(got, v):
                self.fail("C01", "plain-location-changed", {"assigned": p, "location": q, "got": repr(got), "want": repr(v)})
                if getattr(self, "ever_frozen", False):
                    self.fail("C17", "plain-location-changed-after-freeze", {"assigned": p, "location": q, "got": repr(got), "want": repr(v)})
                self.c01_live = False
                return

    def _c03_supports(self, last, key="sup"):
        T, D = declared(self.im)
        sup = ml.canon_sup(last["impl"][key])
        want = {"rdeps": {}, "rtasks": {}, "deptasks": {}, "tartasks": {}}
        for t in T:
            for d in D[t]:
                want["deptasks"].setdefault(d, set()).add(t)
                for r in T[t]:
                    want["rdeps"].setdefault(d, set()).add(r)
            for r in T[t]:
                want["tartasks"].setdefault(r, set()).add(t)
            for u in T:
                if T[u] & D[t]:
                    want["rtasks"].setdefault(u, set()).add(t)
        for name in want:
            w = sorted([k, sorted(v)] for k, v in want[name].items())
            if w != sup[name]:
                extra = [r for r in sup[name] if r not in w]
                missing = [r for r in w if r not in sup[name]]
                self.fail("C03", "support-" + name, {"after": last["op"], "extra": extra[:3], "missing": missing[:3]})
                break
        self.stats["c03_support_checks"] += 1


def gen_history(rng, family, sess, maxops):
    """draw the next operations from the generator, feeding them to the session"""
    g = Gen(rng, family)
    mirror = sess.mirror
    im = sess.im
    sess.step({"op": "reset"})
    store = initial_store(rng, g.nested)
    for lab in ("d", "m"):
        sess.step({"op": "container", "label": lab, "value": store[lab]})
    P = g.P

    def pick(for_def):
        blocked = sess.blocked(for_def)
        cand = [q for q in P if not any(comparable(q, b) for b in blocked)]
        return rng.choice(cand or P)

    mix = MIX[family]
    kinds, weights = zip(*mix.items())
    forced = []
    nops = rng.randint(4, maxops)
    for oi in range(nops):
        if forced:
            op = forced.pop(0)
            sess.step(op)
            continue
        kind = rng.choices(kinds, weights)[0]
        if kind == "fault":
            k = rng.randint(0, 4)
            fo = {"op": "fault", "k": k}
            if rng.random() < 0.5:
                fo["exc"] = rng.choice(["StopIteration", "KeyError", "RuntimeError", "LookupError", "ArithmeticError", "AttributeError"])
            sess.step(fo)
            kind = rng.choice(["set", "set", "setexpr", "iop"])
            op = draw(rng, g, sess, kind, pick)
            if op is None:
                op = {"op": "set", "path": pick(False), "value": rng.randint(-6, 9)}
            before_def = mirror.defs.get(pkey(op["path"]))
            sess.step(op)
            last = sess.lines[-1]
            if last["impl"]["exc"] == "Fault":
                # repeat the assignment once the fault is gone
                rep = dict(op)
                if op["op"] == "iop":
                    d = mirror.defs.get(pkey(op["path"]))
                    if d is not None and d[0] == "expr":
                        rep = {"op": "setexpr", "path": op["path"], "expr": d[2]}
                    else:
                        v = mirror.plain.get(pkey(op["path"]))
                        rep = {"op": "set", "path": op["path"], "value": v} if isinstance(v, int) else None
                if rep is not None:
                    rep["_repeat"] = True
                    forced.insert(0, rep)
            continue
        op = draw(rng, g, sess, kind, pick)
        if op is None:
            continue
        sess.step(op)
        forced.extend(bare_dependency_followup(rng, sess, op))
        if op["op"] == "regfunc" and not sess.frozen:
            blk = sess.blocked(False)
            srcs = [r for _, t in op["body"] for r in ml.term_refs(t)
                    if pkey(r) not in mirror.defs and not any(comparable(r, b) for b in blk)]
            if srcs:
                s0 = rng.choice(srcs)
                v0 = im.raw_get(s0)
                if isinstance(v0, int) or is_nan(v0):
                    forced.append({"op": "set", "path": s0, "value": ml.val_json(v0)})


def draw(rng, g, sess, kind, pick):
    mirror = sess.mirror
    P = g.P
    if kind == "set":
        return {"op": "set", "path": pick(False), "value": rng.randint(-6, 9)}
    if kind == "setexpr":
        p = pick(True)
        return {"op": "setexpr", "path": p, "expr": g.term(p)}
    if kind == "iop":
        p = pick(True)
        opn = rng.choice(["Add", "Sub", "Mul", "Floordiv", "Mod"])
        operand = ["lit", rng.randint(-2, 4)] if rng.random() < 0.75 else ["ref", g.pick_src(p)]
        return {"op": "iop", "iop": opn, "path": p, "operand": operand}
    if kind == "unregister":
        ids = list(mirror.defs.values())
        if not ids or rng.random() < 0.08:
            return {"op": "unregister", "id": rng.choice(P)}
        return {"op": "unregister", "id": rng.choice(ids)[1]}
    if kind in ("regfunc", "regknob"):
        free = [q for q in P if pkey(q) not in mirror.defs and not any(
            comparable(q, t) for _, ts, _ in mirror.writers() for t in ts)]
        g.nfunc += 1
        if kind == "regfunc":
            special = draw_rare_func(rng, g, sess, free)
            if special is not None:
                return special
            if len(free) < 2:
                return None
            tid = "#F%d" % g.nfunc
            tars = rng.sample(free, 1 if rng.random() < 0.6 else 2)
            body = [[q, g.term(q)] for q in tars]
            deps, seen = [], set()
            for _, t in body:
                for r in ml.term_refs(t):
                    for c in chain(r):
                        if pkey(c) not in seen:
                            seen.add(pkey(c))
                            deps.append(c)
            alltars, seen = [], set()
            for q in tars:
                for c in chain(q):
                    if pkey(c) not in seen:
                        seen.add(pkey(c))
                        alltars.append(c)
            return {"op": "regfunc", "id": tid, "body": body, "deps": deps, "tars": alltars}
        free = [q for q in free if not under_whole_reader(mirror, q)]
        if len(free) < 3:
            return None
        tid = "#K%d" % g.nfunc
        src = rng.choice(free)
        tars = rng.sample([q for q in free if q != src], rng.randint(1, 2))
        ws = [rng.randint(-2, 3) for _ in tars]
        return {"op": "regknob", "id": tid, "src": src, "ws": ws, "tars": tars, "alltars": tars}
    if kind == "maint":
        return {"op": rng.choice(["refresh", "cleanup", "verify", "clone"])}
    if kind == "load":
        pairs = []
        for _ in range(rng.randint(1, 3)):
            q = pick(True)
            pairs.append([q, g.term(q)])
        exprdefs = [d for d in mirror.defs.values() if d[0] == "expr"]
        if exprdefs and rng.random() < 0.35:
            # a pair that re-defines an existing target by an expression over exactly the same locations (the reloaded
            # dump, or the same reads combined differently): same edges in the graph, another definition
            d = rng.choice(exprdefs)
            same_reads = rng.choice([d[2], ["bin", "Add", d[2], ["lit", rng.randint(1, 3)]], ["un", "Neg", d[2]]])
            pairs[rng.randrange(len(pairs))] = [d[1], same_reads]
            return {"op": "load", "overwrite": rng.random() < 0.9, "pairs": pairs}
        return {"op": "load", "overwrite": rng.random() < 0.7, "pairs": pairs}
    if kind == "query":
        return {"op": "query", "path": rng.choice(P + [["d", ["i", "n"]]] if g.nested else P)}
    if kind == "freeze":
        if rng.random() < 0.25:
            # not only balanced pairs: freezing a frozen manager, unfreezing one that is not frozen — the manager is frozen
            # exactly between a freeze_tree() and the next unfreeze_tree(), however often either is called
            return {"op": "freeze" if sess.frozen else "unfreeze"}
        return {"op": "unfreeze" if sess.frozen else "freeze"}
    if kind == "genfun":
        blk = sess.blocked(False)
        free = [q for q in P if pkey(q) not in mirror.defs and not any(comparable(q, b) for b in blk)]
        if not free:
            return None
        args = rng.sample(free, min(len(free), rng.randint(1, 3)))
        # often the same setter as last time (same name, same references): whatever gen_fun keeps between two calls must
        # follow the definitions removed or replaced in between
        last = getattr(sess, "last_genfun", None)
        if last and rng.random() < 0.6 and all(q in free for q in last):
            args = last
        sess.last_genfun = args
        return {"op": "genfun", "args": [[q, rng.randint(-6, 9)] for q in args]}
    raise ValueError(kind)


def whole_readers(mirror):
    """containers that some function task names as a dependency WITHOUT naming the members it reads"""
    out = []
    for d in mirror.defs.values():
        if d[0] == "func":
            reads = [r for _, t in d[2] for r in ml.term_refs(t)]
            out += [c for c in d[3] if any(len(r) > len(c) and r[:len(c)] == c for r in reads) and not any(pkey(r) == pkey(x) for r in reads for x in d[3])]
    return out


def under_whole_reader(mirror, q):
    # a linear knob lists its targets alone (not the containers enclosing them): it would change a member behind the back
    # of a task that declared only the container — a declaration the user got wrong, not a defect of the library
    return any(len(q) > len(c) and q[:len(c)] == c for c in whole_readers(mirror))


def draw_rare_func(rng, g, sess, free):
    """shapes of function tasks the plain branch never makes: (a) a pure observer, no target at all; (b) dependencies given
    as the nested locations alone, without the enclosing containers; (c) a task that reads a container as a whole — every
    member — and names only the container (with what encloses it) as its dependency"""
    x = rng.random()
    if x >= 0.36:
        return None
    mirror, P = sess.mirror, g.P
    tid = "#F%d" % g.nfunc
    count = lambda what: sess.stats.__setitem__("rare:" + what, sess.stats.get("rare:" + what, 0) + 1)
    if x < 0.12:
        count("observer-without-targets")
        q = rng.choice(P)
        return {"op": "regfunc", "id": tid, "body": [], "deps": [q] if rng.random() < 0.5 else chain(q), "tars": []}
    if not free:
        return None
    if x < 0.24 or not g.nested:
        q = rng.choice(free)
        body = [[q, g.term(q)]]
        deps, seen = [], set()
        for r in ml.term_refs(body[0][1]):
            if pkey(r) not in seen:
                seen.add(pkey(r))
                deps.append(r)
        count("function-task-with-bare-dependencies")
        return {"op": "regfunc", "id": tid, "body": body, "deps": deps, "tars": chain(q)}
    conts = {}
    for q in P:
        for c in chain(q)[:-1]:
            conts.setdefault(pkey(c), (c, []))[1].append(q)
    knob_tars = [t for d in mirror.defs.values() if d[0] == "knob" for t in d[4]]
    cands = [(c, ms) for c, ms in conts.values() if len(ms) >= 2 and not any(t[:len(c)] == c for t in knob_tars)]
    if not cands:
        return None
    c, ms = rng.choice(sorted(cands, key=lambda cm: pkey(cm[0])))
    outside = [q for q in free if q[:len(c)] != c and not comparable(q, c)]
    later = [q for q in outside if all(g.rank[pkey(q)] > g.rank[pkey(m)] for m in ms)]
    if not outside:
        return None
    q = rng.choice(later or outside)
    count("reader-of-a-whole-container")
    return {"op": "regfunc", "id": tid, "body": [[q, _sum_term(ms)]], "deps": chain(c), "tars": chain(q)}


def bare_dependency_followup(rng, sess, op):
    """after a task whose only link to a nested location is the location itself (a linear knob's source, a function task's
    bare dependency): now and then assign a sibling under the same container first (nothing to run), then the location"""
    if op["op"] == "regknob":
        srcs = [op["src"]]
    elif op["op"] == "regfunc":
        srcs = [q for q in op["deps"] if not any(pkey(c) in set(map(pkey, op["deps"])) for c in chain(q)[:-1])]
    else:
        return []
    srcs = [q for q in srcs if len(q) > 2]
    if not srcs or sess.frozen or rng.random() >= 0.5:
        return []
    src = rng.choice(srcs)
    blk = sess.blocked(True)
    ok = lambda q: pkey(q) not in sess.mirror.defs and not any(comparable(q, b) for b in blk)
    sibs = [q for q in sess.P if q[:2] == src[:2] and q != src and ok(q)]
    if not sibs or not ok(src):
        return []
    sess.stats["rare:sibling-then-bare-dependency"] = sess.stats.get("rare:sibling-then-bare-dependency", 0) + 1
    return [{"op": "set", "path": rng.choice(sibs), "value": rng.randint(-6, 9)},
            {"op": "set", "path": src, "value": rng.randint(-6, 9)}]


def scenario_c13_container(hist_id, stats, failures):
    """D25's shape: a definition that reads an enclosing container (oracle only: the model has no calls)"""
    import xdeps

    def total(dct):
        return sum(dct.values())
    out = []
    for use_fun in (True, False):
        m = xdeps.Manager()
        raw = {"n": {"x": 1, "y": 2}, "tot": 0}
        d = m.ref(raw, "d")
        F = m.ref({"total": total}, "F")
        d["tot"] = F["total"](d["n"])
        if use_fun:
            f = m.gen_fun("f", x=d["n"]["x"])
            f(5)
        else:
            d["n"]["x"] = 5
        out.append(raw["tot"])
    if out[0] != out[1]:
        failures.append({"property": "C13", "kind": "function-differs-from-assignments", "hist": hist_id, "op_index": 0,
                         "detail": {"scenario": "definition reads the enclosing container", "via_function": out[0], "via_assignment": out[1]},
                         "known": None})


def collision_corpus():
    """task ids whose hashes collide (hash(-1) == hash(-2), hash(1) == hash(True)): two different tasks triggered by one
    assignment must both run, whatever a traversal uses to remember what it has visited"""
    M = lambda k: ["d", ["i", "m"], ["i", k]]
    X, T = ["d", ["i", "x"]], ["d", ["i", "t"]]
    yield [{"op": "reset"},
           {"op": "container", "label": "d", "value": {"d": [["x", 1], ["m", {"d": [[-1, 0], [-2, 0], [1, 0], [2, 0]]}], ["t", 0]]}},
           {"op": "setexpr", "path": M(-1), "expr": ["bin", "Mul", ["ref", X], ["lit", 2]]},
           {"op": "setexpr", "path": M(-2), "expr": ["bin", "Add", ["ref", X], ["lit", 1]]},
           {"op": "setexpr", "path": M(1), "expr": ["bin", "Sub", ["ref", X], ["lit", 1]]},
           {"op": "setexpr", "path": T, "expr": ["bin", "Add", ["ref", M(-1)], ["ref", M(-2)]]},
           {"op": "set", "path": X, "value": 5}, {"op": "set", "path": X, "value": 7},
           {"op": "set", "path": M(-2), "value": 0}, {"op": "set", "path": X, "value": 9}]
    # the same with the definitions made in the other order
    yield [{"op": "reset"},
           {"op": "container", "label": "d", "value": {"d": [["x", 1], ["m", {"d": [[-1, 0], [-2, 0]]}], ["t", 0]]}},
           {"op": "setexpr", "path": T, "expr": ["bin", "Add", ["ref", M(-1)], ["ref", M(-2)]]},
           {"op": "setexpr", "path": M(-2), "expr": ["bin", "Add", ["ref", X], ["lit", 1]]},
           {"op": "setexpr", "path": M(-1), "expr": ["bin", "Mul", ["ref", X], ["lit", 2]]},
           {"op": "set", "path": X, "value": 5}, {"op": "set", "path": X, "value": 7}]


def collision_corpus_frozen():
    """two different plain locations whose references collide in hash (m[-1] / m[-2], m[1] / m[True] is the same key) each
    with its own dependant, assigned within one frozen period and after it: each assignment updates ITS dependants,
    whatever a frozen manager remembers per location"""
    # members of the TOP-LEVEL container: a task reading d[-1] depends on d[-1] alone (a member of a nested container also
    # depends on the enclosing member, and then every reader runs whichever member is assigned)
    M = lambda k: ["d", ["i", k]]
    Y1, Y2, Y3 = (["d", ["i", k]] for k in ("y1", "y2", "y3"))
    base = [{"op": "reset"},
            {"op": "container", "label": "d", "value": {"d": [[-1, 0], [-2, 0], [2, 0], ["y1", 0], ["y2", 0], ["y3", 0]]}},
            {"op": "setexpr", "path": Y1, "expr": ["bin", "Mul", ["ref", M(-1)], ["lit", 2]]},
            {"op": "setexpr", "path": Y2, "expr": ["bin", "Add", ["ref", M(-2)], ["lit", 1]]},
            {"op": "setexpr", "path": Y3, "expr": ["bin", "Sub", ["ref", M(2)], ["lit", 1]]}]
    yield base + [{"op": "freeze"}, {"op": "set", "path": M(-1), "value": 5}, {"op": "set", "path": M(-2), "value": 7},
                  {"op": "set", "path": M(2), "value": 3}, {"op": "set", "path": M(-1), "value": 6},
                  {"op": "unfreeze"}, {"op": "set", "path": M(-2), "value": 8}, {"op": "set", "path": M(-1), "value": 9},
                  {"op": "freeze"}, {"op": "set", "path": M(-2), "value": 10}, {"op": "set", "path": M(-1), "value": 11}]
    yield base + [{"op": "set", "path": M(-1), "value": 4}, {"op": "freeze"}, {"op": "set", "path": M(-2), "value": 7},
                  {"op": "set", "path": M(-1), "value": 5}, {"op": "set", "path": M(-2), "value": 9}]


def d34_corpus():
    """known finding D34, fixed form: a fault between the two target writes of a linear knob, then the fault-free repeat"""
    X, A, B = (["d", ["i", k]] for k in "xab")
    yield [{"op": "reset"}, {"op": "container", "label": "d", "value": {"d": [["x", 1], ["a", 10], ["b", 20]]}},
           {"op": "regknob", "id": "#K9", "src": X, "ws": [2, -1], "tars": [A, B], "alltars": [A, B]},
           {"op": "set", "path": X, "value": 2},
           {"op": "fault", "k": 2}, {"op": "set", "path": X, "value": 5},
           {"op": "set", "path": X, "value": 5, "_repeat": True}]
    # the fault at the FIRST target write leaves nothing half applied: the repeat recovers
    yield [{"op": "reset"}, {"op": "container", "label": "d", "value": {"d": [["x", 1], ["a", 10], ["b", 20]]}},
           {"op": "regknob", "id": "#K9", "src": X, "ws": [2, -1], "tars": [A, B], "alltars": [A, B]},
           {"op": "fault", "k": 1}, {"op": "set", "path": X, "value": 5},
           {"op": "set", "path": X, "value": 5, "_repeat": True}]


def c13_corpus():
    """the same setter (same name, same references) generated again after the definitions changed"""
    X, Y, W_, Z = (["d", ["i", k]] for k in "xywz")
    base = [{"op": "reset"}, {"op": "container", "label": "d", "value": {"d": [["x", 1], ["y", 0], ["w", 0], ["z", 0]]}},
            {"op": "setexpr", "path": Y, "expr": ["bin", "Mul", ["ref", X], ["lit", 2]]},
            {"op": "setexpr", "path": W_, "expr": ["bin", "Add", ["ref", Y], ["lit", 1]]}]
    g = lambda v: {"op": "genfun", "args": [[X, v]]}
    # a definition removed (plain value / unregister) between two generations
    yield base + [g(3), {"op": "set", "path": Y, "value": 10}, g(4)]
    yield base + [g(3), {"op": "unregister", "id": W_}, g(4)]
    # a definition replaced / added between two generations
    yield base + [g(3), {"op": "setexpr", "path": Y, "expr": ["bin", "Sub", ["ref", X], ["lit", 1]]}, g(4)]
    yield base + [g(3), {"op": "setexpr", "path": Z, "expr": ["bin", "Add", ["ref", X], ["lit", 10]]}, g(4),
                  {"op": "set", "path": Z, "value": 0}, g(5)]


def scenario_lookalike_replacement(hist_id, stats, failures):
    """a definition replaced by another one that PRINTS the same (constants are printed with str(): 2, '2', np.int8(2)) but
    means something else: afterwards the manager has to behave like a fresh one holding only the new definition"""
    import numpy as np
    import xdeps
    for old_c, new_c, nval in [(2, "2", 4), ("2", 2, 4), (2, np.int8(2), 5), (np.float32(0.5), 0.5, 3), (3, 3.0, 2) if False else (1, True, 7)]:
        outs = []
        for with_history in (True, False):
            m = xdeps.Manager()
            raw = {"n": 3, "r": None, "q": None}
            v = m.ref(raw, "v")
            try:
                if with_history:
                    v["r"] = v["n"] * old_c
                v["r"] = v["n"] * new_c
                v["q"] = v["r"] * 1
                v["n"] = nval
                outs.append((repr(raw["r"]), type(raw["r"]).__name__, repr(raw["q"])))
            except Exception as e:
                outs.append(("raised", type(e).__name__, ""))
        stats["lookalike_replacements"] = stats.get("lookalike_replacements", 0) + 1
        if outs[0] != outs[1]:
            for prop in ("C03", "C01"):
                failures.append({"property": prop, "kind": "replaced-definition-still-in-force", "hist": hist_id, "op_index": 0,
                                 "detail": {"old_constant": repr(old_c), "new_constant": repr(new_c), "with_history": outs[0],
                                            "fresh": outs[1]}, "known": None})
            return


def scenario_two_managers(hist_id, stats, failures):
    """two managers alive in one process, containers with the same labels and keys, different definitions; both frozen;
    the same location assigned on both: each has to update ITS OWN dependants (nothing may be shared between managers
    through module- or class-level state)"""
    import xdeps
    for frozen in (True, False):
        ms = []
        for mul in (2, 5):
            m = xdeps.Manager()
            raw = {"x": 1.0, "y": 0.0, "z": 0.0}
            a = m.ref(raw, "a")
            a["y"] = a["x"] * mul
            a["z"] = a["y"] + 1
            if frozen:
                m.freeze_tree()
            ms.append((m, a, raw, mul))
        for rnd, v in enumerate((3.0, 10.0, 3.0)):
            for m, a, raw, mul in ms:
                a["x"] = v
                if raw["y"] != v * mul or raw["z"] != v * mul + 1:
                    for prop in ("C17", "C01", "C12") if frozen else ("C01", "C12"):
                        failures.append({"property": prop, "kind": "managers-share-state", "hist": hist_id, "op_index": 0,
                                         "detail": {"frozen": frozen, "round": rnd, "factor": mul, "x": v, "got": dict(raw)},
                                         "known": None})
                    return
    stats["two_manager_scenarios"] = stats.get("two_manager_scenarios", 0) + 1


def c17_corpus():
    """several frozen periods around changes of the graph: whatever a frozen period remembered must not outlive it"""
    X, Y, W_, Z = (["d", ["i", k]] for k in "xywz")
    base = [{"op": "reset"}, {"op": "container", "label": "d", "value": {"d": [["x", 1], ["y", 0], ["w", 0], ["z", 0]]}},
            {"op": "setexpr", "path": Y, "expr": ["bin", "Mul", ["ref", X], ["lit", 2]]},
            {"op": "setexpr", "path": W_, "expr": ["bin", "Add", ["ref", Y], ["lit", 1]]}]
    # unbalanced calls: unfreeze on a manager that was never frozen, freeze twice and unfreeze once
    yield base + [{"op": "unfreeze"}, {"op": "setexpr", "path": Z, "expr": ["bin", "Add", ["ref", X], ["lit", 10]]},
                  {"op": "freeze"}, {"op": "setexpr", "path": Z, "expr": ["bin", "Sub", ["ref", X], ["lit", 1]]},
                  {"op": "set", "path": X, "value": 4}, {"op": "freeze"}, {"op": "unfreeze"},
                  {"op": "setexpr", "path": Z, "expr": ["bin", "Mul", ["ref", X], ["lit", 3]]}, {"op": "set", "path": X, "value": 6}]
    # a definition removed between two frozen periods
    yield base + [{"op": "freeze"}, {"op": "set", "path": X, "value": 3}, {"op": "unfreeze"},
                  {"op": "set", "path": Y, "value": 11}, {"op": "freeze"}, {"op": "set", "path": X, "value": 5},
                  {"op": "unfreeze"}, {"op": "set", "path": X, "value": 7}]
    # a definition added after a frozen period
    yield base + [{"op": "freeze"}, {"op": "set", "path": X, "value": 3}, {"op": "unfreeze"},
                  {"op": "setexpr", "path": Z, "expr": ["bin", "Add", ["ref", X], ["lit", 10]]},
                  {"op": "set", "path": X, "value": 5}, {"op": "freeze"}, {"op": "set", "path": X, "value": 6}]
    # a definition replaced between two frozen periods
    yield base + [{"op": "freeze"}, {"op": "set", "path": X, "value": 3}, {"op": "unfreeze"},
                  {"op": "setexpr", "path": Y, "expr": ["bin", "Sub", ["ref", X], ["lit", 1]]},
                  {"op": "freeze"}, {"op": "set", "path": X, "value": 5}, {"op": "unfreeze"}]


# ----------------------------------------------------------------------------
# C17 on whole histories: the never-frozen twin, with clones that are KEPT (oracle only: the model drops its clones)
# ----------------------------------------------------------------------------
def manager_view(im, m, paths):
    """what a user can see of manager `m` (the ImplMgr's own manager or a clone kept from it): definitions, the four index
    tables, the answers of find_deps / find_taskids / the writers of every location, and whether verify() passes"""
    import io, contextlib
    saved = im.m
    im.m = m
    try:
        out = {"definitions": ml.canon_defs(im.defs_json()), "indices": ml.canon_sup(im.sup_json())}
    finally:
        im.m = saved
    answers = {}
    for p in paths:
        try:
            r = im.ref(p)
        except Exception:
            continue
        row = []
        for ask in (lambda: m.find_deps([r]), lambda: m.find_taskids(r._get_dependencies()), lambda: list(m.tartasks.get(r, ()))):
            try:
                row.append(sorted(pkey(ml.id_json(x)) for x in ask()))
            except Exception as e:
                row.append("raises " + type(e).__name__)
        answers[pkey(p)] = row
    out["query answers (find_deps, find_taskids, writers)"] = answers
    try:
        with contextlib.redirect_stdout(io.StringIO()):
            m.verify()
        out["verify()"] = "ok"
    except Exception as e:
        out["verify()"] = "raises " + type(e).__name__
    return out


class NeverFrozenTwin:
    """C17 judged on a whole history: next to the session's manager a TWIN is driven that is never frozen and receives only
    the calls the frozen manager did not reject (freeze_tree / unfreeze_tree and every call answered with ValueError while
    frozen are left out).  After every call the two must be indistinguishable: container contents, definitions, index
    tables, query answers at every location, verify(), the exception class of the call — and the same for every clone
    that was taken (frozen or not) and KEPT, on which further calls are made through the clone's own methods."""
    KIND = "differs-from-never-frozen-twin"

    def __init__(self, sess):
        self.sess = sess
        self.tw = ml.ImplMgr()
        self.dead = False

    def step(self, op):
        sess = self.sess
        was_frozen = sess.frozen
        n0 = len(sess.lines)
        sess.step(op)
        if self.dead or len(sess.lines) == n0:
            return
        got = sess.lines[-1]["impl"]["exc"]
        diffs = []
        if op["op"] in ("freeze", "unfreeze"):
            pass
        elif was_frozen and got == "ValueError":
            sess.stats["c17_twin_rejected_calls_left_out"] = sess.stats.get("c17_twin_rejected_calls_left_out", 0) + 1
        else:
            want = self.tw.apply({k: v for k, v in op.items() if not k.startswith("_")})["impl"]["exc"]
            if got != want:
                diffs.append(["outcome of the call", got, want])
        self.compare(op, diffs, was_frozen)

    def compare(self, op, diffs, was_frozen):
        sess, a, b = self.sess, self.sess.im, self.tw
        paths, seen = [], set()
        for q in sess.P:
            for c in chain(q):
                if pkey(c) not in seen:
                    seen.add(pkey(c))
                    paths.append(c)
        sa, sb = ml.canon_val(a.store_json()), ml.canon_val(b.store_json())
        if sa != sb:
            diffs.append(["container contents", leaf_diff(sa, sb)[:6], None])
        pairs = [("the manager", a.m, b.m)]
        ka, kb = a.__dict__.get("kept", []), b.__dict__.get("kept", [])
        pairs += [("kept clone %d" % i, x, y) for i, (x, y) in enumerate(zip(ka, kb))]
        for who, x, y in pairs:
            vx, vy = manager_view(a, x, paths), manager_view(b, y, paths)
            for key in vx:
                if vx[key] != vy[key]:
                    if isinstance(vx[key], dict):
                        ks = [k for k in vx[key] if vx[key][k] != vy[key].get(k)][:3]
                        rows = lambda mine, other: [r for r in mine if r not in other][:3] if isinstance(mine, list) and isinstance(other, list) else mine
                        diffs.append([who + ": " + key + " (the differing rows)", {k: rows(vx[key][k], vy[key].get(k)) for k in ks},
                                      {k: rows(vy[key].get(k), vx[key][k]) for k in ks}])
                    else:
                        diffs.append([who + ": " + key, vx[key] if isinstance(vx[key], str) else "differs", vy[key] if isinstance(vy[key], str) else "differs"])
        st = sess.stats
        st["c17_twin_comparisons"] = st.get("c17_twin_comparisons", 0) + 1
        st["c17_twin_kept_clones_compared"] = st.get("c17_twin_kept_clones_compared", 0) + len(pairs) - 1
        if op["op"] == "clonekeep" and was_frozen:
            st["c17_clones_kept_while_frozen"] = st.get("c17_clones_kept_while_frozen", 0) + 1
        if diffs:
            self.dead = True
            sess.fail("C17", self.KIND, {"after": {k: v for k, v in op.items() if not k.startswith("_")}, "frozen_during_the_call": was_frozen,
                                         "differences [what, frozen-and-unfrozen manager, never-frozen twin]": diffs[:6]})


def c17_kept_clone_corpus():
    """a clone taken while the manager is frozen and KEPT; afterwards the graph of only one of the two managers changes
    (through the clone's own methods, or on the original after unfreezing); then both are used again"""
    X, Y, W_, Z, K = (["d", ["i", k]] for k in "xywzk")
    base = [{"op": "reset"}, {"op": "container", "label": "d", "value": {"d": [["x", 1], ["y", 0], ["w", 0], ["z", 0], ["k", 3]]}},
            {"op": "setexpr", "path": Y, "expr": ["bin", "Mul", ["ref", X], ["lit", 2]]},
            {"op": "setexpr", "path": W_, "expr": ["bin", "Add", ["ref", Y], ["ref", K]]},
            {"op": "setexpr", "path": Z, "expr": ["bin", "Sub", ["ref", X], ["lit", 1]]}]
    frozen_clone = [{"op": "freeze"}, {"op": "setexpr", "path": Y, "expr": ["bin", "Mul", ["ref", X], ["lit", 5]]},
                    {"op": "set", "path": X, "value": 2}, {"op": "clonekeep"}]
    co = lambda call, **kw: dict({"op": "cloneop", "i": 0, "call": call}, **kw)
    # a task dropped from the clone only, after unfreezing; then the original is assigned and loses a definition of its own
    yield base + frozen_clone + [{"op": "unfreeze"}, co("unregister", id=Y), {"op": "set", "path": X, "value": 10},
                                 {"op": "set", "path": Z, "value": 0}, co("set", path=X, value=4), co("verify")]
    # the clone edited while the original is still frozen (the clone itself is not frozen); plain values on the original
    yield base + frozen_clone + [co("set", path=Y, value=3), {"op": "set", "path": X, "value": 4}, {"op": "verify"},
                                 {"op": "unfreeze"}, {"op": "set", "path": X, "value": 6}]
    yield base + frozen_clone + [co("load", overwrite=True, pairs=[[Z, ["bin", "Add", ["ref", K], ["lit", 10]]]]),
                                 {"op": "set", "path": X, "value": 5}, {"op": "set", "path": K, "value": 7}, {"op": "unfreeze"},
                                 co("setexpr", path=W_, expr=["bin", "Sub", ["ref", Z], ["lit", 2]]),
                                 {"op": "set", "path": X, "value": 6}, {"op": "set", "path": K, "value": 1}, co("set", path=K, value=2)]
    # the other direction: the original changes after unfreezing, the kept clone is then used
    yield base + frozen_clone + [{"op": "unfreeze"}, {"op": "set", "path": Y, "value": 11}, co("set", path=X, value=7),
                                 {"op": "setexpr", "path": Z, "expr": ["bin", "Mul", ["ref", K], ["lit", 2]]}, co("set", path=K, value=5),
                                 co("verify"), {"op": "set", "path": X, "value": 8}]
    # two clones, one taken before the freeze and one during a second frozen period; in-place operator and unregister
    yield base + [{"op": "clonekeep"}, {"op": "freeze"}, {"op": "set", "path": X, "value": 3}, {"op": "unfreeze"},
                  {"op": "iop", "iop": "Add", "path": Z, "operand": ["ref", K]}, {"op": "freeze"}, {"op": "clonekeep"},
                  {"op": "unregister", "id": W_}, {"op": "unfreeze"}, {"op": "unregister", "id": W_},
                  {"op": "cloneop", "i": 1, "call": "unregister", "id": Z}, {"op": "cloneop", "i": 0, "call": "set", "path": X, "value": 9},
                  {"op": "set", "path": K, "value": 4}, {"op": "set", "path": X, "value": 5}, {"op": "cloneop", "i": 1, "call": "set", "path": K, "value": 6}]


KEPT_CLONE_MIX = dict(set=22, setexpr=20, iop=5, unregister=8, maint=6, load=5, query=2, freeze=12, clonekeep=7, cloneop=16)


def gen_kept_clone_history(rng, twin, maxops):
    """random branch of the same: expression tasks only; freeze / unfreeze, clones kept at any moment (most often right after
    a freeze), calls on the kept clones through their own methods"""
    sess = twin.sess
    g = Gen(rng, "c17")
    twin.step({"op": "reset"})
    store = initial_store(rng, g.nested)
    for lab in ("d", "m"):
        twin.step({"op": "container", "label": lab, "value": store[lab]})
    P = g.P

    def pick(for_def):
        return rng.choice(P)

    for _ in range(rng.randint(2, 4)):
        q = pick(True)
        twin.step({"op": "setexpr", "path": q, "expr": g.term(q)})
    kinds, weights = zip(*KEPT_CLONE_MIX.items())
    nkept = 0
    forced = []
    for _ in range(rng.randint(5, maxops)):
        kind = forced.pop(0) if forced else rng.choices(kinds, weights)[0]
        if kind == "clonekeep":
            if nkept >= 3:
                continue
            nkept += 1
            op = {"op": "clonekeep"}
        elif kind == "cloneop":
            if not nkept:
                continue
            call = rng.choice(["unregister", "unregister", "set", "set", "setexpr", "load", "verify", "refresh", "cleanup"])
            op = {"op": "cloneop", "i": rng.randrange(nkept), "call": call}
            if call == "unregister":
                ids = [d[1] for d in sess.mirror.defs.values()]
                op["id"] = rng.choice(ids) if ids and rng.random() < 0.9 else rng.choice(P)
            elif call == "set":
                op.update(path=rng.choice(P), value=rng.randint(-6, 9))
            elif call == "setexpr":
                q = rng.choice(P)
                op.update(path=q, expr=g.term(q))
            elif call == "load":
                q = rng.choice(P)
                op.update(overwrite=rng.random() < 0.8, pairs=[[q, g.term(q)]])
        else:
            op = draw(rng, g, sess, kind, pick)
            if op is None:
                continue
        twin.step(op)
        if op["op"] == "freeze" and rng.random() < 0.6:
            forced.append("clonekeep")


def run_twin_history(ops, rng, hist_id, out_lines, stats, failures, maxops=18):
    """one oracle-only history under the never-frozen twin: a fixed operation list, or (ops None) a generated one.  The
    lines are kept away from the model comparison (the driver knows neither a kept clone nor calls on it); only when an
    oracle fails are they written, marked `light`, so that the failing input can be shrunk and replayed"""
    n0 = len(failures)
    sess = Session(hist_id, stats, failures, "c17")
    twin = NeverFrozenTwin(sess)
    if ops is None:
        gen_kept_clone_history(rng, twin, maxops)
    else:
        for op in ops:
            twin.step(op)
    stats["c17_never_frozen_twin_histories"] = stats.get("c17_never_frozen_twin_histories", 0) + 1
    if len(failures) > n0:
        for l in sess.lines:
            out_lines.append(dict({k: v for k, v in l.items() if k not in ("impl", "order")}, light=True, impl={"exc": l["impl"]["exc"]}))
    return sess


# ----------------------------------------------------------------------------
# C18 at every write position of graphs whose tasks need not be PRINTABLE (oracle only: the model has no calls, and its
# expressions are a few levels deep): a sum as large as the recursion limit lets the library evaluate, a called object
# without a __name__ (functools.partial, a callable instance), a constant whose repr raises
# ----------------------------------------------------------------------------
class _Callable:
    """a callable object (no __name__, like the library's own FunctionPieceWiseLinear); it can be told to fail once"""

    def __init__(self, factor):
        self.factor, self.fail_with, self.raised = factor, None, None

    def __call__(self, *xs):
        if self.fail_with is not None:
            cls, self.fail_with = self.fail_with, None
            self.raised = cls("injected in the called function")
            raise self.raised
        return self.factor * sum(xs)


class _Opaque(float):
    """a constant that computes like a float and cannot be printed"""

    def __repr__(self):
        raise RuntimeError("this constant has no text")
    __str__ = __repr__


def _c18_named(*xs):
    return 2.0 * sum(xs)


def c18_build(spec):
    """spec: {"inputs": {name: value}, "nodes": [[name, kind, ...]]} over ONE fault-injecting dict labelled r
         [name, "bin", op, a, b]       r[name] = r[a] <op> (r[b] | number b)
         [name, "sum", n, a]           r[name] = r[v0] + ... + r[v<n-1>] + r[a]        (v_i plain locations)
         [name, "call", how, [a, ..]]  r[name] = CallRef(f, (r[a], ..), {})   how: partial | instance | lambda | named
         [name, "opaque", a]           r[name] = r[a] * <a constant whose repr raises>"""
    import functools
    import xdeps
    from xdeps.refs import CallRef
    hub = ml.Hub()
    init = dict(spec["inputs"])
    for node in spec["nodes"]:
        init[node[0]] = 0.0
        if node[1] == "sum":
            init.update(("v%d" % i, 1.0) for i in range(node[2]))
    c = ml.LDict(hub, ["r"], init)
    m = xdeps.Manager()
    r = m.ref(c, "r")
    callables = {}
    for node in spec["nodes"]:
        name, kind = node[0], node[1]
        if kind == "bin":
            b = r[node[4]] if isinstance(node[4], str) else node[4]
            e = ml.BIN[node[2]](r[node[3]], b)
        elif kind == "sum":
            e = sum(r["v%d" % i] for i in range(node[2])) + r[node[3]]
        elif kind == "call":
            how = node[2]
            f = {"partial": lambda: functools.partial(_c18_named, 0.5), "instance": lambda: _Callable(3.0),
                 "lambda": lambda: (lambda *xs: sum(xs) - 1.0), "named": lambda: _c18_named}[how]()
            callables[name] = f
            e = CallRef(f, tuple(r[a] for a in node[3]), {})
        elif kind == "opaque":
            e = r[node[2]] * _Opaque(1.5)
        else:
            raise ValueError(kind)
        r[name] = e
    hub.trace = []
    return m, r, c, hub, callables


def _c18_assign(r, assign):
    if assign[0] == "value":
        r[assign[1]] = assign[2]
    else:
        r[assign[1]] = r[assign[2]] * assign[3]


def _c18_view(m, r, names):
    """definitions and query answers, read structurally (the expressions need not be printable)"""
    P = lambda ref: pkey(ml.path_of_ref(ref))
    defs = sorted([P(tid), type(t).__name__, sorted(map(P, t.dependencies)), sorted(map(P, t.targets))] for tid, t in m.tasks.items())
    qs = {}
    for k in names:
        ref = r[k]
        row = []
        for ask in (lambda: [P(t) for t in m.find_taskids(ref._get_dependencies())], lambda: sorted(P(x) for x in m.find_deps([ref])),
                    lambda: type(ref._expr).__name__):
            try:
                row.append(ask())
            except Exception as e:
                row.append("raises " + type(e).__name__)
        qs[k] = row
    return defs, qs


def c18_crash_points(spec, assign, what, hist_id, stats, failures, exc_names=("Fault", "KeyError", "RuntimeError"), attempts=(1, 2), only=None):
    """C18 for ONE update of one graph: a fault at every write position (the k-th container write raises; the initial write
    of the assigned location is position 0) and in every called object, `attempts` faulty attempts in a row, then the
    fault-free repeat.  Judged against the fault-free twin: the caller receives THE injected exception; the writes made are
    the fault-free prefix; definitions and query answers are those of the fault-free history; verify() passes; the repeat
    leaves the containers as the fault-free history does.  `only`: the locations whose write fails (default: every one).
    Returns False at the first failure (recorded)."""
    import io, contextlib

    def state(c):
        return sorted((k, "nan" if is_nan(v) else v) for k, v in c.items() if not (k[0] == "v" and k[1:].isdigit()))

    def report(kind, detail):
        failures.append({"property": "C18", "kind": kind, "hist": hist_id, "op_index": 0,
                         "detail": dict({"scenario": what, "graph": spec, "assignment": assign}, **detail), "known": None})
        return False

    names = list(spec["inputs"]) + [n[0] for n in spec["nodes"]]
    m0, r0, c0, hub0, calls0 = c18_build(spec)
    try:
        _c18_assign(r0, assign)
    except Exception:
        return True          # not an update of this graph that works without a fault: nothing to judge
    ref_trace = [e[1][-1][1] for e in hub0.trace]
    ref_state, (ref_defs, ref_qs) = state(c0), _c18_view(m0, r0, names)
    points = [("write", k, en) for k in range(len(ref_trace)) for en in exc_names if only is None or ref_trace[k] in only]
    points += [("call", name, en) for name, f in calls0.items() if isinstance(f, _Callable) and name in ref_trace for en in exc_names[:2]]
    for where, k, en in points:
        for na in attempts:
            m, r, c, hub, calls = c18_build(spec)
            at = {"fault": where, "at": k if where == "call" else {"write": k, "location": ref_trace[k]}, "exception_class": en,
                  "faulty_attempts": na}
            for attempt in range(na):
                hub.trace, hub.last_fault, hub.fault_in, hub.fault_exc = [], None, None, en
                if where == "write":
                    hub.fault_in = k
                    prefix = ref_trace[:k]
                else:
                    calls[k].fail_with = {"Fault": ml.Fault, "KeyError": KeyError, "RuntimeError": RuntimeError}.get(en, ml.Fault)
                    prefix = ref_trace[:ref_trace.index(k)]
                got = None
                try:
                    _c18_assign(r, assign)
                except BaseException as e:
                    got = e
                injected = hub.last_fault if where == "write" else calls[k].raised
                hub.fault_in = None
                stats["c18_crash_points_unprintable_family"] = stats.get("c18_crash_points_unprintable_family", 0) + 1
                if got is None:
                    return report("fault-swallowed-or-changed", dict(at, caller_received="no exception"))
                if got is not injected:
                    return report("caller-receives-another-exception",
                                  dict(at, caller_received="%s(%s)" % (type(got).__name__, str(got)[:80]), injected=repr(injected)[:80]))
                wrote = [e[1][-1][1] for e in hub.trace]
                if wrote != prefix:
                    return report("not-a-prefix", dict(at, written=wrote[:12], fault_free_prefix=prefix[:12]))
                defs, qs = _c18_view(m, r, names)
                if defs != ref_defs:
                    return report("definitions-changed-by-failed-update", at)
                if qs != ref_qs:
                    return report("queries-changed-by-failed-update", dict(at, differing=[q for q in qs if qs[q] != ref_qs[q]][:5]))
                try:
                    with contextlib.redirect_stdout(io.StringIO()):
                        m.verify()
                except Exception as e:
                    return report("verify-after-fault", dict(at, exc=type(e).__name__))
            hub.trace = []
            try:
                _c18_assign(r, assign)
            except Exception as e:
                return report("repeat-raises", dict(at, exc=type(e).__name__))
            if state(c) != ref_state:
                return report("stale-after-repeat", dict(at, wrong=[k2 for (k2, v), (_, w) in zip(state(c), ref_state) if not same(v, w)][:6]))
            if _c18_view(m, r, names) != (ref_defs, ref_qs):
                return report("definitions-changed-by-failed-update", dict(at, after="the fault-free repeat"))
    return True


def c18_largest_sum(spec_of, assign, hi=4096):
    """the largest number of terms (up to hi) for which the library builds and updates the graph at the recursion limit in
    force, found by bisection; 16 terms of slack for the few frames by which the call depth of the scenarios differs"""
    def works(n):
        try:
            m, r, c, hub, _ = c18_build(spec_of(n))
            _c18_assign(r, assign)
            return True
        except RecursionError:
            return False
    lo, hi = 8, min(hi, sys.getrecursionlimit())       # (interpreted, every term costs at least one frame)
    if not works(lo):
        return 0
    if works(hi):
        return hi
    while hi - lo > 24:
        mid = (lo + hi) // 2
        if works(mid):
            lo = mid
        else:
            hi = mid
    return max(8, lo - 16)


def scenario_c18_unprintable(hist_id, stats, failures):
    """fixed shapes: a diamond x -> a -> {tot, b} -> z whose `tot` sums 5 terms / as many terms as can be evaluated at the
    recursion limit in force / 1200 terms (once, under a raised limit); chains through a functools.partial, a callable
    instance (which can itself raise), a lambda; a constant without a text.  Value and expression assignments."""
    diamond = lambda n: {"inputs": {"x": 1.0, "p": 1.5},
                         "nodes": [["a", "bin", "Mul", "x", 2], ["tot", "sum", n, "a"], ["b", "bin", "Add", "a", 1],
                                   ["z", "bin", "Add", "tot", "b"]]}
    value, expression = ["value", "x", 5.0], ["expression", "x", "p", 4]
    ok = True
    for how in ("partial", "instance", "lambda", "named"):
        spec = {"inputs": {"x": 1.0, "p": 1.5}, "nodes": [["y", "call", how, ["x"]], ["w", "bin", "Add", "y", 1], ["u", "call", how, ["w", "p"]]]}
        for assign in (value, expression):
            ok = ok and c18_crash_points(spec, assign, "y = <%s>(x); w = y + 1; u = <%s>(w, p)" % (how, how), hist_id, stats, failures)
    spec = {"inputs": {"x": 1.0, "p": 1.5}, "nodes": [["a", "bin", "Mul", "x", 2], ["q", "opaque", "a"], ["t", "bin", "Sub", "q", "p"]]}
    ok = ok and c18_crash_points(spec, value, "q = a * <constant whose repr raises>", hist_id, stats, failures)
    ok = ok and c18_crash_points(diamond(5), value, "tot sums 5 variables", hist_id, stats, failures)
    nmax = c18_largest_sum(diamond, value)
    stats["c18_largest_sum_terms"] = max(stats.get("c18_largest_sum_terms", 0), nmax)
    for n, assign, en, att in ((nmax, value, "Fault", (1, 2)), ((3 * nmax) // 4, expression, "KeyError", (1,))):
        if n > 8:
            ok = ok and c18_crash_points(diamond(n), assign, "tot sums %d variables (recursion limit %d)" % (n, sys.getrecursionlimit()),
                                         hist_id, stats, failures, exc_names=(en,), attempts=att)
    old = sys.getrecursionlimit()
    try:
        sys.setrecursionlimit(max(old, 2800))
        if ok and c18_largest_sum(diamond, value, hi=1300) >= 1200:
            stats["c18_largest_sum_terms"] = max(stats["c18_largest_sum_terms"], 1200)
            c18_crash_points(diamond(1200), value, "tot sums 1200 variables (recursion limit %d)" % sys.getrecursionlimit(),
                             hist_id, stats, failures, exc_names=("RuntimeError",), attempts=(1,), only=("tot", "z"))
    finally:
        sys.setrecursionlimit(old)
    stats["c18_unprintable_scenarios"] = stats.get("c18_unprintable_scenarios", 0) + 1


def random_c18_graph(rng, big):
    """a random acyclic graph over the node kinds of c18_build (each node reads earlier names only), and one assignment"""
    names = ["x", "p"]
    nodes = []
    for i in range(rng.randint(3, 7)):
        name = "n%d" % i
        x = rng.random()
        src = lambda: rng.choice(names[-3:] if rng.random() < 0.7 else names)
        if x < 0.5:
            nodes.append([name, "bin", rng.choice(["Add", "Sub", "Mul"]), src(), src() if rng.random() < 0.5 else rng.randint(-2, 3)])
        elif x < 0.8:
            nodes.append([name, "call", rng.choice(["partial", "instance", "instance", "lambda", "named"]), [src() for _ in range(rng.randint(1, 2))]])
        elif x < 0.93:
            nodes.append([name, "sum", rng.choice([3, 40, big]) if big else rng.choice([3, 40]), src()])
            big = 0
        else:
            nodes.append([name, "opaque", src()])
        names.append(name)
    assign = rng.choice([["value", "x", float(rng.randint(-5, 8))], ["value", "p", float(rng.randint(-5, 8))], ["expression", "x", "p", rng.randint(2, 4)]])
    return {"inputs": {"x": 1.0, "p": 1.5}, "nodes": nodes}, assign


# ----------------------------------------------------------------------------
# C13 with several managers alive (oracle only): containers with the same labels and different objects, setters generated
# in interleaved order, each called AFTER the other managers' setters were generated
# ----------------------------------------------------------------------------
def c13_many_managers(programs, schedule, what, hist_id, stats, failures):
    """programs: one operation list per manager (a generated setter inside a program is replaced by its assignments);
    schedule: ["gen", fname, manager index, [paths]] | ["call", fname, [values]].  Every manager has a twin built from the
    same operations that is only ever assigned through refs; after every call ALL managers' containers must equal their
    twins' (the called setter's manager changed as by the assignments, every other manager not at all).
    Returns "checked" | "failed" | "out-of-scope" (division by zero / NaN / declared cycle: excluded by the property)."""
    ims, tws = [], []
    for ops in programs:
        pair = []
        for _ in (0, 1):
            im = ml.ImplMgr()
            for o in ops:
                if o["op"] == "genfun":
                    for pth, v in o["args"]:
                        im.apply({"op": "set", "path": pth, "value": v})
                elif o["op"] != "fault":
                    im.apply({k: v for k, v in o.items() if not k.startswith("_")})
            pair.append(im)
        ims.append(pair[0])
        tws.append(pair[1])
    nan_in = lambda im: '"nan"' in json.dumps(im.store_json())
    if any(nan_in(im) for im in ims):
        return "out-of-scope"
    funs = {}

    def report(kind, si, detail):
        failures.append({"property": "C13", "kind": kind, "hist": hist_id, "op_index": 0,
                         "detail": dict({"scenario": what, "managers": programs, "schedule_up_to_the_failure": schedule[:si + 1]}, **detail),
                         "known": None})
        return "failed"

    for si, st in enumerate(schedule):
        if st[0] == "gen":
            _, name, i, paths = st
            T, D = declared(ims[i])
            trig = set()
            for p in paths:
                trig |= triggered_set(T, D, p)
            if has_two_cycle(T, D, trig):
                return "out-of-scope"
            try:
                kw = {"x%d" % j: ims[i].ref(p) for j, p in enumerate(paths)}
                src = ims[i].m.mk_fun("f", **kw)       # every setter has the same Python name: `name` is the schedule's key only
                funs[name] = (i, paths, ims[i].m.gen_fun("f", **kw), src)
            except Exception as e:
                return report("generated-function-raises", si, {"exc": type(e).__name__, "while": "generating"})
            continue
        _, name, values = st
        i, paths, f, src = funs[name]
        exc = "ok"
        try:
            f(*values)
        except ZeroDivisionError:
            return "out-of-scope"
        except Exception as e:
            exc = type(e).__name__
        bad = False
        for p, v in zip(paths, values):
            bad = tws[i].apply({"op": "set", "path": p, "value": v})["impl"]["exc"] != "ok" or bad
        if bad or any(nan_in(x) for x in ims + tws) or (exc == "NameError" and ("nan" in src or "inf" in src)):
            return "out-of-scope"
        if exc != "ok":
            return report("generated-function-raises", si, {"exc": exc, "source": src.split("\n")[:12]})
        for j in range(len(ims)):
            a, b = ml.canon_val(ims[j].store_json()), ml.canon_val(tws[j].store_json())
            if a != b:
                return report("function-differs-from-assignments" if j == i else "function-writes-into-another-manager", si,
                              {"setter_of_manager": i, "differing_manager": j, "differing_locations": leaf_diff(a, b)[:8]})
        stats["c13_calls_with_several_managers_alive"] = stats.get("c13_calls_with_several_managers_alive", 0) + 1
    return "checked"


def scenario_c13_interleaved(hist_id, stats, failures):
    X, Y, W_, Z = (["d", ["i", k]] for k in "xywz")
    NU, NV, L0, L1 = ["d", ["i", "n"], ["i", "u"]], ["d", ["i", "n"], ["i", "v"]], ["d", ["i", "l"], ["i", 0]], ["d", ["i", "l"], ["i", 1]]
    OA, OB = ["m", ["i", "o"], ["a", "a"]], ["m", ["i", "o"], ["a", "b"]]
    R, B, M = (lambda p: ["ref", p]), (lambda op, a, b: ["bin", op, a, b]), (lambda v: ["lit", v])
    E = lambda p, t: {"op": "setexpr", "path": p, "expr": t}

    def model(x0, defs):
        return [{"op": "reset"},
                {"op": "container", "label": "d", "value": {"d": [["x", x0], ["y", 0], ["w", 0], ["z", 0], ["n", {"d": [["u", 2], ["v", 0]]}], ["l", {"l": [0, 0]}]]}},
                {"op": "container", "label": "m", "value": {"d": [["o", {"o": [["a", 0], ["b", 0]]}]]}}] + defs
    p1 = model(1, [E(Y, B("Mul", R(X), M(2))), E(W_, B("Add", R(Y), M(1))), E(NV, B("Add", R(NU), R(X))), E(L1, B("Sub", R(W_), R(NV))), E(OA, B("Mul", R(L1), R(Y)))])
    p2 = model(4, [E(Y, B("Mul", R(X), M(5))), E(W_, B("Sub", R(Y), M(3))), E(NV, B("Mul", R(NU), R(X))), E(L0, B("Add", R(Y), R(NV))), E(OB, B("Sub", R(L0), R(W_)))])
    p3 = model(-2, [E(Z, B("Sub", M(10), R(X))), E(Y, B("Add", R(Z), R(NU))), E(OA, B("Mul", R(Y), R(Y)))])
    # the dumped definitions of p1 loaded into a second manager over containers of its own (the re-loaded counterpart)
    p1_loaded = model(1, [{"op": "load", "overwrite": True, "pairs": [[o["path"], o["expr"]] for o in p1[3:]]}, {"op": "set", "path": X, "value": 1},
                          {"op": "set", "path": NU, "value": 2}])
    runs = [
        ("two models with the same labels, each setter called after the other's was generated", [p1, p2],
         [["gen", "f1", 0, [X, NU]], ["gen", "f2", 1, [X]], ["call", "f1", [3, -1]], ["call", "f2", [6]], ["call", "f1", [5, 4]], ["call", "f2", [-3]]]),
        ("three models, generation and calls interleaved, a second setter for the first model", [p1, p2, p3],
         [["gen", "a", 0, [X]], ["gen", "b", 1, [NU, X]], ["gen", "c", 2, [X, NU]], ["call", "a", [9]], ["gen", "a2", 0, [NU]], ["call", "b", [3, 2]],
          ["call", "c", [1, 1]], ["call", "a2", [6]], ["call", "a", [-4]], ["call", "b", [0, 5]]]),
        ("a model and a second one built by the same script", [p1, p1],
         [["gen", "f1", 0, [X]], ["gen", "f2", 1, [X]], ["call", "f1", [8]], ["call", "f2", [9]], ["call", "f1", [2]]]),
        ("a model and its dumped-and-reloaded counterpart", [p1, p1_loaded],
         [["gen", "f1", 0, [X, NU]], ["gen", "f2", 1, [NU]], ["call", "f1", [8, 3]], ["call", "f2", [5]], ["call", "f1", [2, 2]]]),
    ]
    for what, programs, schedule in runs:
        res = c13_many_managers(programs, schedule, what, hist_id, stats, failures)
        stats["c13_interleaved_scenarios:" + res] = stats.get("c13_interleaved_scenarios:" + res, 0) + 1
        if res == "failed":
            return


_C13_PREVIOUS = []


def c13_cross_history(sess, stats, failures):
    """random branch of the same: the manager of the previous random history and the one of this history (same labels d / m,
    containers of their own), a setter for each, generated one after the other and then called in turn"""
    import random as _random
    blk = sess.blocked(False)
    free = [q for q in sess.P if pkey(q) not in sess.mirror.defs and not any(comparable(q, b) for b in blk)]
    mine = None
    if free and not sess.frozen and not sess.mirror.dataflow_cyclic() and not sess.mirror.overlapping_targets():
        mine = ([strip_op(l) for l in sess.lines], free)
    prev = _C13_PREVIOUS.pop() if _C13_PREVIOUS else None
    if mine is not None:
        _C13_PREVIOUS.append(mine)
    if mine is None or prev is None:
        return
    r2 = _random.Random(sess.hist_id * 31 + len(sess.lines))
    args = [r2.sample(fr, min(len(fr), r2.randint(1, 2))) for _, fr in (prev, mine)]
    vals = lambda k: [r2.randint(-6, 9) for _ in args[k]]
    order = [0, 1] if r2.random() < 0.7 else [1, 0]
    schedule = [["gen", "f%d" % k, k, args[k]] for k in order] + [["call", "f%d" % k, vals(k)] for k in order + order[:1]]
    res = c13_many_managers([prev[0], mine[0]], schedule, "two consecutive random histories", 500 + sess.hist_id % 400, stats, failures)
    stats["c13_cross_history:" + res] = stats.get("c13_cross_history:" + res, 0) + 1


def run_history(rng, family, hist_id, out_lines, stats, failures, maxops):
    sess = Session(hist_id, stats, failures, family)
    gen_history(rng, family, sess, maxops)
    if family == "c13":
        op = draw(rng, Gen.__new__(Gen), sess, "genfun", None) if False else None
        blk = sess.blocked(False)
        free = [q for q in sess.P if pkey(q) not in sess.mirror.defs and not any(comparable(q, b) for b in blk)]
        if free and not sess.frozen:
            args = rng.sample(free, min(len(free), rng.randint(1, 3)))
            last = getattr(sess, "last_genfun", None)
            if last and rng.random() < 0.6 and all(q in free for q in last):
                args = last
            sess.step({"op": "genfun", "args": [[q, rng.randint(-6, 9)] for q in args]})
        c13_cross_history(sess, stats, failures)
    if family in ("c03", "c11") and not sess.frozen:
        try:
            twin_check(rng, sess.im, sess.mirror, sess.P, sess.fail, stats, hist_id,
                       via_dump=family == "c11", prop="C11" if family == "c11" else "C03")
        except Exception as e:   # harness problem, not a verdict
            stats["twin_errors"] = stats.get("twin_errors", 0) + 1
            stats["twin_error_sample"] = repr(e)[:200]
    if family == "c03" and not sess.frozen:
        try:
            twin_check_tasks(sess, stats, follow=3)
        except Exception as e:   # harness problem, not a verdict
            stats["twin_errors"] = stats.get("twin_errors", 0) + 1
            stats["twin_error_sample"] = repr(e)[:200]
    out_lines.extend(sess.lines)
    return sess


def replay_ops(ops, hist_id, stats, failures, family="c01"):
    if family == "c17" and any(o.get("op") in ("clonekeep", "cloneop") for o in ops):
        return run_twin_history(ops, None, hist_id, [], stats, failures)     # an oracle-only history (replay / shrinking)
    sess = Session(hist_id, stats, failures, family)
    for op in ops:
        sess.step(op)
    if family in ("c03", "c11") and not sess.frozen:
        # the end-of-history twin oracle, with several follow-up assignments (the original draw is not recorded)
        import random as _random
        for k in range(6):
            try:
                twin_check(_random.Random(k), sess.im, sess.mirror, sess.P, sess.fail, stats, hist_id,
                           via_dump=family == "c11", prop="C11" if family == "c11" else "C03")
            except Exception as e:
                stats["twin_errors"] = stats.get("twin_errors", 0) + 1
                stats["twin_error_sample"] = repr(e)[:200]
    if family == "c03" and not sess.frozen:
        try:
            twin_check_tasks(sess, stats)
        except Exception as e:
            stats["twin_errors"] = stats.get("twin_errors", 0) + 1
            stats["twin_error_sample"] = repr(e)[:200]
    return sess


def twin_check(rng, im, mirror, P, fail, stats, hist_id, via_dump=False, prop="C03"):
    """a fresh manager over equal containers, only the surviving definitions registered (in another
    order), must react to the next assignment exactly like the original (when the order is immaterial)"""
    import xdeps.tasks as xt
    survivors = [(tid, t) for tid, t in im.m.tasks.items() if isinstance(t, xt.ExprTask)]
    if len(survivors) != len(im.m.tasks):
        return
    tw = ml.ImplMgr()
    for lab, c in im.roots.items():
        tw.apply({"op": "container", "label": lab, "value": ml.val_json(c)})
    if via_dump:
        # C11: the fresh manager gets its definitions from the text of the original's dump
        text = im.m.dump()
        if "nan" in json.dumps(text) or "inf" in json.dumps(text):
            return      # a constant outside C11's language (left by a guarded division by zero)
        try:
            tw.m.load(text)
        except Exception as e:
            fail("C11", "load-of-dump-raises", {"exc": type(e).__name__, "dump": text[:6]})
            return
        if sorted(tw.m.dump()) != sorted(text):
            fail("C11", "loaded-definitions-differ", {"dump": sorted(text)[:6], "loaded": sorted(tw.m.dump())[:6]})
            return
        stats["dump_twins"] = stats.get("dump_twins", 0) + 1
    else:
        order = list(survivors)
        rng.shuffle(order)
        for tid, t in order:
            p = ml.path_of_ref(tid)
            tw.m.register(xt.ExprTask(tw.ref(p), tw.build(ml.expr_json(t.expr))))
    import io, contextlib
    # same query answers
    for q in rng.sample(P, min(4, len(P))):
        a = im.apply({"op": "query", "path": q})["impl"]
        b = tw.apply({"op": "query", "path": q})["impl"]
        for k in ("find_deps", "tasks"):
            if a["exc"] == "ok" and b["exc"] == "ok" and sorted(map(pkey, a[k])) != sorted(map(pkey, b[k])):
                fail(prop, "query-differs-from-fresh:" + k, {"path": q, "history": sorted(map(pkey, a[k])), "fresh": sorted(map(pkey, b[k]))})
        if a["exc"] != b["exc"]:
            fail(prop, "query-exception", {"path": q, "history": a["exc"], "fresh": b["exc"]})
    p = rng.choice(P)
    v = rng.randint(-6, 9)
    a = im.apply({"op": "set", "path": p, "value": v})["impl"]
    b = tw.apply({"op": "set", "path": p, "value": v})["impl"]
    stats["twin_checks"] += 1
    T, D = declared(tw)
    cyc2 = has_two_cycle(T, D, triggered_set(T, D, p))
    if a["exc"] != b["exc"]:
        fail(prop, "followup-exception-differs", {"path": p, "history": a["exc"], "fresh": b["exc"]})
    elif not cyc2 and ml.canon_val(a["store"]) != ml.canon_val(b["store"]):
        fail(prop, "followup-contents-differ", {"path": p, "value": v})
    if ml.canon_sup(a["sup"]) != ml.canon_sup(b["sup"]):
        fail(prop, "supports-differ-from-fresh", {"path": p})


# ----------------------------------------------------------------------------
# targeted scenarios (corpus): shapes the random generator reaches rarely or never
# ----------------------------------------------------------------------------
def _sum_term(paths):
    t = ["ref", paths[0]]
    for q in paths[1:]:
        t = ["bin", "Add", t, ["ref", q]]
    return t


def shared_writer_corpus():
    """locations with SEVERAL writers (the members of one nested container are written by different expression tasks, each
    of which also lists the container as a target; two linear knobs adding to one target), one of the writers removed
    (plain value / unregister / re-definition / in-place operator), and only THEN a definition made that reads the shared
    location itself (a function task that sums the container as a whole and names the container as its dependency, an
    expression over the knobs' target); afterwards the inputs of the REMAINING writers are assigned: C01 (pull model), C02
    (the reader is downstream of the remaining writer in the declared graph), C03 (supports)"""
    A, B, S, C_ = (["d", ["i", k]] for k in ("a", "b", "s", "c"))
    mul = lambda p, c: ["bin", "Mul", ["ref", p], ["lit", c]]
    add = lambda p, c: ["bin", "Add", ["ref", p], ["lit", c]]
    removals = lambda Y: [[{"op": "set", "path": Y, "value": 7}], [{"op": "unregister", "id": Y}],
                          [{"op": "setexpr", "path": Y, "expr": add(B, 1)}],
                          [{"op": "iop", "iop": "Add", "path": Y, "operand": ["lit", 1]}],
                          [{"op": "iop", "iop": "Mul", "path": Y, "operand": ["ref", A]}]]
    tail = [{"op": "set", "path": A, "value": 5}, {"op": "set", "path": B, "value": 2}, {"op": "set", "path": A, "value": 6}]
    # (container spec, path of the container, its members; the first two get definitions, the last stays plain)
    shapes = [({"d": [["x", 0], ["y", 0], ["w", 4]]}, ["d", ["i", "n"]], [["i", "x"], ["i", "y"], ["i", "w"]]),
              ({"l": [0, 0, 4]}, ["d", ["i", "n"]], [["i", 0], ["i", 1], ["i", 2]]),
              ({"o": [["x", 0], ["y", 0], ["w", 4]]}, ["d", ["i", "n"]], [["a", "x"], ["a", "y"], ["a", "w"]])]
    for spec, NN, steps in shapes:
        X, Y, W_ = (NN + [s] for s in steps)
        base = [{"op": "reset"},
                {"op": "container", "label": "d", "value": {"d": [["a", 1], ["b", 1], ["s", 0], ["c", 0], ["n", spec]]}},
                {"op": "setexpr", "path": X, "expr": mul(A, 2)}, {"op": "setexpr", "path": Y, "expr": mul(B, 3)}]
        whole = {"op": "regfunc", "id": "#F1", "body": [[S, _sum_term([X, Y, W_])]], "deps": [NN], "tars": [S]}
        for rem in removals(Y):
            # the reader of the container as a whole, and a reader of the member that has no definition (it names the
            # container among its dependencies: the declared graph puts it downstream of every writer of a member)
            yield base + rem + [whole, {"op": "setexpr", "path": C_, "expr": add(W_, 1)}] + tail
        # the same with the reader made BEFORE the writer is removed, and both writers removed in turn
        yield base + [whole] + removals(Y)[0] + tail + [{"op": "unregister", "id": X}] + tail
    # three levels: an expression on zz.hh.u also writes zz.hh and zz; zz.t writes zz
    ZZ, HH = ["d", ["i", "zz"]], ["d", ["i", "zz"], ["i", "hh"]]
    U, T = HH + [["i", "u"]], ZZ + [["i", "t"]]
    base = [{"op": "reset"},
            {"op": "container", "label": "d", "value": {"d": [["a", 1], ["b", 1], ["s", 0], ["c", 0],
                                                             ["zz", {"d": [["hh", {"d": [["u", 0], ["v", 3]]}], ["t", 0]]}]]}},
            {"op": "setexpr", "path": U, "expr": mul(A, 2)}, {"op": "setexpr", "path": T, "expr": mul(B, 3)}]
    whole = {"op": "regfunc", "id": "#F1", "body": [[S, _sum_term([U, HH + [["i", "v"]], T])]], "deps": [ZZ], "tars": [S]}
    yield base + [{"op": "set", "path": T, "value": 7}, whole] + tail
    yield base + [{"op": "unregister", "id": U}, whole] + tail
    yield base + [{"op": "iop", "iop": "Sub", "path": U, "operand": ["lit", 1]}, whole] + tail
    # two linear knobs adding to one target; the first is removed before anything else happens (while both are registered
    # the history is outside C01: overlapping writers), then an expression over the common target
    S1, S2, T_ = (["d", ["i", k]] for k in ("s1", "s2", "t"))
    kb = [{"op": "reset"}, {"op": "container", "label": "d", "value": {"d": [["s1", 0], ["s2", 0], ["t", 1], ["u", 2], ["c", 0]]}}]
    k1 = {"op": "regknob", "id": "#K1", "src": S1, "ws": [1], "tars": [T_], "alltars": [T_]}
    k2 = {"op": "regknob", "id": "#K2", "src": S2, "ws": [2], "tars": [T_], "alltars": [T_]}
    k2b = {"op": "regknob", "id": "#K2", "src": S2, "ws": [2, -1], "tars": [["d", ["i", "u"]], T_], "alltars": [["d", ["i", "u"]], T_]}
    ktail = [{"op": "setexpr", "path": C_, "expr": mul(T_, 10)}, {"op": "set", "path": S2, "value": 3}, {"op": "set", "path": S2, "value": 5}]
    yield kb + [k1, k2, {"op": "unregister", "id": "#K1"}] + ktail
    yield kb + [k2, k1, {"op": "unregister", "id": "#K1"}] + ktail
    yield kb + [k1, k2b, {"op": "unregister", "id": "#K1"}] + ktail


def bare_dependency_corpus():
    """linear knobs (their only dependency is the source, given as it is) and function tasks whose declared dependency is a
    NESTED location named alone, without the containers enclosing it; assignments to siblings under the same container
    (which have nothing to run) before and after; then the dependency itself is assigned: every task that names it runs,
    once (C02), the knob targets and function-task targets follow (C01)"""
    A, Y, OUT = (["d", ["i", k]] for k in ("a", "y", "out"))
    shapes = [({"d": [["k", 0], ["x", 0], ["t", 0]]}, [["i", "k"], ["i", "x"], ["i", "t"]]),
              ({"l": [0, 0, 0]}, [["i", 0], ["i", 1], ["i", 2]]),
              ({"o": [["k", 0], ["x", 0], ["t", 0]]}, [["a", "k"], ["a", "x"], ["a", "t"]])]
    for spec, steps in shapes:
        K, X, T = (["d", ["i", "n"]] + [s] for s in steps)
        base = [{"op": "reset"},
                {"op": "container", "label": "d", "value": {"d": [["a", 1], ["y", 0], ["out", 0], ["n", spec]]}}]
        knob = {"op": "regknob", "id": "#K1", "src": K, "ws": [2], "tars": [Y], "alltars": [Y]}
        knob_in = {"op": "regknob", "id": "#K1", "src": K, "ws": [2], "tars": [T], "alltars": [T]}
        func = {"op": "regfunc", "id": "#F1", "body": [[Y, ["bin", "Mul", ["ref", K], ["lit", 10]]]], "deps": [K], "tars": [Y]}
        watch = {"op": "regfunc", "id": "#F2", "body": [], "deps": [K], "tars": []}
        sib = lambda v: {"op": "set", "path": X, "value": v}
        dep = lambda v: {"op": "set", "path": K, "value": v}
        for reader in ([knob], [func], [knob_in, watch], [func, watch]):
            yield base + reader + [dep(1), sib(5), dep(3), sib(6), dep(4)]
            yield base + [sib(5)] + reader + [dep(3), sib(6), dep(4)]
            # an expression that reads inside the container comes and goes in between
            yield base + reader + [{"op": "setexpr", "path": OUT, "expr": ["bin", "Add", ["ref", T], ["ref", A]]},
                                   dep(1), {"op": "set", "path": A, "value": 2}, {"op": "set", "path": OUT, "value": 0},
                                   sib(5), dep(3), sib(6), dep(4)]
    # three levels deep: the dependency is zz.hh.u, the sibling lives directly under zz
    U, V, T = ["d", ["i", "zz"], ["i", "hh"], ["i", "u"]], ["d", ["i", "zz"], ["i", "hh"], ["i", "v"]], ["d", ["i", "zz"], ["i", "t"]]
    base = [{"op": "reset"}, {"op": "container", "label": "d", "value": {"d": [["a", 1], ["y", 0], ["zz", {"d": [["hh", {"d": [["u", 0], ["v", 0]]}], ["t", 0]]}]]}}]
    knob = {"op": "regknob", "id": "#K1", "src": U, "ws": [3], "tars": [Y], "alltars": [Y]}
    for s in (T, V):
        yield base + [knob, {"op": "set", "path": s, "value": 5}, {"op": "set", "path": U, "value": 3},
                      {"op": "set", "path": s, "value": 6}, {"op": "set", "path": U, "value": 4}]
        yield base + [{"op": "set", "path": s, "value": 5}, knob, {"op": "set", "path": U, "value": 3}]


def observer_corpus():
    """function tasks with an EMPTY target set (pure observers: a callback on a location) next to definitions that read the
    same location and are then removed, replaced or re-loaded: the observer keeps running on every later assignment to the
    location (C02: it is in the triggered set), the indices stay what the surviving tasks declare and a fresh manager with
    the surviving tasks reacts the same (C03)"""
    X, Y, Z, W_ = (["d", ["i", k]] for k in "xyzw")
    base = [{"op": "reset"}, {"op": "container", "label": "d", "value": {"d": [["x", 1], ["y", 0], ["z", 0], ["w", 0]]}}]
    watch = {"op": "regfunc", "id": "#F1", "body": [], "deps": [X], "tars": []}
    ydef = {"op": "setexpr", "path": Y, "expr": ["bin", "Mul", ["ref", X], ["lit", 2]]}
    zdef = {"op": "setexpr", "path": Z, "expr": ["bin", "Add", ["ref", X], ["lit", 1]]}
    tail = [{"op": "set", "path": X, "value": 5}, {"op": "refresh"}, {"op": "set", "path": X, "value": 7}]
    for rem in ([{"op": "set", "path": Y, "value": 0}], [{"op": "unregister", "id": Y}],
                [{"op": "setexpr", "path": Y, "expr": ["bin", "Add", ["ref", W_], ["lit", 1]]}],
                [{"op": "load", "overwrite": True, "pairs": [[Y, ["bin", "Sub", ["ref", W_], ["lit", 1]]]]}]):
        yield base + [watch, ydef] + rem + tail
        yield base + [ydef, watch] + rem + tail
        # two readers with targets: the index entry must survive the first removal and the second
        yield base + [watch, ydef, zdef] + rem + [{"op": "set", "path": X, "value": 3}, {"op": "set", "path": Z, "value": 0}] + tail
    # the other reader is a linear knob / a function task with targets
    knob = {"op": "regknob", "id": "#K1", "src": X, "ws": [2], "tars": [Y], "alltars": [Y]}
    func = {"op": "regfunc", "id": "#F2", "body": [[Y, ["bin", "Mul", ["ref", X], ["lit", 3]]]], "deps": [X], "tars": [Y]}
    yield base + [watch, knob, {"op": "set", "path": X, "value": 2}, {"op": "unregister", "id": "#K1"}] + tail
    yield base + [watch, func, {"op": "set", "path": X, "value": 2}, {"op": "unregister", "id": "#F2"}] + tail
    # the observer watches a nested location (named with its enclosing container, as an expression would)
    N, NX, NY = ["d", ["i", "n"]], ["d", ["i", "n"], ["i", "x"]], ["d", ["i", "n"], ["i", "y"]]
    nb = [{"op": "reset"}, {"op": "container", "label": "d", "value": {"d": [["y", 0], ["n", {"d": [["x", 1], ["y", 2]]}]]}}]
    nwatch = {"op": "regfunc", "id": "#F1", "body": [], "deps": [N, NX], "tars": []}
    yield nb + [nwatch, {"op": "setexpr", "path": Y, "expr": ["bin", "Mul", ["ref", NX], ["lit", 2]]}, {"op": "set", "path": Y, "value": 0},
                {"op": "set", "path": NX, "value": 5}, {"op": "set", "path": NY, "value": 6}, {"op": "cleanup"}, {"op": "set", "path": NX, "value": 7}]


def scenario_whole_container_readers(hist_id, stats, failures):
    """a definition that hands a whole container to a called function (oracle only: the model's expressions have no calls),
    made after one of the definitions of the container's members was removed; then the inputs of the remaining member
    definitions are assigned.  Pull model: every definition, re-evaluated by plain Python on the raw containers."""
    import xdeps

    def total(c):
        if isinstance(c, dict):
            return sum(c.values())
        if isinstance(c, list):
            return sum(c)
        return sum(v for k, v in vars(c).items() if not k.startswith("_"))

    class Obj:
        def __init__(self, **kw):
            self.__dict__.update(kw)

    for shape in ("dict", "list", "object"):
        for removal in ("value", "unregister", "redefine", "inplace", "none"):
            inner = {"dict": lambda: {"x": 0, "y": 0, "w": 4}, "list": lambda: [0, 0, 4], "object": lambda: Obj(x=0, y=0, w=4)}[shape]()
            raw = {"a": 1, "b": 1, "n": inner, "s": 0}
            m = xdeps.Manager()
            d = m.ref(raw, "d")
            F = m.ref({"total": total}, "F")
            if shape == "object":
                rx, ry = d["n"].x, d["n"].y
                gx, gy = (lambda: inner.x), (lambda: inner.y)
            else:
                kx, ky = ("x", "y") if shape == "dict" else (0, 1)
                rx, ry = d["n"][kx], d["n"][ky]
                gx, gy = (lambda kx=kx: inner[kx]), (lambda ky=ky: inner[ky])
            defs = {}           # name -> (read the location, plain-Python definition on the raw containers)
            m.set_value(rx, d["a"] * 2)
            defs["x"] = (gx, lambda: raw["a"] * 2)
            m.set_value(ry, d["b"] * 3)
            defs["y"] = (gy, lambda: raw["b"] * 3)
            if removal == "value":
                m.set_value(ry, 7)
                del defs["y"]
            elif removal == "unregister":
                m.unregister(ry)
                del defs["y"]
            elif removal == "redefine":
                m.set_value(ry, d["b"] + 10)
                defs["y"] = (gy, lambda: raw["b"] + 10)
            elif removal == "inplace":
                tmp = ry
                tmp += 1
                m.set_value(ry, tmp)
                defs["y"] = (gy, lambda: raw["b"] * 3 + 1)
            d["s"] = F["total"](d["n"]) * 2
            defs["s"] = (lambda: raw["s"], lambda: total(inner) * 2)
            for key, v in (("a", 5), ("b", 2), ("a", 6)):
                d[key] = v
                for name, (get, want) in defs.items():
                    if get() != want():
                        failures.append({"property": "C01", "kind": "stale", "hist": hist_id, "op_index": 0,
                                         "detail": {"scenario": "definition reads a whole container whose members have several writers",
                                                    "container": shape, "removed_by": removal, "assigned": [key, v], "location": name,
                                                    "got": repr(get()), "want": repr(want())}, "known": None})
                        return
            stats["whole_container_reader_scenarios"] = stats.get("whole_container_reader_scenarios", 0) + 1


def twin_check_tasks(sess, stats, follow=None):
    """C03 for histories with function tasks (observers with no target included) and linear knobs: a fresh manager over
    equal containers in which only the surviving definitions are registered — taken from the mirror of what the USER
    defined — has the same index supports and reacts to every later assignment like the original: same exception, same
    task executions (as a multiset of action calls and target writes), same contents"""
    import xdeps.tasks as xt
    im, mirror = sess.im, sess.mirror
    if not mirror.defs or all(d[0] == "expr" for d in mirror.defs.values()):
        return          # expression tasks only: twin_check
    if any(l["impl"]["exc"] != "ok" for l in sess.lines) or mirror.dataflow_cyclic() or mirror.overlapping_targets():
        return
    if len(mirror.defs) != len(im.m.tasks):
        return
    tw = ml.ImplMgr()
    for lab, c in im.roots.items():
        tw.apply({"op": "container", "label": lab, "value": ml.val_json(c)})
    for k, d in sorted(mirror.defs.items(), reverse=True):
        if d[0] == "expr":
            try:
                tw.m.register(xt.ExprTask(tw.ref(d[1]), tw.build(d[2])))
            except Exception:
                return
        elif d[0] == "func":
            r = tw.apply({"op": "regfunc", "id": d[1], "body": d[2], "deps": d[3], "tars": d[4]})
        else:
            r = tw.apply({"op": "regknob", "id": d[1], "src": d[2], "ws": d[3], "tars": d[4]})
        if d[0] != "expr" and r["impl"]["exc"] != "ok":
            return
    blk = sess.blocked(True)
    cand = [q for q in sess.P if pkey(q) not in mirror.defs and not any(comparable(q, b) for b in blk)]
    if follow is not None:
        cand = cand[:follow]
    stats["twin_task_checks"] = stats.get("twin_task_checks", 0) + 1
    if ml.canon_sup(im.sup_json()) != ml.canon_sup(tw.sup_json()):
        sess.fail("C03", "supports-differ-from-fresh", {"before_followup": True})
        return
    for i, p in enumerate(cand):
        v = 11 + i
        T, D = declared(tw)
        cyc2 = has_two_cycle(T, D, triggered_set(T, D, p))
        a = im.apply({"op": "set", "path": p, "value": v})["impl"]
        b = tw.apply({"op": "set", "path": p, "value": v})["impl"]
        if a["exc"] != b["exc"]:
            sess.fail("C03", "followup-exception-differs", {"path": p, "history": a["exc"], "fresh": b["exc"]})
            return
        if a["exc"] != "ok" or cyc2:
            return
        if sorted(map(pkey, a["trace"])) != sorted(map(pkey, b["trace"])):
            sess.fail("C03", "followup-executions-differ", {"path": p, "value": v, "history": a["trace"], "fresh": b["trace"]})
            return
        if ml.canon_val(a["store"]) != ml.canon_val(b["store"]):
            sess.fail("C03", "followup-contents-differ", {"path": p, "value": v})
            return
        if ml.canon_sup(a["sup"]) != ml.canon_sup(b["sup"]):
            sess.fail("C03", "supports-differ-from-fresh", {"path": p})
            return


def scenario_chain(n, hist_id, out_lines, stats, failures, reverse=False):
    """a chain of n dependants d[k1]=d[k0]+1, ...; definitions optionally consumer-before-producer.
    Only the final assignment is observed (observing every step would cost O(n^2))."""
    im = ml.ImplMgr()
    lines = []

    def emit(op, observe=True):
        line = im.apply(op)
        line["hist"] = hist_id
        if not observe:
            line = {"op": op["op"], "hist": hist_id, "light": True, "impl": {"exc": line["impl"]["exc"]},
                    **{k: v for k, v in op.items() if k != "op"}}
        lines.append(line)
        return line

    emit({"op": "reset"})
    emit({"op": "container", "label": "d", "value": {"d": [["k%d" % i, 0] for i in range(n + 1)]}}, observe=False)
    idx = list(range(1, n + 1))
    if reverse:
        idx = idx[::-1]
    pairs = [[["d", ["i", "k%d" % i]], ["bin", "Add", ["ref", ["d", ["i", "k%d" % (i - 1)]]], ["lit", 1]]] for i in idx]
    # definitions are registered in bulk (load = register without evaluation), then settled by the assignment
    r = im.rootrefs["d"]
    exc = "ok"
    try:
        for i in idx:
            im.m.register(xt_ExprTask(r["k%d" % i], r["k%d" % (i - 1)] + 1))
    except Exception as e:
        exc = type(e).__name__
    lines.append({"op": "load", "overwrite": True, "pairs": pairs, "hist": hist_id, "light": True, "impl": {"exc": exc}})
    line = emit({"op": "set", "path": ["d", ["i", "k0"]], "value": 5})
    stats["chain_len_max"] = max(stats.get("chain_len_max", 0), n)
    if line["impl"]["exc"] != "ok":
        for prop in ("C01", "C02"):
            failures.append({"property": prop, "kind": line["impl"]["exc"], "hist": hist_id, "op_index": len(lines) - 1,
                             "detail": {"chain": n, "reverse": reverse}, "known": None})
    else:
        got = im.raw_get(["d", ["i", "k%d" % n]])
        if got != 5 + n:
            failures.append({"property": "C01", "kind": "stale", "hist": hist_id, "op_index": len(lines) - 1,
                             "detail": {"chain": n, "got": got, "want": 5 + n}, "known": None})
        tr = [pkey(e[1]) for e in line["impl"]["trace"][1:]]
        want = [pkey(["d", ["i", "k%d" % i]]) for i in range(1, n + 1)]
        if tr != want:
            failures.append({"property": "C02", "kind": "order", "hist": hist_id, "op_index": len(lines) - 1,
                             "detail": {"chain": n, "first_executed": tr[:3]}, "known": None})
    out_lines.extend(lines)


def scenario_d1(hist_id, out_lines, stats, failures):
    """the probed sibling witness: n.x=a*2; n.z=n.y*3; n.y=n.x+1; a=5"""
    im = ml.ImplMgr()
    lines = []

    def emit(op):
        line = im.apply(op)
        line["hist"] = hist_id
        lines.append(line)
        return line

    emit({"op": "reset"})
    emit({"op": "container", "label": "d", "value": {"d": [["a", 1], ["n", {"d": [["x", 0], ["y", 0], ["z", 0]]}]]}})
    n = lambda k: ["d", ["i", "n"], ["i", k]]
    emit({"op": "setexpr", "path": n("x"), "expr": ["bin", "Mul", ["ref", ["d", ["i", "a"]]], ["lit", 2]]})
    emit({"op": "setexpr", "path": n("z"), "expr": ["bin", "Mul", ["ref", n("y")], ["lit", 3]]})
    emit({"op": "setexpr", "path": n("y"), "expr": ["bin", "Add", ["ref", n("x")], ["lit", 1]]})
    emit({"op": "set", "path": ["d", ["i", "a"]], "value": 5})
    got = im.raw_get(n("z"))
    if got != 33:
        failures.append({"property": "C01", "kind": "stale", "hist": hist_id, "op_index": len(lines) - 1,
                         "detail": {"scenario": "sibling-cycle", "location": n("z"), "got": got, "want": 33,
                                    "declared_cycle_in_triggered_set": True}, "known": "D1"})
    out_lines.extend(lines)


def scenario_d8(hist_id, stats, failures):
    """root-level computed key: o = d[d['i']]; d[2] = 11 (oracle only: the model has static paths)"""
    import xdeps
    m = xdeps.Manager()
    raw = {"i": 2, 2: 7, 3: 8, "o": 0}
    d = m.ref(raw, "d")
    d["o"] = d[d["i"]]
    d[2] = 11
    if raw["o"] != 11:
        failures.append({"property": "C01", "kind": "stale", "hist": hist_id, "op_index": 0,
                         "detail": {"scenario": "root-computed-key", "got": raw["o"], "want": 11}, "known": "D8"})
    # the same through a nested owner is covered by the owner chain and must work
    m = xdeps.Manager()
    raw = {"c": {"i": 2, 2: 7, 3: 8}, "o": 0}
    d = m.ref(raw, "d")
    d["o"] = d["c"][d["c"]["i"]]
    d["c"][2] = 11
    if raw["o"] != 11:
        failures.append({"property": "C01", "kind": "stale", "hist": hist_id, "op_index": 0,
                         "detail": {"scenario": "nested-computed-key", "got": raw["o"], "want": 11}, "known": None})
    d["c"]["i"] = 3
    if raw["o"] != 8:
        failures.append({"property": "C01", "kind": "stale", "hist": hist_id, "op_index": 1,
                         "detail": {"scenario": "nested-computed-key-index", "got": raw["o"], "want": 8}, "known": None})


def new_stats():
    return dict(ops=0, dataops=0, declared_cyclic=0, c02_nontrivial=0, faulted_ops=0, faults_fired=0,
                faults_not_reached=0, c01_out_of_scope=0, c01_checked_ops=0, c01_locations_checked=0,
                c03_support_checks=0, frozen_ops=0, twin_checks=0, histories=0)


def strip_op(line):
    return {k: v for k, v in line.items() if k not in ("impl", "order", "hist")}


def main():
    ap = argparse.ArgumentParser()
    ap.add_argument("--family", default="c01")
    ap.add_argument("--seed", type=int, default=0)
    ap.add_argument("--n", type=int, default=100)
    ap.add_argument("--maxops", type=int, default=22)
    ap.add_argument("--out", required=True)
    ap.add_argument("--corpus", action="store_true")
    ap.add_argument("--chains", default="")
    ap.add_argument("--replay", default=None, help="JSON file with a list of operation lists")
    a = ap.parse_args()
    rng = random.Random(a.seed * 1000003 + sum(map(ord, a.family)))
    t0 = time.time()
    stats = new_stats()
    failures = []
    lines = []
    hid = 0
    if a.replay:
        for ops in json.load(open(a.replay)):
            sess = replay_ops(ops, hid, stats, failures, a.family)
            lines.extend(sess.lines)
            hid += 1
            stats["histories"] += 1
    if a.corpus and a.family == "c13":
        scenario_c13_container(hid, stats, failures); hid += 1
        scenario_c13_interleaved(hid, stats, failures); hid += 1
        for ops in c13_corpus():
            sess = replay_ops(ops, hid, stats, failures, a.family)
            lines.extend(sess.lines)
            hid += 1
            stats["histories"] += 1
    elif a.corpus and a.family == "c17":
        scenario_two_managers(hid, stats, failures); hid += 1
        for ops in list(c17_kept_clone_corpus()) + list(c17_corpus()) + list(collision_corpus_frozen()):
            run_twin_history(ops, None, hid, lines, stats, failures)      # oracle only: the never-frozen twin
            hid += 1
            stats["histories"] += 1
        for ops in list(c17_corpus()) + list(collision_corpus_frozen()):
            sess = replay_ops(ops, hid, stats, failures, a.family)
            lines.extend(sess.lines)
            hid += 1
            stats["histories"] += 1
    elif a.corpus:
        for ops in list(collision_corpus()) + (list(d34_corpus()) if a.family == "c18" else []):
            sess = replay_ops(ops, hid, stats, failures, a.family)
            lines.extend(sess.lines)
            hid += 1
            stats["histories"] += 1
        scenario_two_managers(hid, stats, failures); hid += 1
        if a.family == "c18":
            scenario_c18_unprintable(hid, stats, failures); hid += 1
        scenario_lookalike_replacement(hid, stats, failures); hid += 1
        scenario_d1(hid, lines, stats, failures); hid += 1
        scenario_d8(hid, stats, failures); hid += 1
        for cname, corp in (("shared_writer_histories", shared_writer_corpus), ("bare_dependency_histories", bare_dependency_corpus),
                            ("observer_histories", observer_corpus)):
            for ops in corp():
                sess = replay_ops(ops, hid, stats, failures, a.family)
                lines.extend(sess.lines)
                hid += 1
                stats["histories"] += 1
                stats[cname] = stats.get(cname, 0) + 1
        scenario_whole_container_readers(hid, stats, failures); hid += 1
        for n in [int(x) for x in a.chains.split(",") if x]:
            scenario_chain(abs(n), hid, lines, stats, failures, reverse=n < 0); hid += 1
    for i in range(a.n):
        run_history(rng, a.family, 1000 + i, lines, stats, failures, a.maxops)
        stats["histories"] += 1
    # oracle-only random branches, each with a PRNG of its own (the histories above are what they were)
    if a.family == "c17" and a.n:
        rng2 = random.Random(a.seed * 7919 + 17)
        for i in range(max(2, a.n // 8)):
            run_twin_history(None, rng2, 100000 + i, lines, stats, failures, a.maxops)
            stats["histories"] += 1
    if a.family == "c18" and a.n:
        rng2 = random.Random(a.seed * 7919 + 18)
        nbig = c18_largest_sum(lambda n: {"inputs": {"x": 1.0, "p": 1.5}, "nodes": [["n0", "sum", n, "x"]]}, ["value", "x", 2.0])
        for i in range(max(2, a.n // 8)):
            spec, assign = random_c18_graph(rng2, nbig if i % 4 == 0 else 0)
            c18_crash_points(spec, assign, "random graph", 600 + i % 300, stats, failures, exc_names=(rng2.choice(["Fault", "KeyError", "RuntimeError", "StopIteration", "AttributeError"]),),
                             attempts=(rng2.randint(1, 2),))
            stats["c18_random_graphs_with_unprintable_tasks"] = stats.get("c18_random_graphs_with_unprintable_tasks", 0) + 1
    with open(a.out + ".ops.jsonl", "w") as f:
        for ln in lines:
            f.write(json.dumps(ln) + "\n")
    stats["wall_s"] = time.time() - t0
    with open(a.out + ".res.json", "w") as f:
        json.dump({"stats": stats, "failures": failures, "build": "compiled" if ml.xr.is_cythonized() else "pure"}, f)


if __name__ == "__main__":
    main()
