"""Worker: generate manager histories, run them on the real xdeps (scratch copy on PYTHONPATH),
apply the properties' own oracles, and write the protocol lines for the Lean driver.

usage: w_mgr.py --family F --seed S --n N --out PREFIX [--replay FILE]
writes PREFIX.ops.jsonl (one protocol line per op, with a `hist` field) and PREFIX.res.json
"""
import argparse
import copy
import json
import math
import random
import sys
import time

sys.setrecursionlimit(1000)   # CPython's default: the depth clause of C01/C02 is about this limit

import mgrlib as ml
from xdeps.tasks import ExprTask as xt_ExprTask
from mgrlib import pkey, chain, comparable

# ----------------------------------------------------------------------------
# universe
# ----------------------------------------------------------------------------
TOP = list("abcdefgh")


def initial_store(rng, nested):
    d = [[k, rng.randint(-4, 6)] for k in TOP]
    if nested:
        d.append(["n", {"d": [[k, rng.randint(-4, 6)] for k in "xyz"]}])
        d.append(["k", {"d": [[k, rng.randint(-4, 6)] for k in "pq"]}])
        d.append(["l", {"l": [rng.randint(-4, 6) for _ in range(3)]}])
        d.append(["o", {"o": [[k, rng.randint(-4, 6)] for k in "uv"]}])
        # three levels deep: d['zz']['hh']['u'] (an assignment there triggers the readers of d['zz']['t'] through d['zz'])
        d.append(["zz", {"d": [["hh", {"d": [[k, rng.randint(-4, 6)] for k in "uv"]}], ["t", rng.randint(-4, 6)]]}])
    m = [[k, rng.randint(-4, 6)] for k in "rst"]
    if nested:
        m.append(["w", {"o": [["i", rng.randint(-4, 6)], ["j", rng.randint(-4, 6)]]}])
    return {"d": {"d": d}, "m": {"d": m}}


def leaf_paths(nested):
    P = [["d", ["i", k]] for k in TOP] + [["m", ["i", k]] for k in "rst"]
    if nested:
        P += [["d", ["i", "n"], ["i", k]] for k in "xyz"]
        P += [["d", ["i", "k"], ["i", k]] for k in "pq"]
        P += [["d", ["i", "l"], ["i", i]] for i in range(3)]
        P += [["d", ["i", "o"], ["a", k]] for k in "uv"]
        P += [["m", ["i", "w"], ["a", k]] for k in "ij"]
        P += [["d", ["i", "zz"], ["i", "hh"], ["i", k]] for k in "uv"] + [["d", ["i", "zz"], ["i", "t"]]]
    return P


# ----------------------------------------------------------------------------
# mirror: what the *user* has defined, maintained from the operations alone
# ----------------------------------------------------------------------------
class Mirror:
    def __init__(self):
        self.defs = {}       # pkey(path) -> ("expr", path, term) | ("func", id, body, deps, tars) | ("knob", id, src, ws, tars)
        self.plain = {}      # pkey(path) -> last value assigned (locations without a definition)
        self.knob_prev = {}  # id -> last source value seen
        self.unsettled = set()  # ids registered but not yet triggered (function / knob / loaded)

    def writers(self):
        """(id, [leaf targets], [leaf reads]) per definition"""
        out = []
        for k, d in self.defs.items():
            if d[0] == "expr":
                out.append((k, [d[1]], ml.term_refs(d[2])))
            elif d[0] == "func":
                out.append((k, [p for p, _ in d[2]], [r for _, t in d[2] for r in ml.term_refs(t)]))
            else:
                out.append((k, list(d[4]), [d[2]]))
        return out

    def dataflow_cyclic(self):
        ws = self.writers()
        adj = {k: [] for k, _, _ in ws}
        for ku, tu, _ in ws:
            for kt, _, rt in ws:
                if any(comparable(a, r) for a in tu for r in rt):
                    adj[ku].append(kt)
        # any cycle, self-loops included
        color = {}

        def dfs(u):
            color[u] = 1
            for v in adj[u]:
                if color.get(v) == 1:
                    return True
                if v not in color and dfs(v):
                    return True
            color[u] = 2
            return False

        return any(k not in color and dfs(k) for k in adj)

    def overlapping_targets(self):
        ws = self.writers()
        for i, (ku, tu, _) in enumerate(ws):
            for kt, tt, _ in ws[i + 1:]:
                if any(comparable(a, b) for a in tu for b in tt):
                    return True
        return False


def is_nan(x):
    return isinstance(x, float) and math.isnan(x)


def same(a, b):
    if is_nan(a) or is_nan(b):
        return is_nan(a) and is_nan(b)
    return type(a) is type(b) and a == b


# ----------------------------------------------------------------------------
# declared graph from the public task attributes (oracle side of C02 / D1 signature)
# ----------------------------------------------------------------------------
def declared(im):
    tasks = im.m.tasks
    ids = list(tasks)
    T = {pkey(ml.id_json(t)): set(pkey(ml.path_of_ref(r)) for r in tasks[t].targets) for t in ids}
    D = {pkey(ml.id_json(t)): set(pkey(ml.path_of_ref(r)) for r in tasks[t].dependencies) for t in ids}
    return T, D


def triggered_set(T, D, p):
    ch = set(pkey(c) for c in chain(p))
    start = [t for t in D if D[t] & ch]
    reach = set(start)
    todo = list(start)
    while todo:
        u = todo.pop()
        for t in D:
            if t not in reach and (T[u] & D[t]):
                reach.add(t)
                todo.append(t)
    return reach


def has_two_cycle(T, D, nodes):
    """a cycle through at least two distinct tasks inside `nodes`"""
    nodes = list(nodes)
    adj = {u: [t for t in nodes if t != u and (T[u] & D[t])] for u in nodes}
    # Tarjan-free: reachability closure (graphs are small)
    for a in nodes:
        seen = set()
        todo = list(adj[a])
        while todo:
            x = todo.pop()
            if x in seen:
                continue
            seen.add(x)
            todo.extend(adj[x])
        if a in seen:
            return True
    return False


def executed_tasks(im, mirror, trace, p):
    """task executions in the write/action trace of one assignment (after the initial write)"""
    ev = list(trace)
    if ev and ev[0] == ["w", p]:
        ev = ev[1:]
    knob_of = {}
    for k, d in mirror.defs.items():
        if d[0] == "knob":
            for t in d[4]:
                knob_of[pkey(t)] = (k, [pkey(x) for x in d[4]])
    out = []
    i = 0
    while i < len(ev):
        kind, what = ev[i]
        if kind == "a":
            out.append(pkey(what))
            i += 1
        elif pkey(what) in knob_of and pkey(what) not in {k for k, d in mirror.defs.items() if d[0] == "expr"}:
            kid, tars = knob_of[pkey(what)]
            j = 0
            while i < len(ev) and j < len(tars) and ev[i][0] == "w" and pkey(ev[i][1]) == tars[j]:
                i += 1
                j += 1
            if j == 0:
                i += 1
            out.append(kid)
        else:
            out.append(pkey(what))
            i += 1
    return out


# ----------------------------------------------------------------------------
# history generation
# ----------------------------------------------------------------------------
MIX = {
    # family: weights of (set, setexpr, iop, unregister, regfunc, regknob, maint, load, query)
    "c01": dict(set=30, setexpr=34, iop=10, unregister=6, regfunc=5, regknob=4, maint=3, load=0, query=0, freeze=0, fault=0),
    "c02": dict(set=40, setexpr=32, iop=6, unregister=4, regfunc=8, regknob=6, maint=0, load=0, query=0, freeze=0, fault=0),
    "c03": dict(set=16, setexpr=32, iop=6, unregister=16, regfunc=5, regknob=2, maint=10, load=6, query=7, freeze=0, fault=0),
    "c17": dict(set=24, setexpr=24, iop=8, unregister=10, regfunc=5, regknob=2, maint=12, load=6, query=3, freeze=10, fault=0),
    "c13": dict(set=30, setexpr=50, iop=8, unregister=4, regfunc=0, regknob=0, maint=0, load=0, query=0, freeze=0, fault=0, genfun=8),
    # C11's manager half: definitions loaded from dumps (overwrite on and off) between assignments; expression tasks only
    "c11": dict(set=28, setexpr=34, iop=4, unregister=4, regfunc=0, regknob=0, maint=6, load=20, query=4, freeze=0, fault=0),
    "c18": dict(set=40, setexpr=26, iop=6, unregister=3, regfunc=6, regknob=3, maint=2, load=0, query=0, freeze=0, fault=22),
}


for _m in MIX.values():
    _m.setdefault("genfun", 0)


class Gen:
    def __init__(self, rng, family):
        self.rng = rng
        self.family = family
        self.nested = rng.random() < (0.45 if family != "c03" else 0.7)
        self.P = leaf_paths(self.nested)
        order = list(range(len(self.P)))
        rng.shuffle(order)
        self.rank = {pkey(self.P[i]): r for r, i in enumerate(order)}
        self.nfunc = 0
        self.acyclic_bias = 0.93 if family in ("c01", "c02", "c18") else (0.97 if family == "c13" else 0.8)
        # "flat producers" mode keeps nested members from reading their own container (no D1 cycles)
        self.safe_nested = rng.random() < 0.6

    def term(self, target, depth=0, need_ref=True):
        rng = self.rng
        x = rng.random()
        if depth >= 3 or x < 0.35:
            if need_ref or rng.random() < 0.75:
                return ["ref", self.pick_src(target)]
            return ["lit", rng.randint(-3, 4)]
        if x < 0.9:
            op = rng.choice(["Add", "Add", "Sub", "Mul", "Floordiv", "Mod"])
            a = self.term(target, depth + 1, need_ref)
            b = self.term(target, depth + 1, False)
            if rng.random() < 0.3:
                a, b = b, a
            if a[0] == "lit" and b[0] == "lit":
                a = ["ref", self.pick_src(target)]
            return ["bin", op, a, b]
        return ["un", rng.choice(["Neg", "Pos"]), self.term(target, depth + 1, True)]

    def pick_src(self, target):
        rng = self.rng
        P = self.P
        if target is not None and rng.random() < self.acyclic_bias:
            lower = [q for q in P if self.rank[pkey(q)] < self.rank[pkey(target)]]
            if self.safe_nested and len(target) > 2:
                lower = [q for q in lower if q[:2] != target[:2]]
            if lower:
                return rng.choice(lower)
        return rng.choice(P)


def leaf_diff(a, b, prefix=None):
    """paths (protocol form) of the leaves at which two canonical store values differ"""
    out = []
    if prefix is None:
        da, db = dict((k, v) for k, v in a.get("d", [])), dict((k, v) for k, v in b.get("d", []))
        for lab in sorted(set(da) | set(db)):
            if lab not in da or lab not in db:
                out.append([lab])
            else:
                out += leaf_diff(da[lab], db[lab], [lab])
        return out
    if isinstance(a, dict) and isinstance(b, dict) and set(a) == set(b) and len(a) == 1:
        kind = next(iter(a))
        if kind in ("d", "o"):
            step = "i" if kind == "d" else "a"
            da = dict((json.dumps(k), (k, v)) for k, v in a[kind])
            db = dict((json.dumps(k), (k, v)) for k, v in b[kind])
            for kk in sorted(set(da) | set(db)):
                if kk not in da or kk not in db:
                    out.append(prefix + [[step, json.loads(kk)]])
                else:
                    out += leaf_diff(da[kk][1], db[kk][1], prefix + [[step, da[kk][0]]])
            return out
        if kind == "l":
            if len(a["l"]) != len(b["l"]):
                return [prefix]
            for idx, (x, y) in enumerate(zip(a["l"], b["l"])):
                out += leaf_diff(x, y, prefix + [["i", idx]])
            return out
    return [] if json.dumps(a, sort_keys=True) == json.dumps(b, sort_keys=True) else [prefix]


class Session:
    """one history: the real manager, the mirror of what the user defined, and the oracles.
    `step(op)` executes one protocol operation and checks every property's oracle on it, so that a
    recorded operation list can be replayed (and shrunk) without the generator."""

    def __init__(self, hist_id, stats, failures, family="c01"):
        self.im = ml.ImplMgr()
        self.mirror = Mirror()
        self.hist_id = hist_id
        self.stats = stats
        self.failures = failures
        self.family = family
        self.lines = []
        self.c01_live = True
        self.frozen = False
        self.snapshot = None
        self.armed = None          # fault armed by the previous op
        self.P = []
        self.no_recovery_oracle = False
        self.recovery_checks = 0
        self.partial_knob_targets = set()    # targets of linear knobs whose run a fault interrupted after a target write

    # ---- plumbing ----
    def emit(self, op):
        line = self.im.apply({k: v for k, v in op.items() if not k.startswith("_")})
        for k, v in op.items():
            if k.startswith("_"):
                line[k] = v
        line["hist"] = self.hist_id
        self.lines.append(line)
        st = self.stats
        st["ops"] += 1
        st["op:" + op["op"]] = st.get("op:" + op["op"], 0) + 1
        if line["impl"]["exc"] != "ok":
            st["exc:" + line["impl"]["exc"]] = st.get("exc:" + line["impl"]["exc"], 0) + 1
        if line["impl"]["exc"] == "Fault" and ml.RAN and ml.RAN[-1] is not None:
            # which task was running when the container raised: a linear knob with several targets of which at least one
            # had been written has been left half applied (D34's signature)
            try:
                import xdeps.tasks as _xt
                last = json.loads(ml.RAN[-1])
                for tid, task in self.im.m.tasks.items():
                    if isinstance(task, _xt.LinearKnob) and ml.id_json(tid) == last and len(task.targets) >= 2:
                        tars = [json.dumps(ml.path_of_ref(t)) for t in task.targets]
                        written = [json.dumps(ev[1]) for ev in line["impl"].get("trace", []) if ev and ev[0] == "w"]
                        if any(t in written for t in tars):
                            self.partial_knob_targets.update(pkey(json.loads(t)) for t in tars)
                            st["knob_runs_interrupted_between_targets"] = st.get("knob_runs_interrupted_between_targets", 0) + 1
            except Exception:
                pass
        if line["impl"].get("internal_keyerror") and op["op"] in ("set", "setexpr", "iop"):
            # an assignment that dies on a task / location missing from the manager's own tables: none of the tasks it
            # should run has run (C02), the dependants are stale (C01), and a removed definition left a trace (C03)
            for prop in ("C01", "C02", "C03", "C17", "C18"):
                self.fail(prop, "assignment-fails-on-the-managers-own-tables",
                          {"op": {k: v for k, v in op.items() if not k.startswith("_")}, "missing": line["impl"]["internal_keyerror"]})
        return line

    def fail(self, prop, kind, detail, known=None):
        self.failures.append({"property": prop, "kind": kind, "hist": self.hist_id, "op_index": len(self.lines) - 1,
                              "detail": detail, "known": known})

    def recovery_oracle(self, p, cyclic):
        """C18, last sentence, for EVERY kind of dependant (expression, function and linear-knob targets): after the
        fault-free repeat the containers hold what they would hold had the faulty attempts never been made — the same
        history without the armed faults and without the attempts they stopped, replayed on a fresh manager."""
        if self.no_recovery_oracle or self.recovery_checks >= 2 or cyclic:
            return
        if self.mirror.dataflow_cyclic() or self.mirror.overlapping_targets() or getattr(self, "ever_out_of_scope", False):
            return
        if any(l["impl"]["exc"] not in ("ok", "Fault") for l in self.lines):
            return          # another failure left a partial update whose extent depends on the order of independent tasks
        srcs = {pkey(l["src"]) for l in self.lines if l["op"] == "regknob"}
        if any(l["op"] in ("setexpr", "iop", "load", "regfunc") and
               (pkey(l.get("path")) in srcs or any(pkey(q) in srcs for q in l.get("tars", [])) or
                any(pkey(pe[0]) in srcs for pe in l.get("pairs", []))) for l in self.lines):
            return          # a knob whose source is itself computed (possibly from the knob's own targets) is a feedback loop:
                            # the state depends on how often the knob ran, with or without a fault
        self.recovery_checks += 1
        clean = []
        for l in self.lines:
            if l["op"] == "fault" or l["impl"]["exc"] == "Fault":
                continue
            clean.append({k: v for k, v in l.items() if k not in ("impl", "order", "hist") and not k.startswith("_")})
        tw = Session(self.hist_id, new_stats(), [], self.family)
        tw.no_recovery_oracle = True
        try:
            for o in clean:
                tw.step(o)
        except Exception:
            return
        if not tw.lines or any(l["impl"]["exc"] != "ok" for l in tw.lines):
            return
        got = ml.canon_val(self.lines[-1]["impl"]["store"])
        want = ml.canon_val(tw.lines[-1]["impl"]["store"])
        self.stats["c18_recovered_vs_never_faulted"] = self.stats.get("c18_recovered_vs_never_faulted", 0) + 1
        if got == want:
            return
        differing = leaf_diff(got, want)
        known = None
        if self.partial_knob_targets and differing:
            # D34: every differing location is a target of a knob left half applied, or depends on one
            down = [json.loads(k) for k in self.partial_knob_targets]
            try:
                start = [self.im.ref(t) for t in list(down)]
                for r in self.im.m.find_deps(start):
                    down.append(ml.path_of_ref(r))
            except Exception:
                pass
            if all(any(d[:len(t)] == t for t in down) for d in differing):
                known = "D34"
        self.fail("C18", "recovered-state-differs-from-never-faulted", {"path": p, "differing": differing[:8] if differing else differing,
                                                                         "half_applied_knob_targets": sorted(self.partial_knob_targets)}, known)

    def quiet_verify(self):
        import io, contextlib
        with contextlib.redirect_stdout(io.StringIO()):
            self.im.m.verify()

    def blocked(self, for_def):
        out = []
        for d in self.mirror.defs.values():
            if d[0] == "func":
                out += [q for q, _ in d[2]]
            elif d[0] == "knob" and for_def:
                out += list(d[4])
        return out

    # ---- one operation ----
    def step(self, op):
        im, mirror, stats = self.im, self.mirror, self.stats
        kind = op["op"]
        frozen = self.frozen
        prev_store = None
        if self.lines and "store" in self.lines[-1]["impl"]:
            prev_store = ml.canon_val(self.lines[-1]["impl"]["store"])
        faulted = self.armed if kind in ("set", "setexpr", "iop") else None
        self.armed = None
        expect_reject = False
        line = None
        p = op.get("path")
        if kind in ("reset",):
            self.emit(op)
            return
        if kind == "container":
            self.emit(op)
            self._index_leaves(op["label"], op["value"])
            return
        if kind == "fault":
            self.emit(op)
            self.armed = op["k"]
            return
        if kind == "set":
            v = op["value"]
            expect_reject = pkey(p) in mirror.defs
            line = self.emit(op)
            if not (frozen and expect_reject) and line["impl"]["exc"] in ("ok", "Fault"):
                mirror.defs.pop(pkey(p), None)
                mirror.plain[pkey(p)] = float("nan") if v == "nan" else v
        elif kind == "setexpr":
            expect_reject = True
            line = self.emit(op)
            if not frozen:
                mirror.defs[pkey(p)] = ("expr", p, op["expr"])
                mirror.plain.pop(pkey(p), None)
        elif kind == "iop":
            opn, operand = op["iop"], op["operand"]
            old_def = mirror.defs.get(pkey(p))
            try:
                oldv = im.raw_get(p)
            except Exception:
                oldv = None
            expect_reject = (old_def is not None) or operand[0] == "ref"
            line = self.emit(op)
            if not (frozen and expect_reject):
                if old_def is not None:
                    mirror.defs[pkey(p)] = ("expr", p, ["bin", opn, old_def[2], operand])
                elif operand[0] == "ref":
                    mirror.defs[pkey(p)] = ("expr", p, ["bin", opn, ["lit", ml.val_json(oldv)], operand])
                    mirror.plain.pop(pkey(p), None)
                else:
                    try:
                        want = ml.BIN[opn](oldv, operand[1])
                        wexc = "ok"
                    except Exception as e:
                        want, wexc = None, type(e).__name__
                    if line["impl"]["exc"] in ("ok", "Fault") and wexc == "ok":
                        mirror.plain[pkey(p)] = want     # what Python computes on the old value
                    elif line["impl"]["exc"] != wexc:
                        self.fail("C01", "inplace-exception", {"path": p, "op": opn, "old": repr(oldv), "operand": operand[1],
                                                               "got": line["impl"]["exc"], "want": wexc})
        elif kind == "unregister":
            expect_reject = True
            tid = op["id"]
            k = pkey(tid)
            d = mirror.defs.get(k)
            ln = self.emit(op)
            if not frozen and d is not None:
                mirror.defs.pop(k, None)
                mirror.unsettled.discard(k)
                try:
                    if d[0] == "expr":
                        mirror.plain[k] = im.raw_get(d[1])
                    else:
                        for t in (d[4] if d[0] == "knob" else [q for q, _ in d[2]]):
                            mirror.plain[pkey(t)] = im.raw_get(t)
                except Exception:
                    pass
                if ln["impl"]["exc"] != "ok":
                    self.fail("C03", "unregister-raises", {"id": tid, "exc": ln["impl"]["exc"]})
        elif kind == "regfunc":
            expect_reject = True
            self.emit(op)
            if not frozen:
                mirror.defs[pkey(op["id"])] = ("func", op["id"], op["body"], op["deps"], op["tars"])
                for q, _ in op["body"]:
                    mirror.plain.pop(pkey(q), None)
                mirror.unsettled.add(pkey(op["id"]))
        elif kind == "regknob":
            expect_reject = True
            ln = self.emit(op)
            if not frozen and ln["impl"]["exc"] == "ok":
                mirror.defs[pkey(op["id"])] = ("knob", op["id"], op["src"], op["ws"], op["tars"])
                mirror.knob_prev[pkey(op["id"])] = im.raw_get(op["src"])
        elif kind in ("refresh", "cleanup", "verify", "clone"):
            # refresh() does not add or remove a definition: it may raise ValueError or not,
            # but must leave everything as it is
            self.emit(op)
        elif kind == "load":
            ow = op["overwrite"]
            expect_reject = any(ow or pkey(q) not in mirror.defs for q, _ in op["pairs"])
            self.emit(op)
            if not frozen:
                for q, t in op["pairs"]:
                    k = pkey(q)
                    if k in mirror.defs and not ow:
                        continue
                    mirror.defs[k] = ("expr", q, t)
                    mirror.plain.pop(k, None)
                    mirror.unsettled.add(k)
        elif kind == "query":
            self.emit(op)
        elif kind == "genfun":
            self._genfun(op)
            return
        elif kind == "freeze":
            ln = self.emit(op)
            self.frozen = True
            self.ever_frozen = True
            impl = ln["impl"]
            self.snapshot = (ml.canon_defs(impl["defs"]), ml.canon_sup(impl["sup"]))
            return
        elif kind == "unfreeze":
            self.emit(op)
            self.frozen = False
            return
        else:
            raise ValueError("unknown op " + kind)

        last = self.lines[-1]
        # ---------------- C17: while frozen ----------------
        if frozen:
            impl = last["impl"]
            stats["frozen_ops"] += 1
            if last["op"] != "query":
                cur = (ml.canon_defs(impl["defs"]), ml.canon_sup(impl["sup"]))
                if cur != self.snapshot:
                    self.fail("C17", "graph-changed-while-frozen", {"op": last["op"], "exc": impl["exc"]})
                    self.snapshot = cur
                if expect_reject:
                    stats["frozen_rejected"] = stats.get("frozen_rejected", 0) + 1
                    data_err = last["op"] == "iop" and impl["exc"] in ("KeyError", "IndexError", "TypeError", "AttributeError", "ZeroDivisionError", "OverflowError")
                    if impl["exc"] != "ValueError" and not data_err:
                        self.fail("C17", "no-ValueError", {"op": last["op"], "exc": impl["exc"]})
                    if ml.canon_val(impl["store"]) != prev_store:
                        self.fail("C17", "data-changed-by-rejected-call", {"op": last["op"]})
                elif last["op"] == "refresh" and impl["exc"] not in ("ok", "ValueError"):
                    self.fail("C17", "refresh-raises-while-frozen", {"exc": impl["exc"]})
                elif last["op"] in ("verify", "cleanup", "clone") and impl["exc"] != "ok":
                    self.fail("C17", "maintenance-raises-while-frozen", {"op": last["op"], "exc": impl["exc"]})
            if expect_reject:
                line = None     # a rejected call is not an assignment

        # ---------------- oracles on a data operation ----------------
        if line is not None and line["op"] in ("set", "setexpr", "iop"):
            impl = line["impl"]
            T, D = declared(im)
            trig = triggered_set(T, D, p)
            cyc2 = has_two_cycle(T, D, trig)
            stats["dataops"] += 1
            stats["declared_cyclic"] += cyc2
            # ---- C02: exactly the triggered set, once each, producers first
            if impl["exc"] == "ok":
                ex = executed_tasks(im, mirror, impl["trace"], p)
                if len(set(ex)) != len(ex):
                    self.fail("C02", "ran-twice", {"path": p, "executed": ex})
                if set(ex) != trig:
                    self.fail("C02", "wrong-set", {"path": p, "executed": sorted(ex), "expected": sorted(trig)})
                elif not cyc2:
                    pos = {t: i for i, t in enumerate(ex)}
                    for u in trig:
                        for t in trig:
                            if u != t and (T[u] & D[t]) and pos[u] > pos[t]:
                                self.fail("C02", "order", {"path": p, "producer": u, "consumer": t, "executed": ex})
                if len(trig) > 1:
                    stats["c02_nontrivial"] += 1
            elif impl["exc"] == "RecursionError":
                self.fail("C02", "RecursionError", {"path": p, "ntasks": len(im.m.tasks)})
                self.fail("C01", "RecursionError", {"path": p, "ntasks": len(im.m.tasks)})
            # ---- C18: a fault reaches the caller, the prefix ran, nothing else changed
            if faulted is not None:
                stats["faulted_ops"] += 1
                if impl["exc"] == "Fault":
                    stats["faults_fired"] += 1
                    # what ran is a prefix of the schedule; nothing after the failing task ran
                    ex = executed_tasks(im, mirror, impl["trace"], p)
                    sched = [pkey(x) for x in (line.get("order") or [])]
                    nw = sum(1 for e in impl["trace"] if e[0] == "w")
                    if ex != sched[:len(ex)] or nw > faulted:
                        self.fail("C18", "not-a-prefix", {"path": p, "k": faulted, "executed": ex, "schedule": sched})
                    try:
                        self.quiet_verify()
                    except Exception as e:
                        self.fail("C18", "verify-after-fault", {"path": p, "exc": type(e).__name__})
                    self.c01_live = False   # values downstream of the failed update are legitimately stale
                elif impl["exc"] == "ok" and impl.get("fault_fired"):
                    # the container did raise, and the assignment returned normally
                    self.fail("C18", "fault-swallowed-or-changed", {"path": p, "exc": "ok", "k": faulted})
                elif impl["exc"] == "ok":
                    stats["faults_not_reached"] += 1
                elif impl["exc"] not in ("KeyError", "IndexError", "TypeError", "AttributeError", "ZeroDivisionError", "OverflowError", "ValueError"):
                    self.fail("C18", "fault-swallowed-or-changed", {"path": p, "exc": impl["exc"]})
            if op.get("_repeat") and impl["exc"] == "ok":
                # the repeated assignment must re-establish everything downstream of it
                if not cyc2 and not mirror.dataflow_cyclic() and not mirror.overlapping_targets():
                    stats["c18_repeats_checked"] = stats.get("c18_repeats_checked", 0) + 1
                    for k, d in mirror.defs.items():
                        if d[0] == "expr" and (k in trig or k == pkey(p)):
                            try:
                                want = im.pull(d[2])
                                got = im.raw_get(d[1])
                            except Exception:
                                continue
                            if not same(got, want):
                                self.fail("C18", "stale-after-repeat", {"location": d[1], "got": repr(got), "want": repr(want)})
            elif op.get("_repeat") and impl["exc"] not in ("KeyError", "IndexError", "TypeError", "AttributeError", "ZeroDivisionError", "OverflowError"):
                self.fail("C18", "repeat-raises", {"path": p, "exc": impl["exc"]})
            if op.get("_repeat") and impl["exc"] == "ok":
                self.recovery_oracle(p, cyc2)
            # ---- C01: pull-model re-evaluation
            if impl["exc"] != "ok" and not (frozen and impl["exc"] == "ValueError"):
                self.c01_live = False          # (a call rejected by the freeze leaves everything as it was)
            if mirror.dataflow_cyclic() or mirror.overlapping_targets():
                if self.c01_live:
                    stats["c01_out_of_scope"] += 1
                self.c01_live = False
                self.ever_out_of_scope = True      # a definition that reads what it writes: the state depends on how often it ran
            if self.c01_live:
                self._c01_pull(p, trig, cyc2)

        # ---------------- C03 oracle: supports are a function of the surviving tasks ----------------
        if "sup" in last["impl"] and last["op"] != "clone":
            self._c03_supports(last)
        elif last["op"] == "clone" and "clone_sup" in last["impl"]:
            self._c03_supports(last, key="clone_sup")
        if last["op"] == "verify" and last["impl"]["exc"] != "ok":
            self.fail("C03", "verify-fails", {"exc": last["impl"]["exc"]})

    def _genfun(self, op):
        """C13: f(*values) on this manager vs assigning the values one by one on a twin"""
        im, mirror, stats = self.im, self.mirror, self.stats
        prior = [strip_op(l) for l in self.lines]
        T, D = declared(im)
        trig = set()
        for pth, _ in op["args"]:
            trig |= triggered_set(T, D, pth)
        cyc2 = has_two_cycle(T, D, trig)
        line = self.emit(op)
        stats["genfun_ops"] = stats.get("genfun_ops", 0) + 1
        self.c01_live = False
        for pth, v in op["args"]:
            mirror.plain[pkey(pth)] = float("nan") if v == "nan" else v
        if line["impl"]["exc"] != "ok":
            texts = " ".join(str(getattr(t, "expr", "")) for t in im.m.tasks.values())
            if line["impl"]["exc"] == "NameError" and ("nan" in texts or "inf" in texts):
                # an earlier division by zero left NaN in a location, and an in-place operator baked it into an expression
                # as a literal: the printed source then names `nan` (C13 excludes division by zero, C11 non-finite constants)
                stats["c13_out_of_scope"] = stats.get("c13_out_of_scope", 0) + 1
                return
            if line["impl"]["exc"] not in ("KeyError", "IndexError", "TypeError", "AttributeError", "ZeroDivisionError", "OverflowError"):
                self.fail("C13", "generated-function-raises", {"args": op["args"], "exc": line["impl"]["exc"]})
            return
        # source lists the triggered expression tasks once each, in dependency order
        listed = [pkey(x) for x in (line.get("order") or [])]
        if len(set(listed)) != len(listed):
            self.fail("C13", "task-listed-twice", {"listed": listed})
        if set(listed) != trig:
            self.fail("C13", "listed-tasks-differ", {"args": [a[0] for a in op["args"]], "listed": sorted(listed), "expected": sorted(trig)})
        elif not cyc2:
            pos = {t: i for i, t in enumerate(listed)}
            for u in trig:
                for t in trig:
                    if u != t and (T[u] & D[t]) and pos[u] > pos[t]:
                        self.fail("C13", "listed-out-of-order", {"producer": u, "consumer": t})
        if cyc2 or mirror.dataflow_cyclic() or mirror.overlapping_targets():
            stats["c13_out_of_scope"] = stats.get("c13_out_of_scope", 0) + 1
            return
        tw = ml.ImplMgr()
        for o in prior:
            if o["op"] in ("fault",):
                continue
            tw.apply(o)
        bad = False
        for pth, v in op["args"]:
            r = tw.apply({"op": "set", "path": pth, "value": v})
            bad = bad or r["impl"]["exc"] != "ok"
        a, b = ml.canon_val(line["impl"]["store"]), ml.canon_val(tw.store_json())
        if bad or '"nan"' in json.dumps(a) or '"nan"' in json.dumps(b):
            stats["c13_out_of_scope"] = stats.get("c13_out_of_scope", 0) + 1
            return
        stats["c13_twin_checks"] = stats.get("c13_twin_checks", 0) + 1
        if a != b:
            self.fail("C13", "function-differs-from-assignments", {"args": op["args"]})

    def _index_leaves(self, label, spec):
        def walk(path, v):
            if isinstance(v, dict) and "d" in v:
                for k, x in v["d"]:
                    walk(path + [["i", k]], x)
            elif isinstance(v, dict) and "l" in v:
                for i, x in enumerate(v["l"]):
                    walk(path + [["i", i]], x)
            elif isinstance(v, dict) and "o" in v:
                for k, x in v["o"]:
                    walk(path + [["a", k]], x)
            else:
                self.P.append(path)
                self.mirror.plain[pkey(path)] = float("nan") if v == "nan" else v
        walk([label], spec)

    def _c01_pull(self, p, trig, cyc2):
        im, mirror, stats = self.im, self.mirror, self.stats
        for k in list(mirror.unsettled):
            if k in trig:
                mirror.unsettled.discard(k)
        for k, d in mirror.defs.items():
            if d[0] == "knob" and k in trig:
                s = im.raw_get(d[2])
                delta = s - mirror.knob_prev[k]
                for w, t in zip(d[3], d[4]):
                    if pkey(t) in mirror.plain:
                        mirror.plain[pkey(t)] = mirror.plain[pkey(t)] + w * delta
                mirror.knob_prev[k] = s
        stats["c01_checked_ops"] += 1
        for k, d in mirror.defs.items():
            if k in mirror.unsettled:
                continue
            checks = []
            if d[0] == "expr":
                checks = [(d[1], d[2])]
            elif d[0] == "func":
                checks = [(q, t) for q, t in d[2]]
            for q, t in checks:
                try:
                    want = im.pull(t)
                    got = im.raw_get(q)
                except Exception:
                    continue
                stats["c01_locations_checked"] += 1
                if not same(got, want):
                    known = "D1" if (cyc2 and k in trig) else None
                    self.fail("C01", "stale", {"assigned": p, "location": q, "got": repr(got), "want": repr(want),
                                               "declared_cycle_in_triggered_set": bool(cyc2)}, known)
                    if known is None and getattr(self, "ever_frozen", False):
                        # "assigning plain values ... still updates all their dependants" while frozen, and "after
                        # unfreeze_tree() the manager behaves as if it had never been frozen"
                        self.fail("C17", "stale-while-frozen" if self.frozen else "stale-after-unfreeze",
                                  {"assigned": p, "location": q, "got": repr(got), "want": repr(want)})
                    self.c01_live = False
                    return
        for k, v in mirror.plain.items():
            q = json.loads(k)
            try:
                got = im.raw_get(q)
            except Exception:
                continue
            if not same(got, v):
                self.fail("C01", "plain-location-changed", {"assigned": p, "location": q, "got": repr(got), "want": repr(v)})
                if getattr(self, "ever_frozen", False):
                    self.fail("C17", "plain-location-changed-after-freeze", {"assigned": p, "location": q, "got": repr(got), "want": repr(v)})
                self.c01_live = False
                return

    def _c03_supports(self, last, key="sup"):
        T, D = declared(self.im)
        sup = ml.canon_sup(last["impl"][key])
        want = {"rdeps": {}, "rtasks": {}, "deptasks": {}, "tartasks": {}}
        for t in T:
            for d in D[t]:
                want["deptasks"].setdefault(d, set()).add(t)
                for r in T[t]:
                    want["rdeps"].setdefault(d, set()).add(r)
            for r in T[t]:
                want["tartasks"].setdefault(r, set()).add(t)
            for u in T:
                if T[u] & D[t]:
                    want["rtasks"].setdefault(u, set()).add(t)
        for name in want:
            w = sorted([k, sorted(v)] for k, v in want[name].items())
            if w != sup[name]:
                extra = [r for r in sup[name] if r not in w]
                missing = [r for r in w if r not in sup[name]]
                self.fail("C03", "support-" + name, {"after": last["op"], "extra": extra[:3], "missing": missing[:3]})
                break
        self.stats["c03_support_checks"] += 1


def gen_history(rng, family, sess, maxops):
    """draw the next operations from the generator, feeding them to the session"""
    g = Gen(rng, family)
    mirror = sess.mirror
    im = sess.im
    sess.step({"op": "reset"})
    store = initial_store(rng, g.nested)
    for lab in ("d", "m"):
        sess.step({"op": "container", "label": lab, "value": store[lab]})
    P = g.P

    def pick(for_def):
        blocked = sess.blocked(for_def)
        cand = [q for q in P if not any(comparable(q, b) for b in blocked)]
        return rng.choice(cand or P)

    mix = MIX[family]
    kinds, weights = zip(*mix.items())
    forced = []
    nops = rng.randint(4, maxops)
    for oi in range(nops):
        if forced:
            op = forced.pop(0)
            sess.step(op)
            continue
        kind = rng.choices(kinds, weights)[0]
        if kind == "fault":
            k = rng.randint(0, 4)
            fo = {"op": "fault", "k": k}
            if rng.random() < 0.5:
                fo["exc"] = rng.choice(["StopIteration", "KeyError", "RuntimeError", "LookupError", "ArithmeticError", "AttributeError"])
            sess.step(fo)
            kind = rng.choice(["set", "set", "setexpr", "iop"])
            op = draw(rng, g, sess, kind, pick)
            if op is None:
                op = {"op": "set", "path": pick(False), "value": rng.randint(-6, 9)}
            before_def = mirror.defs.get(pkey(op["path"]))
            sess.step(op)
            last = sess.lines[-1]
            if last["impl"]["exc"] == "Fault":
                # repeat the assignment once the fault is gone
                rep = dict(op)
                if op["op"] == "iop":
                    d = mirror.defs.get(pkey(op["path"]))
                    if d is not None and d[0] == "expr":
                        rep = {"op": "setexpr", "path": op["path"], "expr": d[2]}
                    else:
                        v = mirror.plain.get(pkey(op["path"]))
                        rep = {"op": "set", "path": op["path"], "value": v} if isinstance(v, int) else None
                if rep is not None:
                    rep["_repeat"] = True
                    forced.insert(0, rep)
            continue
        op = draw(rng, g, sess, kind, pick)
        if op is None:
            continue
        sess.step(op)
        if op["op"] == "regfunc" and not sess.frozen:
            blk = sess.blocked(False)
            srcs = [r for _, t in op["body"] for r in ml.term_refs(t)
                    if pkey(r) not in mirror.defs and not any(comparable(r, b) for b in blk)]
            if srcs:
                s0 = rng.choice(srcs)
                v0 = im.raw_get(s0)
                if isinstance(v0, int) or is_nan(v0):
                    forced.append({"op": "set", "path": s0, "value": ml.val_json(v0)})


def draw(rng, g, sess, kind, pick):
    mirror = sess.mirror
    P = g.P
    if kind == "set":
        return {"op": "set", "path": pick(False), "value": rng.randint(-6, 9)}
    if kind == "setexpr":
        p = pick(True)
        return {"op": "setexpr", "path": p, "expr": g.term(p)}
    if kind == "iop":
        p = pick(True)
        opn = rng.choice(["Add", "Sub", "Mul", "Floordiv", "Mod"])
        operand = ["lit", rng.randint(-2, 4)] if rng.random() < 0.75 else ["ref", g.pick_src(p)]
        return {"op": "iop", "iop": opn, "path": p, "operand": operand}
    if kind == "unregister":
        ids = list(mirror.defs.values())
        if not ids or rng.random() < 0.08:
            return {"op": "unregister", "id": rng.choice(P)}
        return {"op": "unregister", "id": rng.choice(ids)[1]}
    if kind in ("regfunc", "regknob"):
        free = [q for q in P if pkey(q) not in mirror.defs and not any(
            comparable(q, t) for _, ts, _ in mirror.writers() for t in ts)]
        g.nfunc += 1
        if kind == "regfunc":
            if len(free) < 2:
                return None
            tid = "#F%d" % g.nfunc
            tars = rng.sample(free, 1 if rng.random() < 0.6 else 2)
            body = [[q, g.term(q)] for q in tars]
            deps, seen = [], set()
            for _, t in body:
                for r in ml.term_refs(t):
                    for c in chain(r):
                        if pkey(c) not in seen:
                            seen.add(pkey(c))
                            deps.append(c)
            alltars, seen = [], set()
            for q in tars:
                for c in chain(q):
                    if pkey(c) not in seen:
                        seen.add(pkey(c))
                        alltars.append(c)
            return {"op": "regfunc", "id": tid, "body": body, "deps": deps, "tars": alltars}
        if len(free) < 3:
            return None
        tid = "#K%d" % g.nfunc
        src = rng.choice(free)
        tars = rng.sample([q for q in free if q != src], rng.randint(1, 2))
        ws = [rng.randint(-2, 3) for _ in tars]
        return {"op": "regknob", "id": tid, "src": src, "ws": ws, "tars": tars, "alltars": tars}
    if kind == "maint":
        return {"op": rng.choice(["refresh", "cleanup", "verify", "clone"])}
    if kind == "load":
        pairs = []
        for _ in range(rng.randint(1, 3)):
            q = pick(True)
            pairs.append([q, g.term(q)])
        exprdefs = [d for d in mirror.defs.values() if d[0] == "expr"]
        if exprdefs and rng.random() < 0.35:
            # a pair that re-defines an existing target by an expression over exactly the same locations (the reloaded
            # dump, or the same reads combined differently): same edges in the graph, another definition
            d = rng.choice(exprdefs)
            same_reads = rng.choice([d[2], ["bin", "Add", d[2], ["lit", rng.randint(1, 3)]], ["un", "Neg", d[2]]])
            pairs[rng.randrange(len(pairs))] = [d[1], same_reads]
            return {"op": "load", "overwrite": rng.random() < 0.9, "pairs": pairs}
        return {"op": "load", "overwrite": rng.random() < 0.7, "pairs": pairs}
    if kind == "query":
        return {"op": "query", "path": rng.choice(P + [["d", ["i", "n"]]] if g.nested else P)}
    if kind == "freeze":
        if rng.random() < 0.25:
            # not only balanced pairs: freezing a frozen manager, unfreezing one that is not frozen — the manager is frozen
            # exactly between a freeze_tree() and the next unfreeze_tree(), however often either is called
            return {"op": "freeze" if sess.frozen else "unfreeze"}
        return {"op": "unfreeze" if sess.frozen else "freeze"}
    if kind == "genfun":
        blk = sess.blocked(False)
        free = [q for q in P if pkey(q) not in mirror.defs and not any(comparable(q, b) for b in blk)]
        if not free:
            return None
        args = rng.sample(free, min(len(free), rng.randint(1, 3)))
        # often the same setter as last time (same name, same references): whatever gen_fun keeps between two calls must
        # follow the definitions removed or replaced in between
        last = getattr(sess, "last_genfun", None)
        if last and rng.random() < 0.6 and all(q in free for q in last):
            args = last
        sess.last_genfun = args
        return {"op": "genfun", "args": [[q, rng.randint(-6, 9)] for q in args]}
    raise ValueError(kind)


def scenario_c13_container(hist_id, stats, failures):
    """D25's shape: a definition that reads an enclosing container (oracle only: the model has no calls)"""
    import xdeps

    def total(dct):
        return sum(dct.values())
    out = []
    for use_fun in (True, False):
        m = xdeps.Manager()
        raw = {"n": {"x": 1, "y": 2}, "tot": 0}
        d = m.ref(raw, "d")
        F = m.ref({"total": total}, "F")
        d["tot"] = F["total"](d["n"])
        if use_fun:
            f = m.gen_fun("f", x=d["n"]["x"])
            f(5)
        else:
            d["n"]["x"] = 5
        out.append(raw["tot"])
    if out[0] != out[1]:
        failures.append({"property": "C13", "kind": "function-differs-from-assignments", "hist": hist_id, "op_index": 0,
                         "detail": {"scenario": "definition reads the enclosing container", "via_function": out[0], "via_assignment": out[1]},
                         "known": None})


def collision_corpus():
    """task ids whose hashes collide (hash(-1) == hash(-2), hash(1) == hash(True)): two different tasks triggered by one
    assignment must both run, whatever a traversal uses to remember what it has visited"""
    M = lambda k: ["d", ["i", "m"], ["i", k]]
    X, T = ["d", ["i", "x"]], ["d", ["i", "t"]]
    yield [{"op": "reset"},
           {"op": "container", "label": "d", "value": {"d": [["x", 1], ["m", {"d": [[-1, 0], [-2, 0], [1, 0], [2, 0]]}], ["t", 0]]}},
           {"op": "setexpr", "path": M(-1), "expr": ["bin", "Mul", ["ref", X], ["lit", 2]]},
           {"op": "setexpr", "path": M(-2), "expr": ["bin", "Add", ["ref", X], ["lit", 1]]},
           {"op": "setexpr", "path": M(1), "expr": ["bin", "Sub", ["ref", X], ["lit", 1]]},
           {"op": "setexpr", "path": T, "expr": ["bin", "Add", ["ref", M(-1)], ["ref", M(-2)]]},
           {"op": "set", "path": X, "value": 5}, {"op": "set", "path": X, "value": 7},
           {"op": "set", "path": M(-2), "value": 0}, {"op": "set", "path": X, "value": 9}]
    # the same with the definitions made in the other order
    yield [{"op": "reset"},
           {"op": "container", "label": "d", "value": {"d": [["x", 1], ["m", {"d": [[-1, 0], [-2, 0]]}], ["t", 0]]}},
           {"op": "setexpr", "path": T, "expr": ["bin", "Add", ["ref", M(-1)], ["ref", M(-2)]]},
           {"op": "setexpr", "path": M(-2), "expr": ["bin", "Add", ["ref", X], ["lit", 1]]},
           {"op": "setexpr", "path": M(-1), "expr": ["bin", "Mul", ["ref", X], ["lit", 2]]},
           {"op": "set", "path": X, "value": 5}, {"op": "set", "path": X, "value": 7}]


def collision_corpus_frozen():
    """two different plain locations whose references collide in hash (m[-1] / m[-2], m[1] / m[True] is the same key) each
    with its own dependant, assigned within one frozen period and after it: each assignment updates ITS dependants,
    whatever a frozen manager remembers per location"""
    # members of the TOP-LEVEL container: a task reading d[-1] depends on d[-1] alone (a member of a nested container also
    # depends on the enclosing member, and then every reader runs whichever member is assigned)
    M = lambda k: ["d", ["i", k]]
    Y1, Y2, Y3 = (["d", ["i", k]] for k in ("y1", "y2", "y3"))
    base = [{"op": "reset"},
            {"op": "container", "label": "d", "value": {"d": [[-1, 0], [-2, 0], [2, 0], ["y1", 0], ["y2", 0], ["y3", 0]]}},
            {"op": "setexpr", "path": Y1, "expr": ["bin", "Mul", ["ref", M(-1)], ["lit", 2]]},
            {"op": "setexpr", "path": Y2, "expr": ["bin", "Add", ["ref", M(-2)], ["lit", 1]]},
            {"op": "setexpr", "path": Y3, "expr": ["bin", "Sub", ["ref", M(2)], ["lit", 1]]}]
    yield base + [{"op": "freeze"}, {"op": "set", "path": M(-1), "value": 5}, {"op": "set", "path": M(-2), "value": 7},
                  {"op": "set", "path": M(2), "value": 3}, {"op": "set", "path": M(-1), "value": 6},
                  {"op": "unfreeze"}, {"op": "set", "path": M(-2), "value": 8}, {"op": "set", "path": M(-1), "value": 9},
                  {"op": "freeze"}, {"op": "set", "path": M(-2), "value": 10}, {"op": "set", "path": M(-1), "value": 11}]
    yield base + [{"op": "set", "path": M(-1), "value": 4}, {"op": "freeze"}, {"op": "set", "path": M(-2), "value": 7},
                  {"op": "set", "path": M(-1), "value": 5}, {"op": "set", "path": M(-2), "value": 9}]


def d34_corpus():
    """known finding D34, fixed form: a fault between the two target writes of a linear knob, then the fault-free repeat"""
    X, A, B = (["d", ["i", k]] for k in "xab")
    yield [{"op": "reset"}, {"op": "container", "label": "d", "value": {"d": [["x", 1], ["a", 10], ["b", 20]]}},
           {"op": "regknob", "id": "#K9", "src": X, "ws": [2, -1], "tars": [A, B], "alltars": [A, B]},
           {"op": "set", "path": X, "value": 2},
           {"op": "fault", "k": 2}, {"op": "set", "path": X, "value": 5},
           {"op": "set", "path": X, "value": 5, "_repeat": True}]
    # the fault at the FIRST target write leaves nothing half applied: the repeat recovers
    yield [{"op": "reset"}, {"op": "container", "label": "d", "value": {"d": [["x", 1], ["a", 10], ["b", 20]]}},
           {"op": "regknob", "id": "#K9", "src": X, "ws": [2, -1], "tars": [A, B], "alltars": [A, B]},
           {"op": "fault", "k": 1}, {"op": "set", "path": X, "value": 5},
           {"op": "set", "path": X, "value": 5, "_repeat": True}]


def c13_corpus():
    """the same setter (same name, same references) generated again after the definitions changed"""
    X, Y, W_, Z = (["d", ["i", k]] for k in "xywz")
    base = [{"op": "reset"}, {"op": "container", "label": "d", "value": {"d": [["x", 1], ["y", 0], ["w", 0], ["z", 0]]}},
            {"op": "setexpr", "path": Y, "expr": ["bin", "Mul", ["ref", X], ["lit", 2]]},
            {"op": "setexpr", "path": W_, "expr": ["bin", "Add", ["ref", Y], ["lit", 1]]}]
    g = lambda v: {"op": "genfun", "args": [[X, v]]}
    # a definition removed (plain value / unregister) between two generations
    yield base + [g(3), {"op": "set", "path": Y, "value": 10}, g(4)]
    yield base + [g(3), {"op": "unregister", "id": W_}, g(4)]
    # a definition replaced / added between two generations
    yield base + [g(3), {"op": "setexpr", "path": Y, "expr": ["bin", "Sub", ["ref", X], ["lit", 1]]}, g(4)]
    yield base + [g(3), {"op": "setexpr", "path": Z, "expr": ["bin", "Add", ["ref", X], ["lit", 10]]}, g(4),
                  {"op": "set", "path": Z, "value": 0}, g(5)]


def scenario_lookalike_replacement(hist_id, stats, failures):
    """a definition replaced by another one that PRINTS the same (constants are printed with str(): 2, '2', np.int8(2)) but
    means something else: afterwards the manager has to behave like a fresh one holding only the new definition"""
    import numpy as np
    import xdeps
    for old_c, new_c, nval in [(2, "2", 4), ("2", 2, 4), (2, np.int8(2), 5), (np.float32(0.5), 0.5, 3), (3, 3.0, 2) if False else (1, True, 7)]:
        outs = []
        for with_history in (True, False):
            m = xdeps.Manager()
            raw = {"n": 3, "r": None, "q": None}
            v = m.ref(raw, "v")
            try:
                if with_history:
                    v["r"] = v["n"] * old_c
                v["r"] = v["n"] * new_c
                v["q"] = v["r"] * 1
                v["n"] = nval
                outs.append((repr(raw["r"]), type(raw["r"]).__name__, repr(raw["q"])))
            except Exception as e:
                outs.append(("raised", type(e).__name__, ""))
        stats["lookalike_replacements"] = stats.get("lookalike_replacements", 0) + 1
        if outs[0] != outs[1]:
            for prop in ("C03", "C01"):
                failures.append({"property": prop, "kind": "replaced-definition-still-in-force", "hist": hist_id, "op_index": 0,
                                 "detail": {"old_constant": repr(old_c), "new_constant": repr(new_c), "with_history": outs[0],
                                            "fresh": outs[1]}, "known": None})
            return


def scenario_two_managers(hist_id, stats, failures):
    """two managers alive in one process, containers with the same labels and keys, different definitions; both frozen;
    the same location assigned on both: each has to update ITS OWN dependants (nothing may be shared between managers
    through module- or class-level state)"""
    import xdeps
    for frozen in (True, False):
        ms = []
        for mul in (2, 5):
            m = xdeps.Manager()
            raw = {"x": 1.0, "y": 0.0, "z": 0.0}
            a = m.ref(raw, "a")
            a["y"] = a["x"] * mul
            a["z"] = a["y"] + 1
            if frozen:
                m.freeze_tree()
            ms.append((m, a, raw, mul))
        for rnd, v in enumerate((3.0, 10.0, 3.0)):
            for m, a, raw, mul in ms:
                a["x"] = v
                if raw["y"] != v * mul or raw["z"] != v * mul + 1:
                    for prop in ("C17", "C01", "C12") if frozen else ("C01", "C12"):
                        failures.append({"property": prop, "kind": "managers-share-state", "hist": hist_id, "op_index": 0,
                                         "detail": {"frozen": frozen, "round": rnd, "factor": mul, "x": v, "got": dict(raw)},
                                         "known": None})
                    return
    stats["two_manager_scenarios"] = stats.get("two_manager_scenarios", 0) + 1


def c17_corpus():
    """several frozen periods around changes of the graph: whatever a frozen period remembered must not outlive it"""
    X, Y, W_, Z = (["d", ["i", k]] for k in "xywz")
    base = [{"op": "reset"}, {"op": "container", "label": "d", "value": {"d": [["x", 1], ["y", 0], ["w", 0], ["z", 0]]}},
            {"op": "setexpr", "path": Y, "expr": ["bin", "Mul", ["ref", X], ["lit", 2]]},
            {"op": "setexpr", "path": W_, "expr": ["bin", "Add", ["ref", Y], ["lit", 1]]}]
    # unbalanced calls: unfreeze on a manager that was never frozen, freeze twice and unfreeze once
    yield base + [{"op": "unfreeze"}, {"op": "setexpr", "path": Z, "expr": ["bin", "Add", ["ref", X], ["lit", 10]]},
                  {"op": "freeze"}, {"op": "setexpr", "path": Z, "expr": ["bin", "Sub", ["ref", X], ["lit", 1]]},
                  {"op": "set", "path": X, "value": 4}, {"op": "freeze"}, {"op": "unfreeze"},
                  {"op": "setexpr", "path": Z, "expr": ["bin", "Mul", ["ref", X], ["lit", 3]]}, {"op": "set", "path": X, "value": 6}]
    # a definition removed between two frozen periods
    yield base + [{"op": "freeze"}, {"op": "set", "path": X, "value": 3}, {"op": "unfreeze"},
                  {"op": "set", "path": Y, "value": 11}, {"op": "freeze"}, {"op": "set", "path": X, "value": 5},
                  {"op": "unfreeze"}, {"op": "set", "path": X, "value": 7}]
    # a definition added after a frozen period
    yield base + [{"op": "freeze"}, {"op": "set", "path": X, "value": 3}, {"op": "unfreeze"},
                  {"op": "setexpr", "path": Z, "expr": ["bin", "Add", ["ref", X], ["lit", 10]]},
                  {"op": "set", "path": X, "value": 5}, {"op": "freeze"}, {"op": "set", "path": X, "value": 6}]
    # a definition replaced between two frozen periods
    yield base + [{"op": "freeze"}, {"op": "set", "path": X, "value": 3}, {"op": "unfreeze"},
                  {"op": "setexpr", "path": Y, "expr": ["bin", "Sub", ["ref", X], ["lit", 1]]},
                  {"op": "freeze"}, {"op": "set", "path": X, "value": 5}, {"op": "unfreeze"}]


def run_history(rng, family, hist_id, out_lines, stats, failures, maxops):
    sess = Session(hist_id, stats, failures, family)
    gen_history(rng, family, sess, maxops)
    if family == "c13":
        op = draw(rng, Gen.__new__(Gen), sess, "genfun", None) if False else None
        blk = sess.blocked(False)
        free = [q for q in sess.P if pkey(q) not in sess.mirror.defs and not any(comparable(q, b) for b in blk)]
        if free and not sess.frozen:
            args = rng.sample(free, min(len(free), rng.randint(1, 3)))
            last = getattr(sess, "last_genfun", None)
            if last and rng.random() < 0.6 and all(q in free for q in last):
                args = last
            sess.step({"op": "genfun", "args": [[q, rng.randint(-6, 9)] for q in args]})
    if family in ("c03", "c11") and not sess.frozen:
        try:
            twin_check(rng, sess.im, sess.mirror, sess.P, sess.fail, stats, hist_id,
                       via_dump=family == "c11", prop="C11" if family == "c11" else "C03")
        except Exception as e:   # harness problem, not a verdict
            stats["twin_errors"] = stats.get("twin_errors", 0) + 1
            stats["twin_error_sample"] = repr(e)[:200]
    out_lines.extend(sess.lines)
    return sess


def replay_ops(ops, hist_id, stats, failures, family="c01"):
    sess = Session(hist_id, stats, failures, family)
    for op in ops:
        sess.step(op)
    if family in ("c03", "c11") and not sess.frozen:
        # the end-of-history twin oracle, with several follow-up assignments (the original draw is not recorded)
        import random as _random
        for k in range(6):
            try:
                twin_check(_random.Random(k), sess.im, sess.mirror, sess.P, sess.fail, stats, hist_id,
                           via_dump=family == "c11", prop="C11" if family == "c11" else "C03")
            except Exception as e:
                stats["twin_errors"] = stats.get("twin_errors", 0) + 1
                stats["twin_error_sample"] = repr(e)[:200]
    return sess


def twin_check(rng, im, mirror, P, fail, stats, hist_id, via_dump=False, prop="C03"):
    """a fresh manager over equal containers, only the surviving definitions registered (in another
    order), must react to the next assignment exactly like the original (when the order is immaterial)"""
    import xdeps.tasks as xt
    survivors = [(tid, t) for tid, t in im.m.tasks.items() if isinstance(t, xt.ExprTask)]
    if len(survivors) != len(im.m.tasks):
        return
    tw = ml.ImplMgr()
    for lab, c in im.roots.items():
        tw.apply({"op": "container", "label": lab, "value": ml.val_json(c)})
    if via_dump:
        # C11: the fresh manager gets its definitions from the text of the original's dump
        text = im.m.dump()
        if "nan" in json.dumps(text) or "inf" in json.dumps(text):
            return      # a constant outside C11's language (left by a guarded division by zero)
        try:
            tw.m.load(text)
        except Exception as e:
            fail("C11", "load-of-dump-raises", {"exc": type(e).__name__, "dump": text[:6]})
            return
        if sorted(tw.m.dump()) != sorted(text):
            fail("C11", "loaded-definitions-differ", {"dump": sorted(text)[:6], "loaded": sorted(tw.m.dump())[:6]})
            return
        stats["dump_twins"] = stats.get("dump_twins", 0) + 1
    else:
        order = list(survivors)
        rng.shuffle(order)
        for tid, t in order:
            p = ml.path_of_ref(tid)
            tw.m.register(xt.ExprTask(tw.ref(p), tw.build(ml.expr_json(t.expr))))
    import io, contextlib
    # same query answers
    for q in rng.sample(P, min(4, len(P))):
        a = im.apply({"op": "query", "path": q})["impl"]
        b = tw.apply({"op": "query", "path": q})["impl"]
        for k in ("find_deps", "tasks"):
            if a["exc"] == "ok" and b["exc"] == "ok" and sorted(map(pkey, a[k])) != sorted(map(pkey, b[k])):
                fail(prop, "query-differs-from-fresh:" + k, {"path": q, "history": sorted(map(pkey, a[k])), "fresh": sorted(map(pkey, b[k]))})
        if a["exc"] != b["exc"]:
            fail(prop, "query-exception", {"path": q, "history": a["exc"], "fresh": b["exc"]})
    p = rng.choice(P)
    v = rng.randint(-6, 9)
    a = im.apply({"op": "set", "path": p, "value": v})["impl"]
    b = tw.apply({"op": "set", "path": p, "value": v})["impl"]
    stats["twin_checks"] += 1
    T, D = declared(tw)
    cyc2 = has_two_cycle(T, D, triggered_set(T, D, p))
    if a["exc"] != b["exc"]:
        fail(prop, "followup-exception-differs", {"path": p, "history": a["exc"], "fresh": b["exc"]})
    elif not cyc2 and ml.canon_val(a["store"]) != ml.canon_val(b["store"]):
        fail(prop, "followup-contents-differ", {"path": p, "value": v})
    if ml.canon_sup(a["sup"]) != ml.canon_sup(b["sup"]):
        fail(prop, "supports-differ-from-fresh", {"path": p})


# ----------------------------------------------------------------------------
# targeted scenarios (corpus): shapes the random generator reaches rarely or never
# ----------------------------------------------------------------------------
def scenario_chain(n, hist_id, out_lines, stats, failures, reverse=False):
    """a chain of n dependants d[k1]=d[k0]+1, ...; definitions optionally consumer-before-producer.
    Only the final assignment is observed (observing every step would cost O(n^2))."""
    im = ml.ImplMgr()
    lines = []

    def emit(op, observe=True):
        line = im.apply(op)
        line["hist"] = hist_id
        if not observe:
            line = {"op": op["op"], "hist": hist_id, "light": True, "impl": {"exc": line["impl"]["exc"]},
                    **{k: v for k, v in op.items() if k != "op"}}
        lines.append(line)
        return line

    emit({"op": "reset"})
    emit({"op": "container", "label": "d", "value": {"d": [["k%d" % i, 0] for i in range(n + 1)]}}, observe=False)
    idx = list(range(1, n + 1))
    if reverse:
        idx = idx[::-1]
    pairs = [[["d", ["i", "k%d" % i]], ["bin", "Add", ["ref", ["d", ["i", "k%d" % (i - 1)]]], ["lit", 1]]] for i in idx]
    # definitions are registered in bulk (load = register without evaluation), then settled by the assignment
    r = im.rootrefs["d"]
    exc = "ok"
    try:
        for i in idx:
            im.m.register(xt_ExprTask(r["k%d" % i], r["k%d" % (i - 1)] + 1))
    except Exception as e:
        exc = type(e).__name__
    lines.append({"op": "load", "overwrite": True, "pairs": pairs, "hist": hist_id, "light": True, "impl": {"exc": exc}})
    line = emit({"op": "set", "path": ["d", ["i", "k0"]], "value": 5})
    stats["chain_len_max"] = max(stats.get("chain_len_max", 0), n)
    if line["impl"]["exc"] != "ok":
        for prop in ("C01", "C02"):
            failures.append({"property": prop, "kind": line["impl"]["exc"], "hist": hist_id, "op_index": len(lines) - 1,
                             "detail": {"chain": n, "reverse": reverse}, "known": None})
    else:
        got = im.raw_get(["d", ["i", "k%d" % n]])
        if got != 5 + n:
            failures.append({"property": "C01", "kind": "stale", "hist": hist_id, "op_index": len(lines) - 1,
                             "detail": {"chain": n, "got": got, "want": 5 + n}, "known": None})
        tr = [pkey(e[1]) for e in line["impl"]["trace"][1:]]
        want = [pkey(["d", ["i", "k%d" % i]]) for i in range(1, n + 1)]
        if tr != want:
            failures.append({"property": "C02", "kind": "order", "hist": hist_id, "op_index": len(lines) - 1,
                             "detail": {"chain": n, "first_executed": tr[:3]}, "known": None})
    out_lines.extend(lines)


def scenario_d1(hist_id, out_lines, stats, failures):
    """the probed sibling witness: n.x=a*2; n.z=n.y*3; n.y=n.x+1; a=5"""
    im = ml.ImplMgr()
    lines = []

    def emit(op):
        line = im.apply(op)
        line["hist"] = hist_id
        lines.append(line)
        return line

    emit({"op": "reset"})
    emit({"op": "container", "label": "d", "value": {"d": [["a", 1], ["n", {"d": [["x", 0], ["y", 0], ["z", 0]]}]]}})
    n = lambda k: ["d", ["i", "n"], ["i", k]]
    emit({"op": "setexpr", "path": n("x"), "expr": ["bin", "Mul", ["ref", ["d", ["i", "a"]]], ["lit", 2]]})
    emit({"op": "setexpr", "path": n("z"), "expr": ["bin", "Mul", ["ref", n("y")], ["lit", 3]]})
    emit({"op": "setexpr", "path": n("y"), "expr": ["bin", "Add", ["ref", n("x")], ["lit", 1]]})
    emit({"op": "set", "path": ["d", ["i", "a"]], "value": 5})
    got = im.raw_get(n("z"))
    if got != 33:
        failures.append({"property": "C01", "kind": "stale", "hist": hist_id, "op_index": len(lines) - 1,
                         "detail": {"scenario": "sibling-cycle", "location": n("z"), "got": got, "want": 33,
                                    "declared_cycle_in_triggered_set": True}, "known": "D1"})
    out_lines.extend(lines)


def scenario_d8(hist_id, stats, failures):
    """root-level computed key: o = d[d['i']]; d[2] = 11 (oracle only: the model has static paths)"""
    import xdeps
    m = xdeps.Manager()
    raw = {"i": 2, 2: 7, 3: 8, "o": 0}
    d = m.ref(raw, "d")
    d["o"] = d[d["i"]]
    d[2] = 11
    if raw["o"] != 11:
        failures.append({"property": "C01", "kind": "stale", "hist": hist_id, "op_index": 0,
                         "detail": {"scenario": "root-computed-key", "got": raw["o"], "want": 11}, "known": "D8"})
    # the same through a nested owner is covered by the owner chain and must work
    m = xdeps.Manager()
    raw = {"c": {"i": 2, 2: 7, 3: 8}, "o": 0}
    d = m.ref(raw, "d")
    d["o"] = d["c"][d["c"]["i"]]
    d["c"][2] = 11
    if raw["o"] != 11:
        failures.append({"property": "C01", "kind": "stale", "hist": hist_id, "op_index": 0,
                         "detail": {"scenario": "nested-computed-key", "got": raw["o"], "want": 11}, "known": None})
    d["c"]["i"] = 3
    if raw["o"] != 8:
        failures.append({"property": "C01", "kind": "stale", "hist": hist_id, "op_index": 1,
                         "detail": {"scenario": "nested-computed-key-index", "got": raw["o"], "want": 8}, "known": None})


def new_stats():
    return dict(ops=0, dataops=0, declared_cyclic=0, c02_nontrivial=0, faulted_ops=0, faults_fired=0,
                faults_not_reached=0, c01_out_of_scope=0, c01_checked_ops=0, c01_locations_checked=0,
                c03_support_checks=0, frozen_ops=0, twin_checks=0, histories=0)


def strip_op(line):
    return {k: v for k, v in line.items() if k not in ("impl", "order", "hist")}


def main():
    ap = argparse.ArgumentParser()
    ap.add_argument("--family", default="c01")
    ap.add_argument("--seed", type=int, default=0)
    ap.add_argument("--n", type=int, default=100)
    ap.add_argument("--maxops", type=int, default=22)
    ap.add_argument("--out", required=True)
    ap.add_argument("--corpus", action="store_true")
    ap.add_argument("--chains", default="")
    ap.add_argument("--replay", default=None, help="JSON file with a list of operation lists")
    a = ap.parse_args()
    rng = random.Random(a.seed * 1000003 + sum(map(ord, a.family)))
    t0 = time.time()
    stats = new_stats()
    failures = []
    lines = []
    hid = 0
    if a.replay:
        for ops in json.load(open(a.replay)):
            sess = replay_ops(ops, hid, stats, failures, a.family)
            lines.extend(sess.lines)
            hid += 1
            stats["histories"] += 1
    if a.corpus and a.family == "c13":
        scenario_c13_container(hid, stats, failures); hid += 1
        for ops in c13_corpus():
            sess = replay_ops(ops, hid, stats, failures, a.family)
            lines.extend(sess.lines)
            hid += 1
            stats["histories"] += 1
    elif a.corpus and a.family == "c17":
        scenario_two_managers(hid, stats, failures); hid += 1
        for ops in list(c17_corpus()) + list(collision_corpus_frozen()):
            sess = replay_ops(ops, hid, stats, failures, a.family)
            lines.extend(sess.lines)
            hid += 1
            stats["histories"] += 1
    elif a.corpus:
        for ops in list(collision_corpus()) + (list(d34_corpus()) if a.family == "c18" else []):
            sess = replay_ops(ops, hid, stats, failures, a.family)
            lines.extend(sess.lines)
            hid += 1
            stats["histories"] += 1
        scenario_two_managers(hid, stats, failures); hid += 1
        scenario_lookalike_replacement(hid, stats, failures); hid += 1
        scenario_d1(hid, lines, stats, failures); hid += 1
        scenario_d8(hid, stats, failures); hid += 1
        for n in [int(x) for x in a.chains.split(",") if x]:
            scenario_chain(abs(n), hid, lines, stats, failures, reverse=n < 0); hid += 1
    for i in range(a.n):
        run_history(rng, a.family, 1000 + i, lines, stats, failures, a.maxops)
        stats["histories"] += 1
    with open(a.out + ".ops.jsonl", "w") as f:
        for ln in lines:
            f.write(json.dumps(ln) + "\n")
    stats["wall_s"] = time.time() - t0
    with open(a.out + ".res.json", "w") as f:
        json.dump({"stats": stats, "failures": failures, "build": "compiled" if ml.xr.is_cythonized() else "pure"}, f)


if __name__ == "__main__":
    main()
