"""Checks of the expression-level properties: C04 C05 C12 (Tie A obligations + direct oracles),
C06 C11 (printer model + oracles)."""
import json
import os
import shutil

import common as C
import suite as S

SIZES = {"quick": {"C04": 4000, "C05": 3000, "C12": 1600, "C06": 2500, "C11": 4000},
         "thorough": {"C04": 80000, "C05": 40000, "C12": 12000, "C06": 40000, "C11": 60000}}
FAMILY = {"C04": "c04", "C05": "c05", "C12": "c12", "C06": "c06", "C11": "c11"}
TIE_A = {"C04": "valid_ops", "C05": "valid_deps", "C12": "valid_reduce"}
TIE_A_TEXT = {
    "C04": "Generated.tbl.ValidOps = true (every binary/reflected/unary/builtin/in-place dunder of the working tree builds the node that means what Python's data model says; guards on exactly truediv/floordiv/mod)",
    "C05": "Generated.tbl.ValidDeps = true (every slot of every node class is visited by _get_dependencies, which returns a set)",
    "C12": "Generated.tbl.ValidReduce = true (every node class reduces to its own constructor's arguments in constructor order and rebuilds an equal node)",
}


class ExprSuite(S.Suite):
    name = None
    worker = "w_expr.py"
    skip_keys = ("impl", "hist", "op")


def tie_a(prop, build_dir, tag):
    """regenerate the tables from the working tree and check this property's obligation"""
    sc = C.scratch()
    base = os.path.join(sc, "Gen_%s" % tag)
    C.run_jobs([([C.PY, os.path.join(C.HARNESS, "extract_refs.py"), base + ".lean", base + ".json"], C.py_env(build_dir, 0))])
    obs = json.load(open(base + ".json"))
    ok, out = C.lean_run(base + "_%s.lean" % prop)
    return ok, out, obs


class HeapSuite(S.Suite):
    name = "heap"
    worker = "w_heap.py"
    skip_keys = ("impl", "hist", "op")


def run(prop, tier, seed, replay=None):
    v = C.Verdict(prop, tier, seed)
    family = FAMILY[prop]
    pure = C.build_pure()
    suite = ExprSuite()
    if replay:
        payload = json.load(open(os.path.join(C.VERIF, replay) if not os.path.isabs(replay) else replay))
        if payload.get("suite") == "heap":
            return S.do_replay_cases(HeapSuite(), prop, "c12", pure, replay)
        if payload.get("suite") == "mgr":
            import suite_mgr
            return S.do_replay(suite_mgr.Mgr(), prop, payload.get("family", "c11"), pure, replay)
        return S.do_replay_cases(suite, prop, family, pure, replay)

    ok, log = C.lean_build()
    hits = C.grep_forbidden()
    thms, problems = ({}, []) if not ok else C.audit(prop)
    lean_problems = (["lake build failed: " + log[-1500:]] if not ok else []) + ["forbidden construct: " + h for h in hits] + problems

    builds = [("pure", pure)] + ([("compiled", C.build_compiled())] if tier == "thorough" else [])
    # ---- Tie A: regenerated tables, per-run obligation ----
    gen_ok = gen_total = 0
    tie_notes = []
    if prop in TIE_A and ok:
        for bname, bdir in builds:
            gen_total += 1
            g_ok, g_out, obs = tie_a(prop, bdir, bname)
            if g_ok:
                gen_ok += 1
            else:
                tie_notes.append({"build": bname, "obligation": TIE_A_TEXT[prop], "lean": g_out[-600:],
                                  "extractor_notes": obs.get("notes"),
                                  "rows": {k: obs[k] for k in ("builtin", "inplace", "propagate") if prop == "C04"} if prop == "C04" else
                                          ({"deps": [r for r in obs["deps"] if not (r[2] and r[3])]} if prop == "C05" else
                                           {"reduce": [r for r in obs["reduce"] if not all(r[1:])]})})

    # ---- oracles ----
    n = SIZES[tier][prop]
    jobs, prefixes = [], []
    sc = C.scratch()
    per_job = max(1, n // C.NPROC)
    for bi, (bname, bdir) in enumerate(builds):
        for j in range(C.NPROC if bi == 0 else 4):
            pref = os.path.join(sc, "%s_%s_%d" % (prop, bname, j))
            extra = ["--fixed"] if j == 0 else []
            jobs.append((S.worker_argv(suite, family, seed * 1000 + bi * 100 + j, per_job, pref, extra), C.py_env(bdir, (seed * 31 + j) % 1000)))
            prefixes.append((pref, bdir, bname))
    C.run_jobs(jobs)
    stats_total, failures = {}, []
    for pref, bdir, bname in prefixes:
        res = json.load(open(pref + ".res.json"))
        for k, val in res["stats"].items():
            if isinstance(val, (int, float)):
                stats_total[k] = stats_total.get(k, 0) + val
        for fl in res["failures"]:
            if fl["property"] == prop:
                failures.append((pref, bdir, fl))

    # ---- printer correspondence (C06, C11) ----
    diffs, nlines = [], 0
    if prop in ("C06", "C11") and ok:
        import suite_print
        diffs, nlines = suite_print.correspond(prop, prefixes)

    # ---- C11's manager half: histories with definitions loaded from dumps, replayed on XModel/Manager.lean (the model
    #      that C11_load_dump_reacts_identically is about), plus the dump -> fresh manager twin oracle ----
    mgr_diffs, mgr_lines, mgr_failures = [], 0, []
    if prop == "C11":
        import suite_mgr
        ms = suite_mgr.Mgr()
        nm = 480 if tier == "quick" else 12000
        mjobs, mprefs = [], []
        for j in range(C.NPROC):
            mpref = os.path.join(sc, "C11_mgr_%d" % j)
            mjobs.append((S.worker_argv(ms, "c11", seed * 1000 + 700 + j, max(1, nm // C.NPROC), mpref, ["--maxops", "16"]),
                          C.py_env(pure, (seed * 31 + j) % 1000)))
            mprefs.append(mpref)
        C.run_jobs(mjobs)
        for mpref in mprefs:
            res = json.load(open(mpref + ".res.json"))
            for k, val in res["stats"].items():
                if isinstance(val, (int, float)):
                    stats_total["mgr:" + k] = stats_total.get("mgr:" + k, 0) + val
            mgr_failures += [(mpref, fl) for fl in res["failures"] if fl["property"] == prop]
            if ok:
                C.run_driver("mgr", mpref + ".ops.jsonl", mpref + ".model.jsonl")
                d, nl = S.compare(ms, mpref, {"bad-op", "exc", "defs", "store", "sup"})
                mgr_lines += nl
                mgr_diffs += [(mpref, x) for x in d]

    # ---- C12's independence clause: object graphs with sharing and cycles held by a real manager, around a real
    #      pickle round trip, replayed on the heap model XModel/PickleHeap.lean (suite `heap`) ----
    heap_diffs, heap_lines, heap_failures = [], 0, []
    if prop == "C12":
        hs = HeapSuite()
        nh = 1600 if tier == "quick" else 48000
        hjobs, hprefs = [], []
        for j in range(C.NPROC):
            hpref = os.path.join(sc, "C12_heap_%d" % j)
            hjobs.append((S.worker_argv(hs, "c12", seed * 1000 + 800 + j, max(1, nh // C.NPROC), hpref, ["--fixed"] if j == 0 else []),
                          C.py_env(pure, (seed * 31 + j) % 1000)))
            hprefs.append(hpref)
        C.run_jobs(hjobs)
        for hpref in hprefs:
            res = json.load(open(hpref + ".res.json"))
            for k, val in res["stats"].items():
                if isinstance(val, (int, float)):
                    stats_total["heap:" + k] = stats_total.get("heap:" + k, 0) + val
            heap_failures += [(hpref, fl) for fl in res["failures"] if fl["property"] == prop]
            if ok:
                C.run_driver("heap", hpref + ".ops.jsonl", hpref + ".model.jsonl")
                for o, m in zip(S.load_lines(hpref + ".ops.jsonl"), S.load_lines(hpref + ".model.jsonl")):
                    if o.get("impl") is None:
                        continue
                    heap_lines += 1
                    d = None
                    if "bad-op" in m:
                        d = ("bad-op", None, m["bad-op"])
                    elif not (m.get("wf") and m.get("fresh")):
                        d = ("hypotheses", "a heap built from real objects is well formed and the copy is fresh", {"wf": m.get("wf"), "fresh": m.get("fresh")})
                    else:
                        for f in ("canon0", "canon_copy", "final_orig", "final_copy"):
                            if m[f] != o["impl"][f]:
                                d = (f, o["impl"][f], m[f])
                                break
                    if d:
                        heap_diffs.append((hpref, {"hist": o["hist"], "field": d[0], "impl": d[1], "model": d[2], "op": "case"}))

    seen = set()
    for pref, bdir, fl in failures:
        key = (fl["kind"], fl.get("known"))
        if key in seen:
            continue
        seen.add(key)
        case = S.history_ops(suite, pref, fl["hist"])
        v.failing_input(fl, {"suite": "expr", "family": family, "ops": case})
    for mpref, fl in mgr_failures[:3]:
        v.failing_input(fl, {"suite": "mgr", "family": "c11", "ops": S.history_ops(suite_mgr.Mgr(), mpref, fl["hist"])})
    for hpref, fl in heap_failures[:3]:
        v.failing_input(fl, {"suite": "heap", "family": "c12", "ops": S.history_ops(HeapSuite(), hpref, fl["hist"])})
    if not v.violations:
        if heap_diffs:
            hpref, d0 = heap_diffs[0]
            v.broken("correspondence: heap model and real pickle disagree on `%s`" % d0["field"],
                     {"suite": "heap", "family": "c12", "ops": S.history_ops(HeapSuite(), hpref, d0["hist"]),
                      "first_divergence": d0, "n_diverging_cases": len(heap_diffs)})
    if not v.violations:
        if lean_problems:
            v.broken("lean: " + "; ".join(lean_problems)[:600], {"suite": "expr", "theorem_or_obligation": lean_problems[:5]})
        if tie_notes:
            v.broken("Tie A obligation no longer checks: " + TIE_A_TEXT[prop], {"suite": "expr", "obligation": tie_notes})
        if diffs:
            v.broken("correspondence: printed text of the model and of the implementation differ",
                     {"suite": "expr", "first_divergence": diffs[0], "n": len(diffs)})
        if mgr_diffs:
            mpref, d0 = mgr_diffs[0]
            v.broken("correspondence: manager model and implementation disagree on `%s` after `%s`" % (d0["field"], d0["op"]),
                     {"suite": "mgr", "family": "c11", "ops": S.history_ops(suite_mgr.Mgr(), mpref, d0["hist"]),
                      "first_divergence": d0, "n_diverging_histories": len(mgr_diffs)})

    samples = []
    if prefixes:
        some = S.load_lines(prefixes[-1][0] + ".ops.jsonl")
        samples = [{k: val for k, val in o.items() if k not in ("impl", "hist", "op")} for o in some[:8]]
    C.proof_coverage(v, thms, generated_obligations=gen_total, generated_ok=gen_ok,
                     extra_tb=["Tie A translator harness/extract_refs.py (probing with recording operands)",
                               "Python's data model (which dunder Python calls, in-place fallback) as fixed in RefsTable.pySpecFull",
                               "direct oracles harness/w_expr.py"])
    nontrivial = int(sum(stats_total.get(k, 0) for k in ("eval_cases", "iop_cases", "deps_cases", "pickle_cases",
                                                          "mgrpickle_cases", "eq_pairs", "exprhash_cases", "print_cases",
                                                          "cloneload_cases")))      # iopseq / mgrstate / eqtyped count under iop / mgrpickle / eq
    v.coverage.update({
        "evaluations": int(stats_total.get("ops", 0)), "distinct_nontrivial": nontrivial,
        "rule": "generated expression cases (family %s): the fixed exhaustive part (every operator x operand-kind order x value "
                "pairs, every builtin, every in-place operator in value and expression case, each class x slot) plus random "
                "trees to depth 5 over ints, floats, bools, complex, numpy scalars; non-trivial = the case built a deferred "
                "expression and reached its oracle; further oracle-only kinds: sequences of in-place statements over inexact "
                "float data (C04), managers pickled in every reachable state incl. frozen with events as follow-ups (C12), load / "
                "copy_expr_from into diverged clone() / copy() managers (C11), keys compared by value and type inside tuples (C06)" % family,
        "samples": samples, "traces_validated_against_impl": nlines + mgr_lines + heap_lines,
        "tie_a_obligations": gen_total, "tie_a_discharged": gen_ok, "tie_a_notes": tie_notes,
        "correspondence_divergences": len(diffs) + len(mgr_diffs) + len(heap_diffs),
        "printer_correspondence": dict(suite_print.STATS) if prop in ("C06", "C11") and ok else None,
        "oracle_failures": len(failures) + len(mgr_failures) + len(heap_failures),
        "input_distribution": dict(sorted(stats_total.items())), "builds": [b[0] for b in builds], "lean_problems": lean_problems})
    v.assumptions = ["meaning of each primitive Python operator = Python itself (parameter of the theorems)",
                     "numpy scalars or arrays standing to the left of a ref are excluded (numpy owns the operator)"]
    return v.finish()
