import subprocess, re, sys, json
spec = json.load(open(sys.argv[1]))
imports = spec["imports"]
names = [w["target"] for w in spec["wrappers"]]
src = "\n".join("import "+i for i in imports) + "\nset_option pp.fieldNotation.generalized false\nset_option linter.unusedVariables false\n" + "\n".join("#check @%s" % n for n in names) + "\n"
open("/var/tmp/chk2.lean","w").write(src)
out = subprocess.run(["lake","env","lean","/var/tmp/chk2.lean"],capture_output=True,text=True,cwd="/verif/lean").stdout
# split by lines starting with '@name :'
blocks = {}
cur=None
for line in out.split("\n"):
    m = re.match(r"^@?([\w.'₂]+) : (.*)$", line)
    if m and m.group(1) in names:
        cur=m.group(1); blocks[cur]=[m.group(2)]
    elif cur is not None:
        blocks[cur].append(line)
res=[]
for w in spec["wrappers"]:
    t="\n".join(blocks[w["target"]]).rstrip()
    res.append("/-- %s -/\ntheorem %s :\n    %s :=\n  @%s\n" % (w["doc"], w["name"], t.replace("\n","\n    "), w["target"]))
open(sys.argv[2],"w").write("\n".join(res))
print(len(res),"wrappers")
