#!/bin/sh
# Build the Lean model, proofs and the native driver from files on disk only.
set -e
cd "$(dirname "$0")/lean"
lake build 2>&1 | tail -5
