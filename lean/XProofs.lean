import XProofs.Clip
import XProofs.LeastSquares
import XProofs.LstsqNormal
