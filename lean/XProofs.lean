import XProofs.Clip
import XProofs.LeastSquares
import XProofs.LstsqNormal
import XProofs.Properties.C01
import XProofs.Properties.C02
import XProofs.Properties.C03
import XProofs.Properties.C17
import XProofs.Properties.C18
