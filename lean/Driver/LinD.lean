import Lean.Data.Json
import XModel.Lstsq
import Driver.OptD
/-! Line-protocol suite `lin`: `SVD.lstsq` on the factors numpy produced. -/
namespace DLin
open Lean Lstsq

def matOfJson (j : Json) : Option (List (List Float)) :=
  match j with
  | .arr rows => rows.toList.mapM DOpt.vecOfJson
  | _ => none

def step (j : Json) : Json :=
  match (DOpt.field j "U").bind matOfJson, (DOpt.field j "s").bind DOpt.vecOfJson, (DOpt.field j "Vh").bind matOfJson,
        (DOpt.field j "b").bind DOpt.vecOfJson, (DOpt.field j "cutoff").bind (fun v => v.getNat?.toOption) with
  | some U, some s, some Vh, some b, some cut =>
    let rc := match DOpt.field j "rcond" with
      | some (.str h) => DOpt.floatOfHex h
      | _ => none
    let x := lstsq U s Vh b rc cut
    Json.mkObj [("x", .arr (x.map (fun v => Json.str (DOpt.floatToHex v))).toArray)]
  | _, _, _, _, _ => Json.mkObj [("skip", .bool true)]

end DLin
