import Lean.Data.Json
import XModel.PickleHeap
/-! Line-protocol suite `heap`: one line = one case for the object-heap model of pickling (`XModel/PickleHeap.lean`):
    a heap of container objects, the roots a manager holds, and an interleaved program of assignments through the
    original and the restored roots.  The model answers with the canonical form (objects in memo order, references as
    memo numbers) of the originals, of the copies right after `deepCopy`, and of both sides after the program; the
    worker computes the same numbering by `id()` on the real objects around a real `pickle.loads(pickle.dumps(manager))`. -/
namespace DHeap
open Lean PickleHeap

def keyOfJson : Json → Option Key
  | .str s => some (.str s)
  | j => (j.getInt?.toOption).map Key.int

def valOfJson (j : Json) : Option Val :=
  match j with
  | .arr a => (match a.toList with
    | [.str "n", x] => (x.getInt?.toOption).map Val.num
    | [.str "r", x] => (x.getNat?.toOption).map Val.ref
    | _ => none)
  | _ => none

def objOfJson (j : Json) : Option Obj :=
  match j with
  | .arr a => (match a.toList with
    | [.str "d", .arr items] => (items.toList.mapM (fun (kv : Json) => match kv with
        | .arr p => (match p.toList with
          | [k, v] => do let k ← keyOfJson k; let v ← valOfJson v; pure (k, v)
          | _ => none)
        | _ => none)).map Obj.dict
    | [.str "l", .arr items] => (items.toList.mapM valOfJson).map Obj.list
    | _ => none)
  | _ => none

def keyJson : Key → Json
  | .str s => .str s
  | .int i => .num (JsonNumber.fromInt i)

def valJson : Val → Json
  | .num n => .arr #[.str "n", .num (JsonNumber.fromInt n)]
  | .ref a => .arr #[.str "r", .num (JsonNumber.fromNat a)]

def objJson : Obj → Json
  | .dict items => .arr #[.str "d", .arr (items.map (fun kv => Json.arr #[keyJson kv.1, valJson kv.2])).toArray]
  | .list items => .arr #[.str "l", .arr (items.map valJson).toArray]

def canonJson (h : Heap) (roots : List Addr) : Json :=
  let c := canon h roots
  Json.mkObj [("objs", .arr (c.1.map objJson).toArray), ("roots", .arr (c.2.map (fun n => Json.num (JsonNumber.fromNat n))).toArray)]

def assignOfJson (j : Json) : Option (Side × Assign) :=
  match j with
  | .arr a => (match a.toList with
    | [.str side, idx, .arr path, val] => do
      let s ← (if side == "o" then some Side.orig else if side == "c" then some Side.copy else none)
      let i ← idx.getNat?.toOption
      let p ← path.toList.mapM keyOfJson
      let v ← val.getInt?.toOption
      pure (s, ⟨i, p, v⟩)
    | _ => none)
  | _ => none

def arrOf (j : Json) (k : String) : Option (List Json) :=
  match (j.getObjVal? k).toOption with
  | some (.arr a) => some a.toList
  | _ => none

def step (j : Json) : Json :=
  match (arrOf j "heap").bind (·.mapM objOfJson), (arrOf j "roots").bind (·.mapM (fun (x : Json) => x.getNat?.toOption)),
        (arrOf j "prog").bind (·.mapM assignOfJson) with
  | some h, some roots, some prog =>
    let cp := deepCopy h roots
    let hf := runMixed cp.1 roots cp.2 prog
    Json.mkObj [-- the standing hypotheses of the PickleHeap theorems, decided on this case
      ("wf", .bool (decide (WF h) && roots.all (fun r => decide (r < h.length)))),
      ("canon0", canonJson h roots), ("canon_copy", canonJson cp.1 cp.2),
      ("fresh", .bool (cp.2.all (fun r => decide (h.length ≤ r)))),
      ("final_orig", canonJson hf roots), ("final_copy", canonJson hf cp.2)]
  | _, _, _ => Json.mkObj [("bad-op", .str "heap case")]

end DHeap
