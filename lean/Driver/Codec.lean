import Lean.Data.Json
import XModel.Manager
import XModel.Acyclic
import XModel.ManagerC13
import XModel.ManagerFn
import XModel.ManagerC17
import XModel.ManagerFnHist
import XModel.ManagerMixed
/-! JSON codec shared by the driver suites (Appendix A of DESIGN.md).  Total: malformed input is
    `none`, never defaulted. -/
namespace Codec
open Lean Store Push Manager

def keyOfJson : Json → Option Key
  | .str s => some (.str s)
  | .num n => if n.exponent = 0 then some (.int n.mantissa) else none
  | _ => none

def keyToJson : Key → Json
  | .str s => .str s
  | .int i => .num (JsonNumber.fromInt i)

/-- path: `["label", ["i", key] | ["a", name], …]`; a bare string `"#T"` is a function-task id -/
def pathOfJson : Json → Option Path
  | .str s => some [.attr s]
  | .arr a =>
    match a.toList with
    | .str label :: rest =>
      (rest.mapM (fun (st : Json) => match st with
        | .arr b => (match b.toList with
          | [.str "i", k] => (keyOfJson k).map Step.item
          | [.str "a", .str n] => some (Step.attr n)
          | _ => none)
        | _ => none)).map (fun steps => Step.item (.str label) :: steps)
    | _ => none
  | _ => none

def stepToJson : Step → Json
  | .item k => .arr #[.str "i", keyToJson k]
  | .attr a => .arr #[.str "a", .str a]

def pathToJson : Path → Json
  | [.attr s] => .str s
  | .item (.str label) :: rest => .arr ((#[Json.str label]) ++ (rest.map stepToJson).toArray)
  | p => .arr ((#[Json.str "?"]) ++ (p.map stepToJson).toArray)

partial def valOfJson : Json → Option Val
  | .null => some .none
  | .str "nan" => some .nan
  | .num n => if n.exponent = 0 then some (.int n.mantissa) else none
  | .obj kvs =>
    match kvs.toList with
    | [("d", .arr es)] =>
      (es.toList.mapM (fun (e : Json) => match e with
        | .arr p => (match p.toList with
          | [k, v] => do let k ← keyOfJson k; let v ← valOfJson v; pure (k, v)
          | _ => none)
        | _ => none)).map Val.dict
    | [("l", .arr es)] => (es.toList.mapM valOfJson).map Val.list
    | [("o", .arr es)] =>
      (es.toList.mapM (fun (e : Json) => match e with
        | .arr p => (match p.toList with
          | [.str k, v] => do let v ← valOfJson v; pure (Key.str k, v)
          | _ => none)
        | _ => none)).map Val.obj
    | _ => none
  | _ => none

partial def valToJson : Val → Json
  | .int i => .num (JsonNumber.fromInt i)
  | .none => .null
  | .nan => .str "nan"
  | .dict kvs => Json.mkObj [("d", .arr (kvs.map (fun kv => Json.arr #[keyToJson kv.1, valToJson kv.2])).toArray)]
  | .list xs => Json.mkObj [("l", .arr (xs.map valToJson).toArray)]
  | .obj kvs => Json.mkObj [("o", .arr (kvs.map (fun kv => Json.arr #[keyToJson kv.1, valToJson kv.2])).toArray)]

partial def exprOfJson : Json → Option Expr
  | .arr a =>
    match a.toList with
    | [.str "lit", v] => (valOfJson v).map Expr.lit
    | [.str "ref", p] => (pathOfJson p).map Expr.ref
    | [.str "bin", .str op, l, r] => do
        let l ← exprOfJson l; let r ← exprOfJson r; pure (.bin op l r)
    | [.str "un", .str op, x] => (exprOfJson x).map (Expr.un op)
    | _ => none
  | _ => none

partial def exprToJson : Expr → Json
  | .lit v => .arr #[.str "lit", valToJson v]
  | .ref p => .arr #[.str "ref", pathToJson p]
  | .bin op l r => .arr #[.str "bin", .str op, exprToJson l, exprToJson r]
  | .un op x => .arr #[.str "un", .str op, exprToJson x]

def field (j : Json) (k : String) : Option Json := (j.getObjVal? k).toOption
def fieldStr (j : Json) (k : String) : Option String := (field j k).bind (fun v => v.getStr?.toOption)
def fieldBool (j : Json) (k : String) : Option Bool := (field j k).bind (fun v => v.getBool?.toOption)
def fieldNat (j : Json) (k : String) : Option Nat := (field j k).bind (fun v => v.getNat?.toOption)
def fieldArr (j : Json) (k : String) : Option (List Json) :=
  (field j k).bind (fun v => match v with | .arr a => some a.toList | _ => none)
def fieldPaths (j : Json) (k : String) : Option (List Path) := (fieldArr j k).bind (·.mapM pathOfJson)

end Codec
