import XModel
def main : IO Unit := IO.println "xdriver"
