import Driver.Mgr
import Driver.Table
import Driver.Expr
import Driver.OptD
import Driver.MeritD
import Driver.MadxD
import Driver.LinD
import Driver.HeapD
/-! `xdriver <suite>`: one JSON object per input line, one JSON object per output line. -/
open Lean

partial def loopMgr (h : IO.FS.Stream) (out : IO.FS.Stream) (s : Manager.MState) (n : Nat) : IO Unit := do
  let line ← h.getLine
  if line.isEmpty then return ()
  match Json.parse line with
  | .error e =>
    out.putStrLn (Json.mkObj [("n", n), ("bad-op", .str ("parse: " ++ e))]).compress
    loopMgr h out s (n+1)
  | .ok j =>
    let (s', o) := DMgr.step s j
    out.putStrLn (o.setObjVal! "n" n).compress
    loopMgr h out s' (n+1)

partial def loopTable (h : IO.FS.Stream) (out : IO.FS.Stream) (s : TableM.Tbl) (n : Nat) : IO Unit := do
  let line ← h.getLine
  if line.isEmpty then return ()
  match Json.parse line with
  | .error e =>
    out.putStrLn (Json.mkObj [("n", n), ("bad-op", .str ("parse: " ++ e))]).compress
    loopTable h out s (n+1)
  | .ok j =>
    let (s', o) := DTable.step s j
    out.putStrLn (o.setObjVal! "n" n).compress
    loopTable h out s' (n+1)

partial def loopExpr (h : IO.FS.Stream) (out : IO.FS.Stream) (n : Nat) : IO Unit := do
  let line ← h.getLine
  if line.isEmpty then return ()
  match Json.parse line with
  | .error e => out.putStrLn (Json.mkObj [("n", n), ("bad-op", .str ("parse: " ++ e))]).compress
  | .ok j => out.putStrLn ((DExpr.step j).setObjVal! "n" n).compress
  loopExpr h out (n+1)

partial def loopOpt (h : IO.FS.Stream) (out : IO.FS.Stream) (n : Nat) : IO Unit := do
  let line ← h.getLine
  if line.isEmpty then return ()
  match Json.parse line with
  | .error e => out.putStrLn (Json.mkObj [("n", n), ("bad-op", .str ("parse: " ++ e))]).compress
  | .ok j => out.putStrLn ((if DOpt.isMerit j then DOpt.meritStep j else DOpt.step j).setObjVal! "n" n).compress
  loopOpt h out (n+1)

partial def loopMadx (h : IO.FS.Stream) (out : IO.FS.Stream) (n : Nat) : IO Unit := do
  let line ← h.getLine
  if line.isEmpty then return ()
  match Json.parse line with
  | .error e => out.putStrLn (Json.mkObj [("n", n), ("bad-op", .str ("parse: " ++ e))]).compress
  | .ok j => out.putStrLn ((DMadx.step j).setObjVal! "n" n).compress
  loopMadx h out (n+1)

partial def loopLin (h : IO.FS.Stream) (out : IO.FS.Stream) (n : Nat) : IO Unit := do
  let line ← h.getLine
  if line.isEmpty then return ()
  match Json.parse line with
  | .error e => out.putStrLn (Json.mkObj [("n", n), ("bad-op", .str ("parse: " ++ e))]).compress
  | .ok j => out.putStrLn ((DLin.step j).setObjVal! "n" n).compress
  loopLin h out (n+1)

partial def loopHeap (h : IO.FS.Stream) (out : IO.FS.Stream) (n : Nat) : IO Unit := do
  let line ← h.getLine
  if line.isEmpty then return ()
  match Json.parse line with
  | .error e => out.putStrLn (Json.mkObj [("n", n), ("bad-op", .str ("parse: " ++ e))]).compress
  | .ok j => out.putStrLn ((DHeap.step j).setObjVal! "n" n).compress
  loopHeap h out (n+1)

def main (args : List String) : IO UInt32 := do
  let stdin ← IO.getStdin
  let stdout ← IO.getStdout
  match args with
  | ["mgr"] => loopMgr stdin stdout Manager.MState.init 0; return 0
  | ["lin"] => loopLin stdin stdout 0; return 0
  | ["heap"] => loopHeap stdin stdout 0; return 0
  | ["madx"] => loopMadx stdin stdout 0; return 0
  | ["opt"] => loopOpt stdin stdout 0; return 0
  | ["expr"] => loopExpr stdin stdout 0; return 0
  | ["table"] => loopTable stdin stdout DTable.emptyTbl 0; return 0
  | _ => IO.eprintln "usage: xdriver <suite>"; return 2
