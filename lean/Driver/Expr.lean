import Lean.Data.Json
import XModel.Parse
import XModel.ParseKeys
/-! Line-protocol suite `expr`: the printer model of `XModel/Parse.lean` on expression structures read
    from real objects; emits the token list and whether the model's parser reads it back.
    Structures with keys outside `str | int` (tuples, bools, `None`, floats) are printed and read back by the extended
    model `XModel/ParseKeys.lean` (`"ext": true`); structures inside the old language go through BOTH models
    (`ext_tokens_same`, `ext_parses_back`: `ParseKeys.print_embed` / `parse_print_embed` executed).  When the line carries
    Python's tokenisation of the real printed text (`impl.tokens`), the extended parser also reads THOSE tokens and the
    result is compared with the structure (`impl_parse`). -/
namespace DExpr
open Lean Parse

def intOf : Json → Option Int
  | .num n => if n.exponent = 0 then some n.mantissa else none
  | _ => none

partial def exprOfJson : Json → Option Expr
  | .arr a => match a.toList with
    | [.str "root", .str l] => some (.root l)
    | [.str "item", o, .str s] => (exprOfJson o).map (fun o => .item o (.str s))
    | [.str "item", o, k] => do let o ← exprOfJson o; let i ← intOf k; pure (.item o (.int i))
    | [.str "attr", o, .str a] => (exprOfJson o).map (fun o => .attr o a)
    | [.str "lit", v] => (intOf v).map Expr.lit
    | [.str "bin", .str op, l, r] => do let l ← exprOfJson l; let r ← exprOfJson r; pure (.bin op l r)
    | [.str "un", .str op, x] => (exprOfJson x).map (Expr.un op)
    | [.str "call", f, .arr args] => do
        let f ← exprOfJson f; let as ← args.toList.mapM exprOfJson; pure (.call f as)
    | [.str "callkw", f, .arr args, .arr kws] => do
        let f ← exprOfJson f; let as ← args.toList.mapM exprOfJson
        let ks ← kws.toList.mapM (fun kv => match kv with
          | .arr p => (match p.toList with
            | [.str k, v] => (exprOfJson v).map (fun v => (k, v))
            | _ => none)
          | _ => none)
        pure (mkCall f as ks)
    | [.str "flit", .bool neg, .str text] => some (.flit neg text)
    | _ => none
  | _ => none

def tokJson : Tok → Json
  | .lpar => .arr #[.str "op", .str "("] | .rpar => .arr #[.str "op", .str ")"]
  | .lbr => .arr #[.str "op", .str "["] | .rbr => .arr #[.str "op", .str "]"]
  | .dot => .arr #[.str "op", .str "."] | .comma => .arr #[.str "op", .str ","]
  | .name s => .arr #[.str "name", .str s]
  | .op s => .arr #[.str "op", .str s]
  | .num n => .arr #[.str "num", .num (JsonNumber.fromNat n)]
  | .str s => .arr #[.str "str", .str s]
  | .fnum t => .arr #[.str "fnum", .str t]

partial def size : Expr → Nat
  | .root _ => 1 | .lit _ => 1 | .flit _ _ => 1
  | .item o _ => size o + 1 | .attr o _ => size o + 1
  | .bin _ l r => size l + size r + 1 | .un _ a => size a + 1
  | .call f as => size f + as.foldl (fun n a => n + size a) 1
  | .callkw f as ks => size f + as.foldl (fun n a => n + size a) 1 + ks.foldl (fun n kv => n + size kv.2 + 1) 1

/-- structural equality (Expr has no derived DecidableEq: it is a nested inductive) -/
partial def eqE : Expr → Expr → Bool
  | .root a, .root b => a == b
  | .lit a, .lit b => a == b
  | .flit n t, .flit n' t' => n == n' && t == t'
  | .item o k, .item o' k' => eqE o o' && decide (k = k')
  | .attr o a, .attr o' a' => eqE o o' && a == a'
  | .bin op l r, .bin op' l' r' => op == op' && eqE l l' && eqE r r'
  | .un op a, .un op' a' => op == op' && eqE a a'
  | .call f as, .call f' as' => eqE f f' && as.length == as'.length && (as.zip as').all (fun p => eqE p.1 p.2)
  | .callkw f as ks, .callkw f' as' ks' =>
    eqE f f' && as.length == as'.length && (as.zip as').all (fun p => eqE p.1 p.2) &&
      ks.length == ks'.length && (ks.zip ks').all (fun p => p.1.1 == p.2.1 && eqE p.1.2 p.2.2)
  | _, _ => false

/-! ### the extended key language (`XModel/ParseKeys.lean`) -/
namespace X
open KeyPrint (KeyX)

/-- a key: JSON string / integer / `true` / `false` / `null`, `{"f": [neg, text]}` (a finite float), `{"t": [keys]}` -/
partial def keyOfJson : Json → Option KeyX
  | .str s => some (.str s)
  | .bool b => some (.bool b)
  | .null => some .none
  | .num n => (intOf (.num n)).map KeyX.int
  | j@(.obj _) =>
    match (j.getObjVal? "t").toOption with
    | some (.arr a) => (a.toList.mapM keyOfJson).map KeyX.tuple
    | _ =>
      match (j.getObjVal? "f").toOption with
      | some (.arr a) =>
        (match a.toList with
         | [.bool neg, .str t] => some (.flt neg t)
         | _ => none)
      | _ => none
  | _ => none

partial def exprOfJson : Json → Option ParseKeys.Expr
  | .arr a => match a.toList with
    | [.str "root", .str l] => some (.root l)
    | [.str "item", o, k] => do let o ← exprOfJson o; let k ← keyOfJson k; pure (.item o k)
    | [.str "attr", o, .str a] => (exprOfJson o).map (fun o => .attr o a)
    | [.str "lit", v] => (intOf v).map ParseKeys.Expr.lit
    | [.str "bin", .str op, l, r] => do let l ← exprOfJson l; let r ← exprOfJson r; pure (.bin op l r)
    | [.str "un", .str op, x] => (exprOfJson x).map (ParseKeys.Expr.un op)
    | [.str "call", f, .arr args] => do
        let f ← exprOfJson f; let as ← args.toList.mapM exprOfJson; pure (.call f as)
    | [.str "callkw", f, .arr args, .arr kws] => do
        let f ← exprOfJson f; let as ← args.toList.mapM exprOfJson
        let ks ← kws.toList.mapM (fun kv => match kv with
          | .arr p => (match p.toList with
            | [.str k, v] => (exprOfJson v).map (fun v => (k, v))
            | _ => none)
          | _ => none)
        pure (ParseKeys.mkCall f as ks)
    | [.str "flit", .bool neg, .str text] => some (.flit neg text)
    | _ => none
  | _ => none

partial def keySize : KeyX → Nat
  | .tuple ks => ks.foldl (fun n k => n + keySize k) 2
  | _ => 1

partial def size : ParseKeys.Expr → Nat
  | .root _ => 1 | .lit _ => 1 | .flit _ _ => 1
  | .item o k => size o + keySize k + 1 | .attr o _ => size o + 1
  | .bin _ l r => size l + size r + 1 | .un _ a => size a + 1
  | .call f as => size f + as.foldl (fun n a => n + size a) 1
  | .callkw f as ks => size f + as.foldl (fun n a => n + size a) 1 + ks.foldl (fun n kv => n + size kv.2 + 1) 1

partial def eqK : KeyX → KeyX → Bool
  | .str a, .str b => a == b
  | .int a, .int b => a == b
  | .bool a, .bool b => a == b
  | .flt n t, .flt n' t' => n == n' && t == t'
  | .none, .none => true
  | .tuple a, .tuple b => a.length == b.length && (a.zip b).all (fun p => eqK p.1 p.2)
  | _, _ => false

partial def eqE : ParseKeys.Expr → ParseKeys.Expr → Bool
  | .root a, .root b => a == b
  | .lit a, .lit b => a == b
  | .flit n t, .flit n' t' => n == n' && t == t'
  | .item o k, .item o' k' => eqE o o' && eqK k k'
  | .attr o a, .attr o' a' => eqE o o' && a == a'
  | .bin op l r, .bin op' l' r' => op == op' && eqE l l' && eqE r r'
  | .un op a, .un op' a' => op == op' && eqE a a'
  | .call f as, .call f' as' => eqE f f' && as.length == as'.length && (as.zip as').all (fun p => eqE p.1 p.2)
  | .callkw f as ks, .callkw f' as' ks' =>
    eqE f f' && as.length == as'.length && (as.zip as').all (fun p => eqE p.1 p.2) &&
      ks.length == ks'.length && (ks.zip ks').all (fun p => p.1.1 == p.2.1 && eqE p.1.2 p.2.2)
  | _, _ => false

/-- does the extended parser read `toks` back as exactly `e`? -/
def readsBack (e : ParseKeys.Expr) (toks : List Tok) : Bool :=
  match ParseKeys.parseExpr (8 * size e + 16) toks with
  | some (e', []) => eqE e e'
  | _ => false

end X

/-- inverse of `tokJson`: Python's tokens of the real text, as sent by the harness -/
def tokOfJson : Json → Option Tok
  | .arr a => match a.toList with
    | [.str "name", .str s] => some (.name s)
    | [.str "str", .str s] => some (.str s)
    | [.str "fnum", .str s] => some (.fnum s)
    | [.str "num", n] => (match intOf n with
      | some i => if 0 ≤ i then some (.num i.toNat) else none
      | none => none)
    | [.str "op", .str "("] => some .lpar | [.str "op", .str ")"] => some .rpar
    | [.str "op", .str "["] => some .lbr | [.str "op", .str "]"] => some .rbr
    | [.str "op", .str "."] => some .dot | [.str "op", .str ","] => some .comma
    | [.str "op", .str s] => some (.op s)
    | _ => none
  | _ => none

/-- Python's tokenisation of the real printed text, when the line carries it -/
def implTokens (j : Json) : Option (List Tok) :=
  match (j.getObjVal? "impl").toOption with
  | some impl =>
    (match (impl.getObjVal? "tokens").toOption with
     | some (.arr a) => a.toList.mapM tokOfJson
     | _ => none)
  | none => none

/-- the extended parser on the REAL tokens, compared with the structure; `null` when the line has no tokens -/
def implParse (j : Json) (e : ParseKeys.Expr) : Json :=
  match implTokens j with
  | some toks => .bool (X.readsBack e toks)
  | none => .null

def step (j : Json) : Json :=
  match (j.getObjVal? "pexpr").toOption with
  | none => Json.mkObj [("skip", .bool true)]
  | some .null => Json.mkObj [("skip", .bool true)]
  | some pj =>
    match exprOfJson pj with
    | some e =>
      -- inside the language of `Parse`: the old model, and the extended model on the embedding
      let toks := print e
      let back := match parseExpr (4 * size e + 8) toks with
        | some (e', []) => eqE e e'
        | _ => false
      let ex := ParseKeys.embed e
      Json.mkObj [("tokens", .arr (toks.map tokJson).toArray), ("parses_back", .bool back), ("ext", .bool false),
                  ("ext_tokens_same", .bool (decide (ParseKeys.print ex = toks))),
                  ("ext_parses_back", .bool (X.readsBack ex toks)), ("impl_parse", implParse j ex)]
    | none =>
      match X.exprOfJson pj with
      | none => Json.mkObj [("bad-op", .str "pexpr")]
      | some e =>
        let toks := ParseKeys.print e
        Json.mkObj [("tokens", .arr (toks.map tokJson).toArray), ("parses_back", .bool (X.readsBack e toks)),
                    ("ext", .bool true), ("impl_parse", implParse j e)]

end DExpr
