import Lean.Data.Json
import XModel.Parse
/-! Line-protocol suite `expr`: the printer model of `XModel/Parse.lean` on expression structures read
    from real objects; emits the token list and whether the model's parser reads it back. -/
namespace DExpr
open Lean Parse

def intOf : Json → Option Int
  | .num n => if n.exponent = 0 then some n.mantissa else none
  | _ => none

partial def exprOfJson : Json → Option Expr
  | .arr a => match a.toList with
    | [.str "root", .str l] => some (.root l)
    | [.str "item", o, .str s] => (exprOfJson o).map (fun o => .item o (.str s))
    | [.str "item", o, k] => do let o ← exprOfJson o; let i ← intOf k; pure (.item o (.int i))
    | [.str "attr", o, .str a] => (exprOfJson o).map (fun o => .attr o a)
    | [.str "lit", v] => (intOf v).map Expr.lit
    | [.str "bin", .str op, l, r] => do let l ← exprOfJson l; let r ← exprOfJson r; pure (.bin op l r)
    | [.str "un", .str op, x] => (exprOfJson x).map (Expr.un op)
    | [.str "call", f, .arr args] => do
        let f ← exprOfJson f; let as ← args.toList.mapM exprOfJson; pure (.call f as)
    | [.str "callkw", f, .arr args, .arr kws] => do
        let f ← exprOfJson f; let as ← args.toList.mapM exprOfJson
        let ks ← kws.toList.mapM (fun kv => match kv with
          | .arr p => (match p.toList with
            | [.str k, v] => (exprOfJson v).map (fun v => (k, v))
            | _ => none)
          | _ => none)
        pure (mkCall f as ks)
    | [.str "flit", .bool neg, .str text] => some (.flit neg text)
    | _ => none
  | _ => none

def tokJson : Tok → Json
  | .lpar => .arr #[.str "op", .str "("] | .rpar => .arr #[.str "op", .str ")"]
  | .lbr => .arr #[.str "op", .str "["] | .rbr => .arr #[.str "op", .str "]"]
  | .dot => .arr #[.str "op", .str "."] | .comma => .arr #[.str "op", .str ","]
  | .name s => .arr #[.str "name", .str s]
  | .op s => .arr #[.str "op", .str s]
  | .num n => .arr #[.str "num", .num (JsonNumber.fromNat n)]
  | .str s => .arr #[.str "str", .str s]
  | .fnum t => .arr #[.str "fnum", .str t]

partial def size : Expr → Nat
  | .root _ => 1 | .lit _ => 1 | .flit _ _ => 1
  | .item o _ => size o + 1 | .attr o _ => size o + 1
  | .bin _ l r => size l + size r + 1 | .un _ a => size a + 1
  | .call f as => size f + as.foldl (fun n a => n + size a) 1
  | .callkw f as ks => size f + as.foldl (fun n a => n + size a) 1 + ks.foldl (fun n kv => n + size kv.2 + 1) 1

/-- structural equality (Expr has no derived DecidableEq: it is a nested inductive) -/
partial def eqE : Expr → Expr → Bool
  | .root a, .root b => a == b
  | .lit a, .lit b => a == b
  | .flit n t, .flit n' t' => n == n' && t == t'
  | .item o k, .item o' k' => eqE o o' && decide (k = k')
  | .attr o a, .attr o' a' => eqE o o' && a == a'
  | .bin op l r, .bin op' l' r' => op == op' && eqE l l' && eqE r r'
  | .un op a, .un op' a' => op == op' && eqE a a'
  | .call f as, .call f' as' => eqE f f' && as.length == as'.length && (as.zip as').all (fun p => eqE p.1 p.2)
  | .callkw f as ks, .callkw f' as' ks' =>
    eqE f f' && as.length == as'.length && (as.zip as').all (fun p => eqE p.1 p.2) &&
      ks.length == ks'.length && (ks.zip ks').all (fun p => p.1.1 == p.2.1 && eqE p.1.2 p.2.2)
  | _, _ => false

def step (j : Json) : Json :=
  match (j.getObjVal? "pexpr").toOption with
  | none => Json.mkObj [("skip", .bool true)]
  | some .null => Json.mkObj [("skip", .bool true)]
  | some pj =>
    match exprOfJson pj with
    | none => Json.mkObj [("bad-op", .str "pexpr")]
    | some e =>
      let toks := print e
      let back := match parseExpr (4 * size e + 8) toks with
        | some (e', []) => eqE e e'
        | _ => false
      Json.mkObj [("tokens", .arr (toks.map tokJson).toArray), ("parses_back", .bool back)]

end DExpr
