import Lean.Data.Json
import XModel.Opt
import XModel.Argmin
import XModel.OptNum
import XModel.OptMaxStep
import XModel.OptBest3
import XModel.OptPerCall
/-! Line-protocol suite `opt`: trace acceptance for `Optimize.solve / step / reload`.
    One line = one API call with the state the implementation was in before the call, the recorded
    user-function table and the solver's choice of evaluation points (the numerics are an oracle);
    the model of `XModel/Opt.lean`, instantiated with IEEE doubles, must end in the implementation's
    state: knobs, flags, appended log rows, exception kind.

    A `step` call may carry `call.args`: the six per-call arguments `enable_target / enable_vary / enable_vary_name /
    disable_target / disable_vary / disable_vary_name`, each already resolved by the harness to the list of positions it
    switches.  `pre` is then the state BEFORE those flags are applied; the driver runs `Opt.optStepWith` (flags, the call
    proper, the undo — skipped by an exception) and the flags it outputs are the final ones. -/
namespace DOpt
open Lean Opt

def field (j : Json) (k : String) : Option Json := (j.getObjVal? k).toOption
def fieldStr (j : Json) (k : String) : Option String := (field j k).bind (fun v => v.getStr?.toOption)
def fieldBool (j : Json) (k : String) : Option Bool := (field j k).bind (fun v => v.getBool?.toOption)
def fieldArr (j : Json) (k : String) : Option (List Json) :=
  (field j k).bind (fun v => match v with | .arr a => some a.toList | _ => none)

def hexVal (c : Char) : Option Nat :=
  if '0' ≤ c ∧ c ≤ '9' then some (c.toNat - '0'.toNat)
  else if 'a' ≤ c ∧ c ≤ 'f' then some (c.toNat - 'a'.toNat + 10) else none

/-- a double from the hex of its little-endian bytes (`struct.pack('<d', x).hex()`) -/
def floatOfHex (s : String) : Option Float :=
  let cs := s.toList
  if cs.length ≠ 16 then none else
  let rec bytes : List Char → Option (List Nat)
    | a :: b :: rest => do
      let x ← hexVal a; let y ← hexVal b; let r ← bytes rest; pure ((x * 16 + y) :: r)
    | [] => some []
    | _ => none
  match bytes cs with
  | none => none
  | some bs =>
    -- little endian: first byte is least significant
    let n := bs.reverse.foldl (fun acc b => acc * 256 + b) 0
    some (Float.ofBits n.toUInt64)

def hexDigit (n : Nat) : Char := if n < 10 then Char.ofNat (48 + n) else Char.ofNat (87 + n)

def floatToHex (x : Float) : String :=
  let n := x.toBits.toNat
  let rec go (k : Nat) (n : Nat) (acc : List Char) : List Char :=
    match k with
    | 0 => acc
    | k+1 => let b := n % 256; go k (n / 256) (acc ++ [hexDigit (b / 16), hexDigit (b % 16)])
  String.ofList (go 8 n [])

def vecOfJson (j : Json) : Option (List Float) :=
  match j with
  | .arr a => a.toList.mapM (fun (x : Json) => x.getStr?.toOption.bind floatOfHex)
  | _ => none

def vecFn (l : List Float) : Nat → Float := fun i => l.getD i 0.0
def flagsFn (s : String) : Nat → Bool := fun i => (s.toList.getD i 'n') == 'y'
def vecJson (n : Nat) (f : Nat → Float) : Json := .arr ((List.range n).map (fun i => Json.str (floatToHex (f i)))).toArray
def flagsStr (n : Nat) (f : Nat → Bool) : String := String.ofList ((List.range n).map (fun i => if f i then 'y' else 'n'))

structure Problem where
  n : Nat
  nt : Nat
  weights : List Float
  limits : List (Option (Float × Float))
  maxStep : List (Option Float)
  tvalue : List Float
  ttol : List Float
  ftable : List (List UInt64 × Option (List Float))
  assertTol : Bool
  restore : Bool

def bitsOf (n : Nat) (k : Nat → Float) : List UInt64 := (List.range n).map (fun i => (k i).toBits)

def mkCfg (p : Problem) : Cfg Float where
  n := p.n
  mulW i x := x * p.weights.getD i 1.0
  divW i k := k / p.weights.getD i 1.0
  inLimits i v := match p.limits.getD i none with
    | none => true
    | some (lo, hi) => !(v < lo) && !(v > hi)
  f knobs := match p.ftable.find? (fun e => e.1 == bitsOf p.n knobs) with
    | some (_, some y) => some (vecFn y)
    | _ => none
  within res tAct := (List.range p.nt).all (fun i =>
    !(tAct i) || Float.abs (res i - p.tvalue.getD i 0.0) < p.ttol.getD i 0.0)
  assertWithinTol := p.assertTol
  restoreIfFail := p.restore

def rowOfJson (j : Json) : Option (Row Float) := do
  let k ← (field j "knobs").bind vecOfJson
  let va ← fieldStr j "vary_active"
  let ta ← fieldStr j "target_active"
  pure ⟨vecFn k, flagsFn va, flagsFn ta⟩

def iterOfJson (j : Json) : Option (Iter Float) := do
  let resync ← fieldBool j "resync"
  let early ← fieldBool j "early"
  let jac ← (fieldArr j "jac").bind (·.mapM vecOfJson)
  let trials ← (fieldArr j "trials").bind (·.mapM vecOfJson)
  let last ← (field j "last").bind vecOfJson
  let pe ← fieldBool j "pe"
  pure ⟨resync, early, jac.map vecFn, trials.map vecFn, vecFn last, pe⟩

def natList (j : Json) (k : String) : List Nat :=
  match fieldArr j k with
  | some l => l.filterMap (fun (v : Json) => v.getNat?.toOption)
  | none => []

/-- the per-call arguments of `step`, as resolved positions (absent or `null` = not given = `[]`) -/
def stepArgsOfJson (call : Json) : StepArgs :=
  match field call "args" with
  | some a => { enableTarget := natList a "enable_target", enableVary := natList a "enable_vary",
                enableVaryName := natList a "enable_vary_name", disableTarget := natList a "disable_target",
                disableVary := natList a "disable_vary", disableVaryName := natList a "disable_vary_name" }
  | none => {}

def errName : Err → String
  | .limit => "limit" | .user => "user" | .noTol => "noTol" | .penalty => "penalty"

def problemOfJson (j : Json) : Option Problem := do
  let n ← (field j "n").bind (fun v => v.getNat?.toOption)
  let nt ← (field j "nt").bind (fun v => v.getNat?.toOption)
  let w ← (field j "weights").bind vecOfJson
  let lims ← (fieldArr j "limits").bind (·.mapM (fun (l : Json) => match l with
    | .null => some none
    | v => (vecOfJson v).bind (fun p => match p with | [a, b] => some (some (a, b)) | _ => none)))
  let ms : List (Option Float) := match fieldArr j "max_step" with
    | some l => l.map (fun (v : Json) => match v with | .str h => floatOfHex h | _ => none)
    | none => []
  let tv ← (field j "tvalue").bind vecOfJson
  let tt ← (field j "ttol").bind vecOfJson
  let ft ← (fieldArr j "ftable").bind (·.mapM (fun (e : Json) => match e with
    | .arr a => (match a.toList with
      | [x, .null] => (vecOfJson x).map (fun x => (x.map Float.toBits, none))
      | [x, y] => do let x ← vecOfJson x; let y ← vecOfJson y; pure (x.map Float.toBits, some y)
      | _ => none)
    | _ => none))
  let at_ ← fieldBool j "assert"
  let rs ← fieldBool j "restore"
  pure ⟨n, nt, w, lims, ms, tv, tt, ft, at_, rs⟩


/-! ### the numerics of a solver step, replayed on doubles (C10, `max_step`) -/

def fops : OptNum.Ops Float := ⟨(· - ·), (· * ·), (· / ·), Float.abs, fun a b => decide (a < b), 0.0⟩

/-- what the trace records about the numerics of one solver step: the argument and the result of
    `_clip_to_max_steps` (absent when the solver stopped before computing a step) -/
structure StepNum where
  raw : Option (List Float)
  xstep : Option (List Float)

def stepNumOfJson (j : Json) : StepNum :=
  ⟨(field j "raw").bind vecOfJson, (field j "xstep").bind vecOfJson⟩

def sameBits (n : Nat) (f g : Nat → Float) : Bool := (List.range n).all (fun i => (f i).toBits == (g i).toBits)

def halves (k : Nat) : Float := (List.range k).foldl (fun a _ => a / 2.0) 1.0

/-- limits in solver units, as `_get_x_limits` computes them: `(limits or (-1e200, 1e200)) / weight` -/
def xLo (p : Problem) (i : Nat) : Float :=
  (match p.limits.getD i none with | some (lo, _) => lo | none => -1e200) / p.weights.getD i 1.0
def xHi (p : Problem) (i : Nat) : Float :=
  (match p.limits.getD i none with | some (_, hi) => hi | none => 1e200) / p.weights.getD i 1.0

def maxsX (p : Problem) : Nat → Option Float :=
  OptNum.maxsOf fops (fun i => p.maxStep.getD i none) (fun i => some (p.weights.getD i 1.0))

/-- one solver step: the recorded result of `_clip_to_max_steps` is `OptNum.clip` of its recorded argument, and every
    recorded trial point is `OptNum.trialPoint` of the start point, that clipped step and `2^-alpha`, bit for bit -/
def stepNumOK (p : Problem) (x0 : Nat → Float) (it : Iter Float) (sn : StepNum) : Bool × Bool :=
  match sn.raw, sn.xstep with
  | some raw, some xs =>
    let clipOK := sameBits p.n (OptNum.clip fops (maxsX p) p.n (vecFn raw)) (vecFn xs)
    let pts := it.trials ++ [it.last]
    let trialOK := (List.range pts.length).all (fun k =>
      match pts[k]? with
      | some pt => sameBits p.n pt (OptNum.trialPoint fops (xLo p) (xHi p) x0 (vecFn xs) (halves k))
      | none => true)
    (clipOK, trialOK)
  | _, _ => (true, true)

/-- run the loop of `Optimize.step` as the model does, checking the numerics of every executed solver step against the
    model's own start point (`iterX0`) -/
def checkLoop (p : Problem) (c : Cfg Float) : List (Iter Float × StepNum) → St Float → Bool × Bool × Nat
  | [], _ => (true, true, 0)
  | (it, sn) :: rest, s =>
    let x0 := iterX0 c it.resync s
    let (a, b) := if it.early then (true, true) else stepNumOK p x0 it sn
    let counted := if it.early then 0 else (match sn.raw with | some _ => 1 | none => 0)
    match optIter c it.resync it.early it.jac it.trials it.last it.pe s with
    | (.ok _, s1) =>
      if s1.lastWithin then (a, b, counted)
      else
        let (a2, b2, n2) := checkLoop p c rest s1
        (a && a2, b && b2, counted + n2)
    | (.error _, _) => (a, b, counted)

def step (j : Json) : Json :=
  match (field j "problem").bind problemOfJson, field j "pre", field j "call" with
  | some p, some pre, some call =>
    let c := mkCfg p
    match (field pre "knobs").bind vecOfJson, fieldStr pre "vact", fieldStr pre "tact",
          (fieldArr pre "log").bind (·.mapM rowOfJson) with
    | some k, some va, some ta, some log =>
      let sx := ((field pre "solverx").bind vecOfJson).getD k
      let lw := (fieldBool pre "last_within").getD false
      let s0 : St Float := ⟨vecFn k, flagsFn va, flagsFn ta, vecFn sx, lw, log, vecFn sx, vecFn k, flagsFn ta⟩
      let kind := (fieldStr call "kind").getD ""
      let its := ((fieldArr call "its").bind (·.mapM iterOfJson)).getD []
      -- take_best: the reload index is np.argmin over the penalties logged during the call
      let tb : Option Nat := match (field call "pens").bind vecOfJson, (field call "log_start").bind (fun v => v.getNat?.toOption) with
        | some pens, some start => Opt.takeBestArg pens start    -- the rule `C15_take_best_*_branch` are about
        | _, _ => none
      let args : StepArgs := if kind == "step" then stepArgsOfJson call else {}
      let res : Except Err Unit × St Float :=
        if kind == "solve" then solve c its tb s0
        else if kind == "step" then optStepWith args c its tb s0    -- `= optStep c its tb s0` without arguments (`optStepWith_noArgs`)
        else if kind == "reload" then reload c ((field call "i").bind (fun v => v.getNat?.toOption) |>.getD 0) s0
        else if kind == "tag" then addPoint c s0
        else (.ok (), s0)
      let nums := ((fieldArr call "its").getD []).map stepNumOfJson
      let numRes : Bool × Bool × Nat :=
        if kind == "solve" || kind == "step" then
          let sStart : St Float := if kind == "solve" then { s0 with solverX := extractX c s0 } else argState args s0
          match addPoint c sStart with
          | (.ok _, sA) => checkLoop p c (its.zip nums) sA
          | _ => (true, true, 0)
        else (true, true, 0)
      let (r, s1) := res
      let newRows := s1.log.drop log.length
      Json.mkObj [("exc", .str (match r with | .ok _ => "ok" | .error e => errName e)),
        ("knobs", vecJson p.n s1.knobs), ("vact", .str (flagsStr p.n s1.vAct)), ("tact", .str (flagsStr p.nt s1.tAct)),
        ("last_within", .bool s1.lastWithin), ("take_best", match tb with | some i => .num (JsonNumber.fromNat i) | none => .null),
        -- hypothesis of `C10_disabled_knob_never_changed`: the reloaded row was logged during this call
        ("tb_in_call", .bool (match tb with | some i => decide (log.length ≤ i) | none => true)),
        -- the flags in force during the call (after the per-call arguments, before the undo)
        ("vact_call", .str (flagsStr p.n (argState args s0).vAct)), ("tact_call", .str (flagsStr p.nt (argState args s0).tAct)),
        -- the numerics of every executed solver step replayed on doubles (`OptNum.clip`, `OptNum.trialPoint`)
        ("clip_ok", .bool numRes.1), ("trial_ok", .bool numRes.2.1), ("num_steps", .num (JsonNumber.fromNat numRes.2.2)),
        ("rows", .arr (newRows.map (fun rw => Json.mkObj [("knobs", vecJson p.n rw.knobs),
            ("vary_active", .str (flagsStr p.n rw.vAct)), ("target_active", .str (flagsStr p.nt rw.tAct))])).toArray)]
    | _, _, _, _ => Json.mkObj [("bad-op", .str "pre")]
  | _, _, _ => Json.mkObj [("bad-op", .str "line")]

end DOpt
