import Lean.Data.Json
import XModel.Opt
import XModel.Argmin
/-! Line-protocol suite `opt`: trace acceptance for `Optimize.solve / step / reload`.
    One line = one API call with the state the implementation was in before the call, the recorded
    user-function table and the solver's choice of evaluation points (the numerics are an oracle);
    the model of `XModel/Opt.lean`, instantiated with IEEE doubles, must end in the implementation's
    state: knobs, flags, appended log rows, exception kind. -/
namespace DOpt
open Lean Opt

def field (j : Json) (k : String) : Option Json := (j.getObjVal? k).toOption
def fieldStr (j : Json) (k : String) : Option String := (field j k).bind (fun v => v.getStr?.toOption)
def fieldBool (j : Json) (k : String) : Option Bool := (field j k).bind (fun v => v.getBool?.toOption)
def fieldArr (j : Json) (k : String) : Option (List Json) :=
  (field j k).bind (fun v => match v with | .arr a => some a.toList | _ => none)

def hexVal (c : Char) : Option Nat :=
  if '0' ≤ c ∧ c ≤ '9' then some (c.toNat - '0'.toNat)
  else if 'a' ≤ c ∧ c ≤ 'f' then some (c.toNat - 'a'.toNat + 10) else none

/-- a double from the hex of its little-endian bytes (`struct.pack('<d', x).hex()`) -/
def floatOfHex (s : String) : Option Float :=
  let cs := s.toList
  if cs.length ≠ 16 then none else
  let rec bytes : List Char → Option (List Nat)
    | a :: b :: rest => do
      let x ← hexVal a; let y ← hexVal b; let r ← bytes rest; pure ((x * 16 + y) :: r)
    | [] => some []
    | _ => none
  match bytes cs with
  | none => none
  | some bs =>
    -- little endian: first byte is least significant
    let n := bs.reverse.foldl (fun acc b => acc * 256 + b) 0
    some (Float.ofBits n.toUInt64)

def hexDigit (n : Nat) : Char := if n < 10 then Char.ofNat (48 + n) else Char.ofNat (87 + n)

def floatToHex (x : Float) : String :=
  let n := x.toBits.toNat
  let rec go (k : Nat) (n : Nat) (acc : List Char) : List Char :=
    match k with
    | 0 => acc
    | k+1 => let b := n % 256; go k (n / 256) (acc ++ [hexDigit (b / 16), hexDigit (b % 16)])
  String.ofList (go 8 n [])

def vecOfJson (j : Json) : Option (List Float) :=
  match j with
  | .arr a => a.toList.mapM (fun (x : Json) => x.getStr?.toOption.bind floatOfHex)
  | _ => none

def vecFn (l : List Float) : Nat → Float := fun i => l.getD i 0.0
def flagsFn (s : String) : Nat → Bool := fun i => (s.toList.getD i 'n') == 'y'
def vecJson (n : Nat) (f : Nat → Float) : Json := .arr ((List.range n).map (fun i => Json.str (floatToHex (f i)))).toArray
def flagsStr (n : Nat) (f : Nat → Bool) : String := String.ofList ((List.range n).map (fun i => if f i then 'y' else 'n'))

structure Problem where
  n : Nat
  nt : Nat
  weights : List Float
  limits : List (Option (Float × Float))
  tvalue : List Float
  ttol : List Float
  ftable : List (List UInt64 × Option (List Float))
  assertTol : Bool
  restore : Bool

def bitsOf (n : Nat) (k : Nat → Float) : List UInt64 := (List.range n).map (fun i => (k i).toBits)

def mkCfg (p : Problem) : Cfg Float where
  n := p.n
  mulW i x := x * p.weights.getD i 1.0
  divW i k := k / p.weights.getD i 1.0
  inLimits i v := match p.limits.getD i none with
    | none => true
    | some (lo, hi) => !(v < lo) && !(v > hi)
  f knobs := match p.ftable.find? (fun e => e.1 == bitsOf p.n knobs) with
    | some (_, some y) => some (vecFn y)
    | _ => none
  within res tAct := (List.range p.nt).all (fun i =>
    !(tAct i) || Float.abs (res i - p.tvalue.getD i 0.0) < p.ttol.getD i 0.0)
  assertWithinTol := p.assertTol
  restoreIfFail := p.restore

def rowOfJson (j : Json) : Option (Row Float) := do
  let k ← (field j "knobs").bind vecOfJson
  let va ← fieldStr j "vary_active"
  let ta ← fieldStr j "target_active"
  pure ⟨vecFn k, flagsFn va, flagsFn ta⟩

def iterOfJson (j : Json) : Option (Iter Float) := do
  let resync ← fieldBool j "resync"
  let early ← fieldBool j "early"
  let jac ← (fieldArr j "jac").bind (·.mapM vecOfJson)
  let trials ← (fieldArr j "trials").bind (·.mapM vecOfJson)
  let last ← (field j "last").bind vecOfJson
  let pe ← fieldBool j "pe"
  pure ⟨resync, early, jac.map vecFn, trials.map vecFn, vecFn last, pe⟩

def errName : Err → String
  | .limit => "limit" | .user => "user" | .noTol => "noTol" | .penalty => "penalty"

def problemOfJson (j : Json) : Option Problem := do
  let n ← (field j "n").bind (fun v => v.getNat?.toOption)
  let nt ← (field j "nt").bind (fun v => v.getNat?.toOption)
  let w ← (field j "weights").bind vecOfJson
  let lims ← (fieldArr j "limits").bind (·.mapM (fun (l : Json) => match l with
    | .null => some none
    | v => (vecOfJson v).bind (fun p => match p with | [a, b] => some (some (a, b)) | _ => none)))
  let tv ← (field j "tvalue").bind vecOfJson
  let tt ← (field j "ttol").bind vecOfJson
  let ft ← (fieldArr j "ftable").bind (·.mapM (fun (e : Json) => match e with
    | .arr a => (match a.toList with
      | [x, .null] => (vecOfJson x).map (fun x => (x.map Float.toBits, none))
      | [x, y] => do let x ← vecOfJson x; let y ← vecOfJson y; pure (x.map Float.toBits, some y)
      | _ => none)
    | _ => none))
  let at_ ← fieldBool j "assert"
  let rs ← fieldBool j "restore"
  pure ⟨n, nt, w, lims, tv, tt, ft, at_, rs⟩

def step (j : Json) : Json :=
  match (field j "problem").bind problemOfJson, field j "pre", field j "call" with
  | some p, some pre, some call =>
    let c := mkCfg p
    match (field pre "knobs").bind vecOfJson, fieldStr pre "vact", fieldStr pre "tact",
          (fieldArr pre "log").bind (·.mapM rowOfJson) with
    | some k, some va, some ta, some log =>
      let sx := ((field pre "solverx").bind vecOfJson).getD k
      let lw := (fieldBool pre "last_within").getD false
      let s0 : St Float := ⟨vecFn k, flagsFn va, flagsFn ta, vecFn sx, lw, log, vecFn sx, vecFn k, flagsFn ta⟩
      let kind := (fieldStr call "kind").getD ""
      let its := ((fieldArr call "its").bind (·.mapM iterOfJson)).getD []
      -- take_best: the reload index is np.argmin over the penalties logged during the call
      let tb : Option Nat := match (field call "pens").bind vecOfJson, (field call "log_start").bind (fun v => v.getNat?.toOption) with
        | some pens, some start =>
          if pens.isEmpty then none else
          let i := Argmin.argmin pens
          if i + 1 = pens.length then none else some (i + start)
        | _, _ => none
      let res : Except Err Unit × St Float :=
        if kind == "solve" then solve c its tb s0
        else if kind == "step" then optStep c its tb s0
        else if kind == "reload" then reload c ((field call "i").bind (fun v => v.getNat?.toOption) |>.getD 0) s0
        else if kind == "tag" then addPoint c s0
        else (.ok (), s0)
      let (r, s1) := res
      let newRows := s1.log.drop log.length
      Json.mkObj [("exc", .str (match r with | .ok _ => "ok" | .error e => errName e)),
        ("knobs", vecJson p.n s1.knobs), ("vact", .str (flagsStr p.n s1.vAct)), ("tact", .str (flagsStr p.nt s1.tAct)),
        ("last_within", .bool s1.lastWithin), ("take_best", match tb with | some i => .num (JsonNumber.fromNat i) | none => .null),
        -- hypothesis of `C10_disabled_knob_never_changed`: the reloaded row was logged during this call
        ("tb_in_call", .bool (match tb with | some i => decide (log.length ≤ i) | none => true)),
        ("rows", .arr (newRows.map (fun rw => Json.mkObj [("knobs", vecJson p.n rw.knobs),
            ("vary_active", .str (flagsStr p.n rw.vAct)), ("target_active", .str (flagsStr p.nt rw.tAct))])).toArray)]
    | _, _, _, _ => Json.mkObj [("bad-op", .str "pre")]
  | _, _, _ => Json.mkObj [("bad-op", .str "line")]

end DOpt
