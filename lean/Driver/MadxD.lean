import Lean.Data.Json
import XModel.Madx
/-! Line-protocol suite `madx`: lark's token stream → the model's parse tree. -/
namespace DMadx
open Lean Madx

def tokOfJson : Json → Option Tok
  | .arr a => match a.toList with
    | [.str "NUMBER", .str t] => some (.num t)
    | [.str "NAME", .str t] => some (.name t)
    | [.str _, .str "+"] => some .plus | [.str _, .str "-"] => some .minus
    | [.str _, .str "*"] => some .star | [.str _, .str "/"] => some .slash
    | [.str _, .str "^"] => some .pow | [.str _, .str "**"] => some .pow
    | [.str _, .str "("] => some .lpar | [.str _, .str ")"] => some .rpar
    | [.str _, .str ","] => some .comma | [.str _, .str "->"] => some .arrow
    | [.str _, .str "="] => some .assign
    | _ => none
  | _ => none

partial def treeJson : MTree → Json
  | .number t => .arr #[.str "number", .str t]
  | .neg a => .arr #[.str "neg", treeJson a]
  | .pos a => .arr #[.str "pos", treeJson a]
  | .var n => .arr #[.str "var", .str n]
  | .getitem e k => .arr #[.str "getitem", .str e, .str k]
  | .call f args => .arr (#[.str "call", .str f] ++ (args.map treeJson).toArray)
  | .add l r => .arr #[.str "add", treeJson l, treeJson r]
  | .sub l r => .arr #[.str "sub", treeJson l, treeJson r]
  | .mul l r => .arr #[.str "mul", treeJson l, treeJson r]
  | .div l r => .arr #[.str "div", treeJson l, treeJson r]
  | .pow l r => .arr #[.str "pow", treeJson l, treeJson r]

def step (j : Json) : Json :=
  match (j.getObjVal? "tokens").toOption with
  | some (.arr toks) =>
    (match toks.toList.mapM tokOfJson with
     | some ts => (match parse ts with
       | some t => Json.mkObj [("tree", treeJson t)]
       | none => Json.mkObj [("tree", .null)])
     | none => Json.mkObj [("bad-op", .str "token")])
  | _ => Json.mkObj [("skip", .bool true)]

end DMadx
