import Lean.Data.Json
import XModel.Madx
import XModel.MadxAssign
import Driver.OptD
/-! Line-protocol suite `madx`: lark's token stream → the model's parse tree; for statement lists
    (`stmt_tokens`): the values of the assigned variables after the statements and after every later plain update,
    under the deferred and the immediate semantics of `XModel/MadxAssign.lean`, over IEEE doubles. -/
namespace DMadx
open Lean Madx

def tokOfJson : Json → Option Tok
  | .arr a => match a.toList with
    | [.str "NUMBER", .str t] => some (.num t)
    | [.str "NAME", .str t] => some (.name t)
    | [.str _, .str "+"] => some .plus | [.str _, .str "-"] => some .minus
    | [.str _, .str "*"] => some .star | [.str _, .str "/"] => some .slash
    | [.str _, .str "^"] => some .pow | [.str _, .str "**"] => some .pow
    | [.str _, .str "("] => some .lpar | [.str _, .str ")"] => some .rpar
    | [.str _, .str ","] => some .comma | [.str _, .str "->"] => some .arrow
    | [.str _, .str "="] => some .assign
    | _ => none
  | _ => none

partial def treeJson : MTree → Json
  | .number t => .arr #[.str "number", .str t]
  | .neg a => .arr #[.str "neg", treeJson a]
  | .pos a => .arr #[.str "pos", treeJson a]
  | .var n => .arr #[.str "var", .str n]
  | .getitem e k => .arr #[.str "getitem", .str e, .str k]
  | .call f args => .arr (#[.str "call", .str f] ++ (args.map treeJson).toArray)
  | .add l r => .arr #[.str "add", treeJson l, treeJson r]
  | .sub l r => .arr #[.str "sub", treeJson l, treeJson r]
  | .mul l r => .arr #[.str "mul", treeJson l, treeJson r]
  | .div l r => .arr #[.str "div", treeJson l, treeJson r]
  | .pow l r => .arr #[.str "pow", treeJson l, treeJson r]

/-! ### the value algebra of the statement op: Python's float operators and the `math` functions the generator uses -/

/-- `n × 2^e2`, rounded to nearest even (`sticky`: the true value is a little larger; `n` has more than 53 bits then) -/
def roundNat (n : Nat) (sticky : Bool) (e2 : Int) : Float :=
  let len := if n = 0 then 0 else n.log2 + 1
  if len ≤ 53 then (Float.ofNat n).scaleB e2
  else
    let sh := len - 53
    let top := n >>> sh
    let rem := n % (2 ^ sh)
    let half := 2 ^ (sh - 1)
    let up := rem > half || (rem == half && (sticky || top % 2 == 1))
    (Float.ofNat (if up then top + 1 else top)).scaleB (e2 + sh)

/-- `m × 10^e10` correctly rounded (Python's `float(text)`) -/
def decimalToFloat (m : Nat) (e10 : Int) : Float :=
  if e10 ≥ 0 then roundNat (m * 10 ^ e10.toNat) false 0
  else
    let d := 10 ^ (-e10).toNat
    let s := 64 + d.log2 + 1
    roundNat ((m <<< s) / d) ((m <<< s) % d != 0) (-(s : Int))

def digitsVal (cs : List Char) : Nat := cs.foldl (fun a c => a * 10 + (c.toNat - 48)) 0

/-- the forms of lark's `common.NUMBER`: digits, optional `.`, digits, optional exponent -/
def numberOfText (s : String) : Option Float :=
  let cs := s.toList
  let (ip, r1) := cs.span Char.isDigit
  let (fp, r2) := match r1 with
    | '.' :: r => r.span Char.isDigit
    | r => ([], r)
  if (ip ++ fp).isEmpty then none else
  let e10 : Option Int := match r2 with
    | [] => some 0
    | c :: r =>
      if c == 'e' || c == 'E' then
        let (neg, r) := match r with
          | '-' :: r => (true, r)
          | '+' :: r => (false, r)
          | r => (false, r)
        if r.isEmpty || !r.all Char.isDigit then none
        else some (if neg then -(digitsVal r : Int) else (digitsVal r : Int))
      else none
  e10.map (fun e => decimalToFloat (digitsVal (ip ++ fp)) (e - fp.length))

/-- `math_1` of `mathmodule.c`: a NaN from a number, or an infinity from a finite number, is an error -/
def math1 (fn : Float → Float) (canOverflow : Bool) (x : Float) : Except MErr Float :=
  let r := fn x
  if r.isNaN && !x.isNaN then .error (.other "ValueError")
  else if r.isInf && x.isFinite then .error (.other (if canOverflow then "OverflowError" else "ValueError"))
  else .ok r

/-- `float.__pow__` where the result is a float: `0 ** negative` raises `ZeroDivisionError`, an overflow raises; a
    negative base with a fractional exponent is complex in Python — not a value of this algebra -/
def pyPow (a b : Float) : Except MErr Float :=
  if a == 0.0 && b < 0.0 then .error .zeroDiv
  else if a < 0.0 && a.isFinite && b.isFinite && b.floor != b then .error (.other "unsupported")
  else
    let r := Float.pow a b
    if r.isInf && a.isFinite && b.isFinite then .error (.other "OverflowError") else .ok r

/-- the algebra without variables (they come from the environment of `MadxAssign`): a name no environment holds is
    `MadxEval.var`'s exception -/
def floatOps (elems : List ((String × String) × Float)) : Ops Float where
  number := fun t => (numberOfText t).getD (0.0 / 0.0)
  add := fun a b => .ok (a + b)
  sub := fun a b => .ok (a - b)
  mul := fun a b => .ok (a * b)
  div := fun a b => if b == 0.0 then .error .zeroDiv else .ok (a / b)
  pow := pyPow
  neg := fun a => .ok (-a)
  pos := fun a => .ok a
  var := fun _ => .error (.other "Exception")
  getitem := fun e k => match elems.lookup (e, k) with
    | some v => .ok v
    | none => .error (.other "KeyError")
  call := fun f xs => match f, xs with
    | "sin", [x] => math1 Float.sin false x
    | "cos", [x] => math1 Float.cos false x
    | "sqrt", [x] => math1 Float.sqrt false x
    | "exp", [x] => math1 Float.exp true x
    | "fabs", [x] => .ok x.abs
    | "atan2", [y, x] => .ok (Float.atan2 y x)
    | _, _ => .error (.other "unsupported")
  nan := 0.0 / 0.0

def envOfList (l : List (String × Float)) : Env Float := fun y => l.lookup y

def valJson (x : Float) : Json := if x.isNaN then .str "nan" else .str (DOpt.floatToHex x)

def errName : MErr → String
  | .zeroDiv => "ZeroDivisionError"
  | .other s => s

/-- what the assigned variables hold -/
def envJson (targets : List String) : Except MErr (Env Float) → Json
  | .error e => Json.mkObj [("exc", .str (errName e))]
  | .ok env => Json.mkObj [("ok", Json.mkObj (targets.map (fun t => (t, match env t with
      | some v => valJson v
      | none => .null))))]

def pairsOfJson (j : Json) : Option (List (String × Float)) :=
  match j with
  | .arr a => a.toList.mapM (fun p => match p with
    | .arr q => (match q.toList with
      | [.str n, .str h] => (DOpt.floatOfHex h).map (fun x => (n, x))
      | _ => none)
    | _ => none)
  | _ => none

def elemsOfJson (j : Json) : Option (List ((String × String) × Float)) :=
  match j with
  | .arr a => a.toList.mapM (fun p => match p with
    | .arr q => (match q.toList with
      | [.str e, .str k, .str h] => (DOpt.floatOfHex h).map (fun x => ((e, k), x))
      | _ => none)
    | _ => none)
  | _ => none

def stmtsOfJson (j : Json) : Option (List (List Tok)) :=
  match j with
  | .arr a => a.toList.mapM (fun s => match s with
    | .arr toks => toks.toList.mapM tokOfJson
    | _ => none)
  | _ => none

def numbersOK (ts : List Tok) : Bool :=
  ts.all (fun t => match t with
    | .num s => (numberOfText s).isSome
    | _ => true)

/-- one statement list: `runDef` then `DState.update` per later update on one side, `runImm` re-run from scratch on the
    updated plain values on the other — the two sides of `C19_assign_deferred_eq_immediate` / `_follows_updates`;
    `wo` is the scope test `WellOrdered` of those theorems -/
def assignStep (j : Json) (stmtToks : List (List Tok)) : Json :=
  match (j.getObjVal? "plain").toOption.bind pairsOfJson, (j.getObjVal? "elems").toOption.bind elemsOfJson,
        (j.getObjVal? "updates").toOption.bind pairsOfJson with
  | some plainL, some elems, some updates =>
    if !stmtToks.all numbersOK then Json.mkObj [("bad-op", .str "number")] else
    match stmtToks.mapM parseStmt with
    | none => Json.mkObj [("assign", Json.mkObj [("parsed", .bool false)])]
    | some ss =>
      let ops := floatOps elems
      let plain := envOfList plainL
      let targets := (assigned ss).eraseDups
      let st0 := runDef ops ⟨plain, []⟩ ss
      -- the prefixes of the update list
      let steps := (List.range (updates.length + 1)).map (fun k =>
        let us := updates.take k
        let d := st0.bind (fun st => (st.updates us).env ops)
        let i := runImm ops (plain.sets us) ss
        Json.mkObj [("def", envJson targets d), ("imm", envJson targets i)])
      Json.mkObj [("assign", Json.mkObj [("parsed", .bool true), ("wo", .bool (WellOrdered ss)),
        ("updates_outside_assigned", .bool (updates.all (fun u => !(assigned ss).contains u.1))),
        ("targets", .arr (targets.map Json.str).toArray), ("steps", .arr steps.toArray)])]
  | _, _, _ => Json.mkObj [("bad-op", .str "assign-fields")]

def step (j : Json) : Json :=
  match (j.getObjVal? "stmt_tokens").toOption with
  | some (.arr a) =>
    (match stmtsOfJson (.arr a) with
     | some st => assignStep j st
     | none => Json.mkObj [("bad-op", .str "token")])
  | _ =>
  match (j.getObjVal? "tokens").toOption with
  | some (.arr toks) =>
    (match toks.toList.mapM tokOfJson with
     | some ts => (match parse ts with
       | some t => Json.mkObj [("tree", treeJson t)]
       | none => Json.mkObj [("tree", .null)])
     | none => Json.mkObj [("bad-op", .str "token")])
  | _ => Json.mkObj [("skip", .bool true)]

end DMadx
