import Lean.Data.Json
import XModel.Table
import XModel.TableExpr
/-! Line-protocol suite `table`: replays table histories on `XModel.Table`. -/
namespace DTable
open Lean TableM Cache

def field (j : Json) (k : String) : Option Json := (j.getObjVal? k).toOption
def fieldStr (j : Json) (k : String) : Option String := (field j k).bind (fun v => v.getStr?.toOption)

def cellOfJson : Json → Option Cell
  | .str s => some (.str s)
  | .num n => if n.exponent = 0 then some (.int n.mantissa) else none
  | .obj kvs => match kvs.toList with
    | [("f", .str tok)] => some (.flt tok)
    | _ => none
  | _ => none

def cellToJson : Cell → Json
  | .str s => .str s
  | .int i => .num (JsonNumber.fromInt i)
  | .flt tok => Json.mkObj [("f", .str tok)]

def cellsOfJson : Json → Option (List Cell)
  | .arr a => a.toList.mapM cellOfJson
  | _ => none

def intOf : Json → Option Int
  | .num n => if n.exponent = 0 then some n.mantissa else none
  | _ => none

def rowOfJson : Json → Option Row
  | .str s => some (.name s)
  | .num n => if n.exponent = 0 then some (.pos n.mantissa) else none
  | .arr a => match a.toList with
    | [.str "t", .str n, c] => (intOf c).map (fun c => Row.tup n c none)
    | [.str "t", .str n, c, o] => do let c ← intOf c; let o ← intOf o; pure (Row.tup n c (some o))
    | _ => none
  | _ => none

def boundOfJson : Json → Option Bound
  | .null => some .none
  | .str s => some (.str s)
  | .num n => if n.exponent = 0 then some (.int n.mantissa) else none
  | _ => none

partial def selOfJson : Json → Option Sel
  | .arr a => match a.toList with
    | [.str "pos", i] => (intOf i).map Sel.pos
    | [.str "ints", .arr l] => (l.toList.mapM intOf).map Sel.ints
    | [.str "bools", .arr l] => (l.toList.mapM (fun (b : Json) => b.getBool?.toOption)).map Sel.bools
    | [.str "names", .arr l] => (l.toList.mapM (fun (b : Json) => b.getStr?.toOption)).map Sel.names
    | [.str "pat", .str s] => some (.pattern s)
    | [.str "slice", x, y, z] => do
        let x ← boundOfJson x; let y ← boundOfJson y; let z ← boundOfJson z; pure (.slice x y z)
    | [.str "all"] => some .all
    | [.str "tuple", .arr l] => (l.toList.mapM selOfJson).map Sel.tuple
    | _ => none
  | _ => none

/-- a bound of a value range `lo:hi:'col'`: absent, an integer, or a float — a JSON number with a fraction (kept as the
    token `<mantissa>e-<digits>`, which `TableM.parseNum` reads back exactly) or `{"f": "<repr>"}` (`nan`, `inf`, `-inf`);
    `none` for a string (a name span, not a value range) -/
def rangeBoundOfJson : Json → Option (Option Cell)
  | .null => some none
  | .num n => if n.exponent = 0 then some (some (.int n.mantissa))
              else some (some (.flt (toString n.mantissa ++ "e-" ++ toString n.exponent)))
  | .obj kvs => match kvs.toList with
    | [("f", .str tok)] => some (some (.flt tok))
    | _ => none
  | _ => none

def isIntBound : Option Cell → Bool
  | none => true
  | some (.int _) => true
  | _ => false

/-- every cell of the column is an integer (an unknown column: left to the selector, a `KeyError`) -/
def intColumn (t : Tbl) (c : String) : Bool :=
  match t.col c with
  | some col => col.all (fun x => match x with | .int _ => true | _ => false)
  | none => true

/-- selectors read against the table they will be applied to: a value range whose column or bounds are not all integers
    is the general selector `Sel.range` (`valueRangeF`, XModel/TableRangeF.lean); integer bounds on an integer column stay
    the slice selector (`valueRange`) — the two agree there (`TableM.getRowIndices_slice_eq_range`).  Inside a tuple the
    later selectors meet a view of the same columns, so the kind of a column is that of the table's -/
partial def selOfJsonT (t : Tbl) (j : Json) : Option Sel :=
  match j with
  | .arr a => (match a.toList with
    | [.str "slice", x, y, .str c] =>
      (match rangeBoundOfJson x, rangeBoundOfJson y with
       | some lo, some hi =>
         if isIntBound lo && isIntBound hi && intColumn t c then selOfJson j else some (.range lo hi c)
       | _, _ => selOfJson j)
    | [.str "tuple", .arr l] => (l.toList.mapM (selOfJsonT t)).map Sel.tuple
    | _ => selOfJson j)
  | _ => selOfJson j

/-- the regex oracle: `match[selector][rowname]`, false when absent -/
def matchOf (j : Json) : String → Match := fun sel name =>
  match field j "match" with
  | some mj => (match field mj sel with
    | some tbl => (match field tbl name with | some (.bool b) => b | _ => false)
    | none => false)
  | none => false

def excJson {α} : Except TErr α → Json
  | .ok _ => .str "ok"
  | .error e => .str e.name

def stateJson (t : Tbl) : List (String × Json) :=
  [("index", .arr (t.indexCol.map Json.str).toArray), ("cols", .arr (t.colNames.map Json.str).toArray),
   ("nrows", .num (JsonNumber.fromNat t.nrows)), ("cached", .bool t.cache.isSome)]

def out (t : Tbl) (exc : Json) (val : Json) : Tbl × Json :=
  (t, Json.mkObj ([("exc", exc), ("val", val)] ++ stateJson t))

def bad (t : Tbl) (why : String) : Tbl × Json := (t, Json.mkObj [("bad-op", .str why)])

def emptyTbl : Tbl := { index := "name", colNames := [], data := [], cache := none }

def intsJson (l : List Int) : Json := .arr (l.map (fun i => Json.num (JsonNumber.fromInt i))).toArray

/-- column expressions: `["col", name] | ["lit", k] | ["add", a, b] | ["sub", a, b] | ["mul", a, b] | ["neg", a]` -/
partial def cexprOfJson (j : Json) : Option CExpr :=
  match j with
  | .arr a => (match a.toList with
    | [.str "col", .str n] => some (.col n)
    | [.str "lit", x] => (x.getInt?.toOption).map CExpr.lit
    | [.str "add", x, y] => do let x ← cexprOfJson x; let y ← cexprOfJson y; pure (.add x y)
    | [.str "sub", x, y] => do let x ← cexprOfJson x; let y ← cexprOfJson y; pure (.sub x y)
    | [.str "mul", x, y] => do let x ← cexprOfJson x; let y ← cexprOfJson y; pure (.mul x y)
    | [.str "neg", x] => (cexprOfJson x).map CExpr.neg
    | _ => none)
  | _ => none

def colsOfJson (cols : Array Json) : Option (List (String × List Cell)) :=
  cols.toList.mapM (fun (c : Json) => match c with
    | .arr p => (match p.toList with
      | [.str n, vs] => (cellsOfJson vs).map (fun v => (n, v))
      | _ => none)
    | _ => none)

/-- `{"op": "new", "via_derive": ["mul", k] | ["add_self"] | ["copy"], "cols": …}`: the implementation replaced the table in
    use by a derivation of itself.  The model applies ITS OWN derivation (`mulT` / `addT t t` / `copyT`, the functions of
    `XModel/TableDerivHist.lean`'s `applyDOp`) to ITS current table — so a cache built by earlier look-ups is in play
    exactly as in the theorems — and checks the listed columns of the result (names and cells, not their order) against the
    `cols` the harness computed from the implementation's source table.  A difference is reported as `derive_diverges` (and as a non-null `val`, which
    the comparison sees: the implementation's `val` of a `new` line is null); the state compared afterwards is the
    usual one.  Lines of histories the model does not follow (`oracle_only`) are left to the plain `new` branch. -/
def viaDerive (t : Tbl) (j : Json) : Option (Tbl × Json) :=
  match fieldStr j "op", field j "via_derive", field j "oracle_only" with
  | some "new", some (.arr how), none =>
    let derived : Except String (Except TErr Tbl) :=
      match how.toList with
      | [.str "mul", k] => (match k.getNat?.toOption with
        | some k => .ok (mulT t k)
        | none => .error "via_derive mul")
      | [.str "add_self"] => .ok (addT t t)
      | [.str "copy"] => .ok (.ok (copyT t))
      | _ => .error "via_derive"
    match derived with
    | .error why => some (bad t why)
    | .ok (.error e) => some (out t (.str e.name) .null)
    | .ok (.ok r) =>
      match field j "cols" with
      | some (.arr cols) =>
        (match colsOfJson cols with
         | none => some (bad t "new cols")
         | some cs =>
           let mine := r.colNames.map (fun c => (c, (r.col c).getD []))
           -- column by column, not in order: the harness presents `del t[c]; t[c] = …` to the model as ONE column
           -- assignment, so the ORDER of the listed columns may differ (C07 does not observe `cols`)
           let same := mine.length == cs.length && cs.all (fun p => r.colNames.contains p.1 && r.col p.1 == some p.2) &&
             mine.all (fun p => lookupA cs p.1 == some p.2)
           if same && fieldStr j "index" == some r.index then some (out r (.str "ok") .null)
           else
             let shown := Json.arr (mine.map (fun p => Json.arr #[.str p.1, .arr (p.2.map cellToJson).toArray])).toArray
             let d := Json.mkObj [("derive_diverges", Json.mkObj [("index", .str r.index), ("model_cols", shown)])]
             let (r', o) := out r (.str "ok") d
             some (r', o.setObjVal! "derive_diverges" (.bool true)))
      | _ => some (bad t "new")
  | _, _, _ => none

def step (t : Tbl) (j : Json) : Tbl × Json :=
  match viaDerive t j with
  | some res => res
  | none =>
  match fieldStr j "op" with
  | some "new" =>
    match fieldStr j "index", field j "cols" with
    | some idx, some (.arr cols) =>
      (match cols.toList.mapM (fun (c : Json) => match c with
          | .arr p => (match p.toList with
            | [.str n, vs] => (cellsOfJson vs).map (fun v => (n, v))
            | _ => none)
          | _ => none) with
       | some cs =>
         let t1 : Tbl := { index := idx, colNames := cs.map (·.1), data := cs, cache := none }
         out t1 (.str "ok") .null
       | none => bad t "new cols")
    | _, _ => bad t "new"
  | some "setcol" =>
    match fieldStr j "name", (field j "vals").bind cellsOfJson with
    | some n, some vs => let (t1, r) := setCol t n vs; out t1 (excJson r) .null
    | _, _ => bad t "setcol"
  | some "setcell" =>
    match fieldStr j "col", (field j "row").bind rowOfJson, (field j "val").bind cellOfJson with
    | some c, some r, some v => let (t1, x) := setCell t c r v; out t1 (excJson x) .null
    | _, _, _ => bad t "setcell"
  | some "delcol" =>
    match fieldStr j "name" with
    | some n => let (t1, x) := delCol t n; out t1 (excJson x) .null
    | none => bad t "delcol"
  | some "lookup" =>
    match fieldStr j "api", (field j "row").bind rowOfJson with
    | some "getitem", some r =>
      (match fieldStr j "col" with
       | some c =>
         let (t1, x) := getCell t c r
         out t1 (excJson x) (match x with | .ok v => cellToJson v | .error _ => .null)
       | none => bad t "lookup col")
    | some _, some r =>
      let (t1, x) := getRowIndex t r
      out t1 (excJson x) (match x with | .ok i => .num (JsonNumber.fromInt i) | .error _ => .null)
    | _, _ => bad t "lookup"
  | some "labels" => out t (.str "ok") (.arr ((uniqueLabels t).map Json.str).toArray)
  | some "colexpr" =>
    -- `t['a+2*b']`: the model of XModel/TableExpr.lean (integer columns, + - * and unary minus)
    match (field j "expr").bind cexprOfJson with
    | some e =>
      let x := getExpr t e
      out t (excJson x) (match x with | .ok v => .arr (v.map cellToJson).toArray | .error _ => .null)
    | none => bad t "colexpr"
  | some "indices" =>
    match (field j "sel").bind (selOfJsonT t) with
    | some s =>
      let (t1, x) := indicesOf t (matchOf j) s
      out t1 (excJson x) (match x with | .ok l => intsJson l | .error _ => .null)
    | none => bad t "indices sel"
  | some "mask" =>
    match (field j "sel").bind (selOfJsonT t) with
    | some s =>
      let (t1, x) := maskOf t (matchOf j) s
      out t1 (excJson x) (match x with | .ok l => .arr (l.map Json.bool).toArray | .error _ => .null)
    | none => bad t "mask sel"
  | some "rows" =>
    match (field j "sel").bind (selOfJsonT t) with
    | some s =>
      let (t1, x) := rowsOf t (matchOf j) s
      out t1 (excJson x) (match x with
        | .ok r => Json.mkObj [("index", .arr (r.indexCol.map Json.str).toArray),
                               ("n", .num (JsonNumber.fromNat r.nrows))]
        | .error _ => .null)
    | none => bad t "rows sel"
  | some "derive" =>
    -- a chain of derivations starting from the current table; the source must come out unchanged
    match field j "steps" with
    | some (.arr steps) =>
      let rec go (cur : Tbl) : List Json → Except String (Except TErr Tbl)
        | [] => .ok (.ok cur)
        | st :: rest =>
          match st with
          | .arr a =>
            (match a.toList with
             | [.str "rows", sj] =>
               (match selOfJsonT cur sj with
                | some sel => (match (rowsOf cur (matchOf j) sel).2 with
                  | .ok r => go r rest
                  | .error e => .ok (.error e))
                | none => .error "sel")
             | [.str "cols", .arr ns] =>
               (match ns.toList.mapM (fun (x : Json) => x.getStr?.toOption) with
                | some names => (match selectCols cur names with | .ok r => go r rest | .error e => .ok (.error e))
                | none => .error "cols")
             | [.str "copy"] => go (copyT cur) rest
             | [.str "mul", k] => (match k.getNat?.toOption with
                | some k => (match mulT cur k with | .ok r => go r rest | .error e => .ok (.error e))
                | none => .error "mul")
             | [.str "add_source"] => (match addT cur t with | .ok r => go r rest | .error e => .ok (.error e))
             | [.str "add_self"] => (match addT cur cur with | .ok r => go r rest | .error e => .ok (.error e))
             | [.str "transpose"] => go (transposeT cur) rest
             | [.str "concatenate"] => (match concatT [cur, cur] with | .ok r => go r rest | .error e => .ok (.error e))
             | _ => .error "step")
          | _ => .error "step"
      match go t steps.toList with
      | .error why => bad t why
      | .ok (.error e) => out t (.str e.name) .null
      | .ok (.ok r) =>
        out t (.str "ok") (Json.mkObj [("cols", .arr (r.colNames.map Json.str).toArray), ("nrows", .num (JsonNumber.fromNat r.nrows)),
          ("index", .arr (r.indexCol.map Json.str).toArray), ("rect", .bool (rectB r)),
          ("cells", .arr (r.colNames.map (fun c => Json.arr (((r.col c).getD []).map cellToJson).toArray)).toArray)])
    | _ => bad t "derive"
  | _ => bad t "unknown op"

end DTable
