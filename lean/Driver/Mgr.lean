import Driver.Codec
import XModel.ManagerC18Expr
/-! Line-protocol suite `mgr`: replays a manager history on `XModel.Manager`. -/
namespace DMgr
open Lean Store Push Index Manager Codec

def excJson : Option Err → Json
  | none => .str "ok"
  | some e => .str (errName e)

def supJson (d : DD Path Path) : Json :=
  .arr ((support d).map (fun r => Json.arr #[pathToJson r.1, .arr (r.2.map pathToJson).toArray])).toArray

def defsJson (defs : List MTask) : Json :=
  .arr (defs.map (fun t => match t.kind with
    | .expr e => Json.arr #[pathToJson t.id, .str "expr", exprToJson e]
    | .func _ => Json.arr #[pathToJson t.id, .str "func", .null]
    | .knob _ _ _ => Json.arr #[pathToJson t.id, .str "knob", .null])).toArray

def traceJson (tr : List (Bool × Path)) : Json :=
  .arr (tr.map (fun e => Json.arr #[.str (if e.1 then "w" else "a"), pathToJson e.2])).toArray

def obs (s : MState) (x : Option Err) (extra : List (String × Json)) : Json :=
  Json.mkObj ([("exc", excJson x), ("store", valToJson s.store), ("defs", defsJson s.defs),
    ("sup", Json.mkObj [("rdeps", supJson s.idx.rdeps), ("rtasks", supJson s.idx.rtasks),
                        ("deptasks", supJson s.idx.deptasks), ("tartasks", supJson s.idx.tartasks)]),
    ("frozen", .bool s.frozen),
    ("trace", traceJson s.trace)] ++ extra)

/-- the scheduler handed to the model: the implementation's order when it is a legal schedule -/
def mkSched (π : Option (List Path)) (m : Mgr Path Path) (startDeps : List Path) : Sched × String :=
  match π with
  | none => (id, "none")
  | some π => if validSchedule m startDeps π then ((fun _ => π), "ok") else (id, "bad")

/-- the index state at the moment `set_value` calls `find_tasks`: after unregister/register -/
def idxAtRun (s : MState) (p : Path) (newExpr : Option Expr) : Mgr Path Path :=
  let s0 := match lookDef s.defs p with
    | some _ => (unregister s p).1
    | none => s
  match newExpr with
  | some e => (register s0 (mkExprTask p e)).1.idx
  | none => s0.idx

def hypJson (s : MState) (m : Mgr Path Path) (p : Path) : Json :=
  Json.mkObj [("acyclic", .bool (acyclicFrom m (startOf m (chainR p)))),
              ("h2", .bool (targetsIncomparable s.defs)), ("clear", .bool (assignClear s.defs p)),
              ("h3", .bool (noSelfRead s.defs))]

/-- the expression (if any) that `ref ⊕= operand` ends up registering -/
def iopExpr (s : MState) (op : String) (p : Path) (operand : Expr) : Option Expr :=
  match exprOf s p with
  | some e => some (.bin op e operand)
  | none =>
    match operand with
    | .lit _ => none
    | _ => (match get s.store p with
            | .ok old => some (.bin op (.lit old) operand)
            | .error _ => none)

def orderOf (j : Json) : Option (List Path) := fieldPaths j "order"

def bad (s : MState) (why : String) : MState × Json := (s, Json.mkObj [("bad-op", .str why)])

def step (s0 : MState) (j : Json) : MState × Json :=
  let s := { s0 with trace := [] }
  match fieldStr j "op" with
  | some "reset" => (MState.init, Json.mkObj [("exc", .str "ok")])
  | some "container" =>
    match fieldStr j "label", (field j "value").bind valOfJson with
    | some l, some v =>
      (match s.store with
       | .dict kvs => let s1 := { s with store := .dict (KVs.update kvs (.str l) v) }; (s1, obs s1 none [])
       | _ => bad s "root")
    | _, _ => bad s "container"
  | some "resync" =>
    match (field j "store").bind valOfJson with
    | some v => let s1 := { s with store := v }; (s1, obs s1 none [])
    | none => bad s "resync"
  | some "fault" =>
    match fieldNat j "k" with
    | some k => let s1 := { s with faultIn := some k }; (s1, obs s1 none [])
    | none => bad s "fault"
  | some "set" =>
    match (field j "path").bind pathOfJson, (field j "value").bind valOfJson with
    | some p, some v =>
      let m := idxAtRun s p none
      let (sched, verdict) := mkSched (orderOf j) m (chainR p)
      let (s1, x) := setValue sched s p v
      let s2 := { s1 with faultIn := none }
      (s2, obs s2 x [("sched", .str verdict), ("hyp", hypJson s2 m p),
                     ("scope", .bool (callScopeB sched s (.setValue p v))),
                     -- the one-call hypothesis of `C01_histories_function_tasks` (mixed expression / function tasks)
                     ("scope_f", .bool (callOKFB sched s (.setValue p v) || ((lookDef s.defs p).isNone && scopeFB s p &&
                        validSchedule s.idx (chainR p) (sched (findTaskids s.idx (chainR p))) && x.isNone))),
                     -- the one-call hypotheses of `C01_mixed_knobs_and_expressions` that do not need the knobs' bases: the state
                     -- holds a linear knob, `mixedScopeB`, the value is an int, the location has no definition, the schedule
                     -- is legal, the call completed
                     ("scope_m", .bool (s.defs.any isKnobB && mixedScopeB s p && (lookDef s.defs p).isNone &&
                        (match v with | .int _ => true | _ => false) &&
                        validSchedule s.idx (chainR p) (sched (findTaskids s.idx (chainR p))) && x.isNone)),
                     ("order", .arr ((findTaskids m (chainR p)).map pathToJson).toArray)])
    | _, _ => bad s "set"
  | some "setexpr" =>
    match (field j "path").bind pathOfJson, (field j "expr").bind exprOfJson with
    | some p, some e =>
      let m := idxAtRun s p (some e)
      let (sched, verdict) := mkSched (orderOf j) m (chainR p)
      let (s1, x) := setExpr sched s p e
      let s2 := { s1 with faultIn := none }
      (s2, obs s2 x [("sched", .str verdict), ("hyp", hypJson s2 m p),
                     ("scope", .bool (callScopeB sched s (.setExpr p e))),
                     ("scope_f", .bool (callOKFB sched s (.setExpr p e))),
                     -- C18, expression assignment under an armed fault: the decidable hypotheses of
                     -- `C18_recover_expression_assignment` about the faulty attempt (`exprFaultScopeB`); `fault_armed` says
                     -- whether a fault was armed for this line at all
                     ("fault_armed", .bool s.faultIn.isSome),
                     ("scope_e18", .bool (s.faultIn.isSome && exprFaultScopeB sched s p e)),
                     ("order", .arr ((findTaskids m (chainR p)).map pathToJson).toArray)])
    | _, _ => bad s "setexpr"
  | some "iop" =>
    match fieldStr j "iop", (field j "path").bind pathOfJson, (field j "operand").bind exprOfJson with
    | some op, some p, some operand =>
      let newE : Option Expr := iopExpr s op p operand
      let m := idxAtRun s p newE
      let (sched, verdict) := mkSched (orderOf j) m (chainR p)
      let (s1, x) := inplace sched s op p operand
      let s2 := { s1 with faultIn := none }
      (s2, obs s2 x [("sched", .str verdict), ("hyp", hypJson s2 m p),
                     ("scope", .bool (callScopeB sched s (.inplace op p operand))),
                     ("scope_f", .bool (callOKFB sched s (.inplace op p operand)))])
    | _, _, _ => bad s "iop"
  | some "genfun" =>
    match fieldArr j "args" with
    | some args =>
      (match args.mapM (fun (a : Json) => match a with
          | .arr p => (match p.toList with
            | [pth, v] => do let pth ← pathOfJson pth; let v ← valOfJson v; pure (pth, v)
            | _ => none)
          | _ => none) with
       | some args =>
         let startDeps := args.flatMap (fun a => chainR a.1)
         let (sched, verdict) := mkSched (orderOf j) s.idx startDeps
         let (s1, x) := execGen sched s args
         (s1, obs s1 x [("sched", .str verdict),
                        ("scope", .bool (genScopeB s args && validSchedule s.idx startDeps (sched (findTaskids s.idx startDeps)))),
                        ("order", .arr ((findTaskids s.idx startDeps).map pathToJson).toArray)])
       | none => bad s "genfun args")
    | none => bad s "genfun"
  | some "unregister" =>
    match (field j "id").bind pathOfJson with
    | some id => let (s1, x) := unregister s id; (s1, obs s1 x [])
    | none => bad s "unregister"
  | some "regfunc" =>
    match (field j "id").bind pathOfJson, fieldArr j "body", fieldPaths j "deps", fieldPaths j "tars" with
    | some id, some body, some deps, some tars =>
      (match body.mapM (fun b => match b with
          | .arr a => (match a.toList with
            | [p, e] => do let p ← pathOfJson p; let e ← exprOfJson e; pure (p, e)
            | _ => none)
          | _ => none) with
       | some body =>
         let (s1, x) := register s ⟨id, .func body, uniq deps, uniq tars⟩
         (s1, obs s1 x [])
       | none => bad s "regfunc body")
    | _, _, _, _ => bad s "regfunc"
  | some "regknob" =>
    match (field j "id").bind pathOfJson, (field j "src").bind pathOfJson, fieldArr j "ws",
          fieldPaths j "tars", fieldPaths j "alltars" with
    | some id, some src, some ws, some tars, some alltars =>
      (match ws.mapM (fun w => w.getInt?.toOption) with
       | some ws =>
         -- `LinearKnob.__init__` reads the source first
         (match get s.store src with
          | .error e => (s, obs s (some e) [])
          | .ok _ =>
            let (s1, x) := register s ⟨id, .knob src ws tars, [src], uniq alltars⟩
            (s1, obs s1 x []))
       | none => bad s "regknob ws")
    | _, _, _, _, _ => bad s "regknob"
  | some "refresh" => let (s1, x) := refresh s; (s1, obs s1 x [])
  | some "cleanup" => let s1 := cleanup s; (s1, obs s1 none [])
  | some "verify" => let (s1, x) := verify s; (s1, obs s1 x [])
  | some "clone" =>
    -- observable of `clone()`: the supports of the regenerated indices
    let m := (cleanup { s with idx := regen s.defs }).idx
    (s, obs { s with idx := m } none [])
  | some "freeze" => let s1 := Manager.setF true s; (s1, obs s1 none [])
  | some "unfreeze" => let s1 := Manager.setF false s; (s1, obs s1 none [])
  | some "load" =>
    match fieldBool j "overwrite", fieldArr j "pairs" with
    | some ow, some pairs =>
      (match pairs.mapM (fun b => match b with
          | .arr a => (match a.toList with
            | [p, e] => do let p ← pathOfJson p; let e ← exprOfJson e; pure (p, e)
            | _ => none)
          | _ => none) with
       | some pairs => let (s1, x) := load s ow pairs; (s1, obs s1 x [])
       | none => bad s "load pairs")
    | _, _ => bad s "load"
  | some "query" =>
    match (field j "path").bind pathOfJson with
    | some p =>
      (s, Json.mkObj [("exc", .str "ok"),
        ("find_deps", .arr ((findDeps s.idx [p]).map pathToJson).toArray),
        ("tasks", .arr ((RC.keys (DD.get s.idx.tartasks p)).map pathToJson).toArray),
        ("expr", match exprOf s p with | some e => exprToJson e | none => .null)])
    | none => bad s "query"
  | _ => bad s "unknown op"

end DMgr
