import Lean.Data.Json
import Driver.OptD
import XModel.MeritNum
/-! Line-protocol suite `opt`, op `merit`: the residual computation of `MeritFunctionForMatch.__call__`
    (`XModel/MeritNum.lean`) recomputed on IEEE doubles for every recorded evaluation of the real merit function.
    One line = the evaluations made during one API call; each evaluation carries the raw target values the code
    stored, the `value` / `tol` / `weight` / `active` attributes of the `Target` objects as they were when the call
    returned, the effective `zero_if_met` / `return_scalar`, the returned vector (or scalar) and the
    `last_point_within_tol` the code set.  `MeritNum.residuals` / `lastWithin` (/ `penalty2` for a scalar return) of the
    recorded inputs must reproduce them bit for bit (`resid_ok`, `within_ok`, `pen_ok`); two NaNs count as equal
    whatever their payload, `0.0` and `-0.0` do not. -/
namespace DOpt
open Lean

def mops : MeritNum.NumOps Float :=
  ⟨(· - ·), (· * ·), (· + ·), Float.abs, fun a b => decide (a < b), 0.0⟩

def isMerit (j : Json) : Bool := fieldStr j "op" == some "merit"

/-- a list of doubles some of which may be absent (`null`: a weight that is `None`) -/
def optVecOfJson (j : Json) : Option (List (Option Float)) :=
  match j with
  | .arr a => a.toList.mapM (fun (x : Json) => match x with
      | .null => some none
      | .str h => (floatOfHex h).map some
      | _ => none)
  | _ => none

def sameFloat (a b : Float) : Bool := (a.isNaN && b.isNaN) || a.toBits == b.toBits

def sameVec (a b : List Float) : Bool :=
  a.length == b.length && (a.zip b).all (fun p => sameFloat p.1 p.2)

def hexVec (l : List Float) : Json := .arr (l.map (fun v => Json.str (floatToHex v))).toArray

structure MeritVerdict where
  resid : Bool
  within : Bool
  pen : Bool
  comparable : Bool        -- false: the evaluation is outside the model (optimize_log / transform) and was not compared
  detail : Json

/-- one recorded evaluation against the model -/
def meritEval (e : Json) : Option MeritVerdict := do
  let res ← (field e "res").bind vecOfJson
  let tar ← (field e "tar").bind vecOfJson
  let tols ← (field e "tol").bind vecOfJson
  let weights ← (field e "weight").bind optVecOfJson
  let mask := (← fieldStr e "active").toList.map (· == 'y')
  let zim ← fieldBool e "zim"
  let scalar ← fieldBool e "scalar"
  let within ← fieldBool e "within"
  if (fieldBool e "outside").getD false then
    pure ⟨true, true, true, false, .null⟩
  else
    let n := res.length
    -- numpy would have raised on arrays of different lengths: a record with ragged lists is not an evaluation
    if tar.length ≠ n || tols.length ≠ n || weights.length ≠ n || mask.length ≠ n then none else
    let lw := MeritNum.lastWithin mops res tar tols mask
    let mres := MeritNum.residuals mops res tar tols weights mask zim
    let withinOK := lw == within
    if scalar then
      let out ← (fieldStr e "out").bind floatOfHex
      let p := MeritNum.penalty2 mops res tar tols weights mask zim
      -- np.sum adds left to right below 8 entries (pairwise blocks above: not compared)
      let penOK := n ≥ 8 || sameFloat p out
      pure ⟨true, withinOK, penOK, true,
        if withinOK && penOK then .null else Json.mkObj [("model_within", .bool lw), ("model_penalty2", .str (floatToHex p))]⟩
    else
      let out ← (field e "out").bind vecOfJson
      let residOK := sameVec mres out
      pure ⟨residOK, withinOK, true, true,
        if withinOK && residOK then .null else Json.mkObj [("model_within", .bool lw), ("model_residuals", hexVec mres)]⟩

def meritStep (j : Json) : Json :=
  match fieldArr j "evals" with
  | none => Json.mkObj [("bad-op", .str "merit line")]
  | some evals =>
    let rec go (k : Nat) (es : List Json) (acc : Bool × Bool × Bool × Nat × Option (Nat × Json)) :
        Except Nat (Bool × Bool × Bool × Nat × Option (Nat × Json)) :=
      match es with
      | [] => .ok acc
      | e :: rest =>
        match meritEval e with
        | none => .error k
        | some v =>
          let (a, b, c, cnt, bad) := acc
          let ok := v.resid && v.within && v.pen
          let bad' := match bad with
            | some x => some x
            | none => if ok then none else some (k, v.detail)
          go (k + 1) rest (a && v.resid, b && v.within, c && v.pen, cnt + (if v.comparable then 1 else 0), bad')
    match go 0 evals (true, true, true, 0, none) with
    | .error k => Json.mkObj [("bad-op", .str s!"merit evaluation {k}: unreadable record")]
    | .ok (a, b, c, cnt, bad) =>
      Json.mkObj [("resid_ok", .bool a), ("within_ok", .bool b), ("pen_ok", .bool c),
        ("n_evals", .num (JsonNumber.fromNat cnt)),
        ("first_bad", match bad with | some (k, _) => .num (JsonNumber.fromNat k) | none => .null),
        ("first_bad_model", match bad with | some (_, d) => d | none => .null)]

end DOpt
