import XModel.ManagerFn
import XModel.ManagerC20
/-!
# C20 with function tasks: the iteration order of Python's sets does not change the result

`ManagerC20.lean` proves that two legal schedules of the tasks triggered by an assignment give the same container
contents when every definition is an expression task.  Here the triggered tasks may be expression tasks *or*
function tasks (`Kind.func body`, a list of `target := expression` lines run in order).

Route: a successful `runTasks` of expression / function tasks is a run of the flattened list of their items
(`runTasks_items`, `ManagerFn.lean`) and conversely (`runTasks_items_conv`, below).  The two flattened lists have
the same members and no duplicates (`ScopeF.h2`, `ScopeF.body`).  Two items the two flattened lists order
differently belong to two *different* tasks the two schedules order differently (the lines of one body keep
their order); there is then no edge between these tasks in either direction, and sound declarations
(`DeclOK`) turn that into independence of the items.  `OrderIndep.perm_runE` concludes.

Hypotheses beyond `ScopeF`: only `hexist` — every location a triggered task writes can be read before the
assignment (it was written when the task was defined; `ConsistentF` implies it).  It is what `Store.set_comm`
needs: writing two absent dictionary keys in the two orders gives two different insertion orders.
-/
namespace Manager
open Store Push Index OrderIndep

/-! ### (1) the converse of `runTasks_items` -/

/-- an abstract run of the lines of a body is a run of `runBody` -/
theorem runBody_items_conv : ∀ (body : List (Path × Expr)) (s : MState) (σf : Val), s.faultIn = none →
    runAll? (exprSys pySem) (body.map (fun b => (⟨b.1, b.2⟩ : ETask))) s.store = some σf →
    ∃ s', runBody s body = (s', none) ∧ s'.store = σf ∧ s'.faultIn = none ∧ s'.prev = s.prev
  | [], s, σf, hnf, h => by
    simp only [List.map_nil, runAll?, Option.some.injEq] at h
    exact ⟨s, rfl, h, hnf, rfl⟩
  | (p, e) :: rest, s, σf, hnf, h => by
    simp only [List.map_cons, runAll?] at h
    cases hr : (exprSys pySem).run? (⟨p, e⟩ : ETask) s.store with
    | none => simp [hr] at h
    | some σ1 =>
      simp only [hr] at h
      obtain ⟨v, hev, hset⟩ := run_eq hr
      have hev' : evalE s e = .ok v := hev
      have hw : writeRef s p v = ({ s with store := σ1, trace := s.trace ++ [(true, p)] }, none) := by
        unfold writeRef
        have : set s.store p v = .ok σ1 := hset
        simp [this, hnf]
      obtain ⟨s', hs', hst, hnf', hprev⟩ :=
        runBody_items_conv rest { s with store := σ1, trace := s.trace ++ [(true, p)] } σf hnf h
      refine ⟨s', ?_, hst, hnf', hprev⟩
      simp only [runBody, hev', hw]
      exact hs'

/-- an abstract run of the items of one expression / function task is a run of `runTask`
    (the function task restores the event log, `runTask` does that by itself) -/
theorem runTask_items_conv (s : MState) (t : MTask) (σf : Val) (hnf : s.faultIn = none)
    (hk : (∃ e, t.kind = .expr e) ∨ ∃ body, t.kind = .func body)
    (h : runAll? (exprSys pySem) (itemsOf t) s.store = some σf) :
    ∃ s', runTask s t = (s', none) ∧ s'.store = σf ∧ s'.faultIn = none ∧ s'.prev = s.prev := by
  rcases hk with ⟨e, hk⟩ | ⟨body, hk⟩
  · have h' : runAll? (exprSys pySem) [(⟨t.id, e⟩ : ETask)] s.store = some σf := by
      simpa [itemsOf, hk] using h
    simp only [runAll?] at h'
    cases hr : (exprSys pySem).run? (⟨t.id, e⟩ : ETask) s.store with
    | none => simp [hr] at h'
    | some σ1 =>
      simp only [hr, Option.some.injEq] at h'
      subst h'
      obtain ⟨v, hev, hset⟩ := run_eq hr
      have hev' : evalE s e = .ok v := hev
      have hw : writeRef s t.id v = ({ s with store := σ1, trace := s.trace ++ [(true, t.id)] }, none) := by
        unfold writeRef
        have : set s.store t.id v = .ok σ1 := hset
        simp [this, hnf]
      exact ⟨{ s with store := σ1, trace := s.trace ++ [(true, t.id)] }, by simp only [runTask, hk, hev', hw],
        rfl, hnf, rfl⟩
  · have h' : runAll? (exprSys pySem) (body.map (fun b => (⟨b.1, b.2⟩ : ETask))) s.store = some σf := by
      simpa [itemsOf, hk] using h
    obtain ⟨s', hs', hst, hnf', hprev⟩ :=
      runBody_items_conv body { s with trace := s.trace ++ [(false, t.id)] } σf hnf h'
    refine ⟨{ s' with trace := s.trace ++ [(false, t.id)] }, ?_, hst, hnf', hprev⟩
    simp only [runTask, hk, hs']

/-- **the converse of `runTasks_items`**: an abstract run of the flattened items of expression / function tasks
    that completes is a `runTasks` that completes, with the same final container tree -/
theorem runTasks_items_conv : ∀ (l : List MTask) (s : MState) (σf : Val), s.faultIn = none →
    (∀ t ∈ l, (∃ e, t.kind = .expr e) ∨ ∃ body, t.kind = .func body) →
    runAll? (exprSys pySem) (l.flatMap itemsOf) s.store = some σf →
    ∃ s', runTasks s l = (s', none) ∧ s'.store = σf ∧ s'.faultIn = none ∧ s'.prev = s.prev
  | [], s, σf, hnf, _, h => by
    simp only [List.flatMap_nil, runAll?, Option.some.injEq] at h
    exact ⟨s, rfl, h, hnf, rfl⟩
  | t :: l, s, σf, hnf, hk, h => by
    simp only [List.flatMap_cons] at h
    rw [runAll_append] at h
    cases h1 : runAll? (exprSys pySem) (itemsOf t) s.store with
    | none => simp [h1] at h
    | some σ1 =>
      rw [h1] at h
      have h : runAll? (exprSys pySem) (l.flatMap itemsOf) σ1 = some σf := h
      obtain ⟨sa, hsa, hst, hnfa, hpa⟩ := runTask_items_conv s t σ1 hnf (hk t (List.mem_cons_self ..)) h1
      subst hst
      obtain ⟨s', hs', hst', hnf', hp'⟩ :=
        runTasks_items_conv l sa σf hnfa (fun u hu => hk u (List.mem_cons_of_mem _ hu)) h
      refine ⟨s', ?_, hst', hnf', hp'.trans hpa⟩
      simp only [runTasks, hsa]
      exact hs'

/-! ### (2) lists: order in an append, in a `flatMap`, members of a `Pairwise` list -/

theorem before_mem_left {α : Type} {l : List α} {a b : α} (h : Dfs3.Before l a b) : a ∈ l := by
  obtain ⟨xs, ys, e, _⟩ := h; simp [e]

theorem before_append_cases {α : Type} : ∀ {A B : List α} {a b : α}, Dfs3.Before (A ++ B) a b →
    Dfs3.Before A a b ∨ (a ∈ A ∧ b ∈ B) ∨ Dfs3.Before B a b
  | [], _, _, _, h => Or.inr (Or.inr h)
  | x :: A, B, a, b, h => by
    rw [List.cons_append, Capstone.before_cons] at h
    rcases h with ⟨rfl, hb⟩ | h
    · rcases List.mem_append.mp hb with hb | hb
      · exact Or.inl (Capstone.before_cons.mpr (Or.inl ⟨rfl, hb⟩))
      · exact Or.inr (Or.inl ⟨List.mem_cons_self .., hb⟩)
    · rcases before_append_cases h with h | ⟨ha, hb⟩ | h
      · exact Or.inl (Capstone.before_cons.mpr (Or.inr h))
      · exact Or.inr (Or.inl ⟨List.mem_cons_of_mem _ ha, hb⟩)
      · exact Or.inr (Or.inr h)

/-- two elements of a flattened list in this order: either in this order inside one block, or in two blocks
    that come in this order -/
theorem before_flatMap {α β : Type} (f : α → List β) : ∀ {l : List α} {a b : β}, Dfs3.Before (l.flatMap f) a b →
    (∃ t ∈ l, Dfs3.Before (f t) a b) ∨ (∃ t u, Dfs3.Before l t u ∧ a ∈ f t ∧ b ∈ f u)
  | [], a, b, h => by
    have := before_mem_left h
    simp at this
  | t :: l, a, b, h => by
    rw [List.flatMap_cons] at h
    rcases before_append_cases h with h | ⟨ha, hb⟩ | h
    · exact Or.inl ⟨t, List.mem_cons_self .., h⟩
    · obtain ⟨u, hu, hbu⟩ := List.mem_flatMap.mp hb
      exact Or.inr ⟨t, u, Dfs3.Before.head hu, ha, hbu⟩
    · rcases before_flatMap f h with ⟨t', ht', hb'⟩ | ⟨t', u, hb', ha', hbu⟩
      · exact Or.inl ⟨t', List.mem_cons_of_mem _ ht', hb'⟩
      · exact Or.inr ⟨t', u, Dfs3.Before.append_left [t] hb', ha', hbu⟩

theorem pairwise_mem_cases {α : Type} {R : α → α → Prop} : ∀ {l : List α}, l.Pairwise R →
    ∀ a ∈ l, ∀ b ∈ l, a = b ∨ R a b ∨ R b a
  | [], _, a, ha, _, _ => by cases ha
  | x :: l, h, a, ha, b, hb => by
    obtain ⟨hx, hl⟩ := List.pairwise_cons.mp h
    rcases List.mem_cons.mp ha with ea | ha'
    · rcases List.mem_cons.mp hb with eb | hb'
      · exact Or.inl (ea.trans eb.symm)
      · exact Or.inr (Or.inl (ea ▸ hx b hb'))
    · rcases List.mem_cons.mp hb with eb | hb'
      · exact Or.inr (Or.inr (eb ▸ hx a ha'))
      · exact pairwise_mem_cases hl a ha' b hb'

theorem not_before_self {α : Type} {l : List α} (hnd : l.Nodup) {a : α} (h : Dfs3.Before l a a) : False := by
  obtain ⟨xs, ys, e, hb⟩ := h
  rw [e] at hnd
  have := (List.nodup_append.mp hnd).2.1
  exact (List.nodup_cons.mp this).1 hb

theorem not_before_bothC {α : Type} {l : List α} (hnd : l.Nodup) {a b : α}
    (h1 : Dfs3.Before l a b) (h2 : Dfs3.Before l b a) : False :=
  @not_before_both α (fun _ _ => Classical.propDecidable _) l hnd a b h1 h2

/-! ### (3) what `ScopeF` says about the items -/

theorem not_incomparable_selfF : ∀ p : Path, ¬ Incomparable p p
  | [] => by simp [Incomparable]
  | s :: p => by simp [Incomparable, not_incomparable_selfF p]

/-- an item belongs to one definition only -/
theorem item_owner {s : MState} {p : Path} (hi : MInv s) (sc : ScopeF s p) {t u : MTask} (ht : t ∈ s.defs)
    (hu : u ∈ s.defs) {a : ETask} (hat : a ∈ itemsOf t) (hau : a ∈ itemsOf u) : t = u := by
  refine eq_of_id_eq s.defs hi.ids t ht u hu (Classical.byContradiction fun hne => ?_)
  exact not_incomparable_selfF _ (sc.h2 t ht u hu hne a hat a hau)

/-- the lines of one body are pairwise distinct -/
theorem items_nodup {s : MState} {p : Path} (sc : ScopeF s p) {t : MTask} (ht : t ∈ s.defs) : (itemsOf t).Nodup := by
  refine (sc.body t ht).imp ?_
  intro a b h e
  subst e
  exact not_incomparable_selfF _ h.1

/-- the targets of two items of the definitions are equal (same item) or incomparable -/
theorem items_targets {s : MState} {p : Path} (hi : MInv s) (sc : ScopeF s p) {t u : MTask} (ht : t ∈ s.defs)
    (hu : u ∈ s.defs) {a b : ETask} (ha : a ∈ itemsOf t) (hb : b ∈ itemsOf u) :
    b = a ∨ Incomparable a.target b.target := by
  by_cases hid : t.id = u.id
  · have htu : t = u := eq_of_id_eq s.defs hi.ids t ht u hu hid
    subst htu
    rcases pairwise_mem_cases (sc.body t ht) a ha b hb with rfl | h | h
    · exact Or.inl rfl
    · exact Or.inr (Capstone.incomparable_symm h.1)
    · exact Or.inr h.1
  · exact Or.inr (sc.h2 u hu t ht (fun e => hid e.symm) b hb a ha)

/-- the flattened items of a duplicate-free list of definitions are pairwise distinct -/
theorem flat_nodup {s : MState} {p : Path} (hi : MInv s) (sc : ScopeF s p) (l : List MTask)
    (hsub : ∀ t ∈ l, t ∈ s.defs) (hnd : (l.map (·.id)).Nodup) : (l.flatMap itemsOf).Nodup := by
  unfold List.Nodup
  rw [List.pairwise_flatMap]
  refine ⟨fun t ht => items_nodup sc (hsub t ht), ?_⟩
  have hp : l.Pairwise (fun t u => t.id ≠ u.id) := by
    have := hnd
    unfold List.Nodup at this
    rwa [List.pairwise_map] at this
  refine hp.imp_of_mem ?_
  intro t u ht hu hne x hx y hy e
  subst e
  exact hne (congrArg MTask.id (item_owner hi sc (hsub t ht) (hsub u hu) hx hy))

/-! ### (4) order independence -/

/-- **order independence of `write + run_tasks`, expression and function tasks** (all compared fields).

    Beyond `ScopeF` the theorem needs `hexist`: every location written by a task the assignment triggers can be
    read before the assignment.  (`ScopeF.h2p` keeps those locations apart from the assigned one.) -/
theorem writeAndRun_sched_indepF' (sched1 sched2 : Sched) (s : MState) (p : Path) (v : Val) (hi : MInv s)
    (sc : ScopeF s p)
    (hvs1 : ValidSched (gOf s.idx) (findTaskids s.idx (chainR p)) (sched1 (findTaskids s.idx (chainR p))))
    (hvs2 : ValidSched (gOf s.idx) (findTaskids s.idx (chainR p)) (sched2 (findTaskids s.idx (chainR p))))
    (hexist : ∀ t ∈ s.defs, t.id ∈ findTaskids s.idx (chainR p) → ∀ it ∈ itemsOf t, ∃ w, get s.store it.target = .ok w)
    (s1 : MState) (hok : writeAndRun sched1 s p v = (s1, none)) :
    ∃ s2, writeAndRun sched2 s p v = (s2, none) ∧ s2.store = s1.store ∧ s2.defs = s1.defs ∧ s2.idx = s1.idx ∧
      s2.frozen = s1.frozen ∧ s2.prev = s1.prev ∧ s2.faultIn = s1.faultIn := by
  unfold writeAndRun at hok ⊢
  cases hw : writeRef s p v with
  | mk sw x =>
    cases x with
    | some x => simp [hw] at hok
    | none =>
      simp only [hw] at hok ⊢
      obtain ⟨hset, hnfw, hdw, hiw, hfw⟩ := writeRef_nofault s p v sc.nofault sw hw
      rw [hiw, hdw] at hok ⊢
      generalize hπ1 : sched1 (findTaskids s.idx (chainR p)) = π1 at hok hvs1
      generalize hπ2 : sched2 (findTaskids s.idx (chainR p)) = π2 at hvs2
      cases hm : List.mapM (lookTask s.defs) π1 with
      | error e => simp [hm] at hok
      | ok l1 =>
        simp only [hm] at hok
        obtain ⟨hl1map, hl1sub⟩ := mapM_lookDef s.defs _ (lookTask_ok s.defs) _ l1 hm
        have hkind : ∀ (l : List MTask), (∀ t ∈ l, t ∈ s.defs) →
            ∀ t ∈ l, (∃ e, t.kind = .expr e) ∨ ∃ body, t.kind = .func body :=
          fun l hl t ht => declOK_kind (sc.decl t (hl t ht))
        obtain ⟨hrun1, hnf1⟩ := runTasks_items l1 sw s1 hnfw (hkind l1 hl1sub) hok
        have hprev1 : s1.prev = sw.prev := by
          obtain ⟨s', hs', _, _, hp'⟩ := runTasks_items_conv l1 sw s1.store hnfw (hkind l1 hl1sub) hrun1
          rw [hok] at hs'
          rw [(Prod.mk.inj hs').1]
          exact hp'
        have hg1 := runTasks_graph l1 sw
        rw [hok] at hg1
        -- the second schedule finds its tasks too
        have hfind2 : ∀ id ∈ π2, ∃ t, lookDef s.defs id = some t := by
          intro id hid
          have : id ∈ π1 := (hvs1.mem id).mpr ((hvs2.mem id).mp hid)
          rw [← hl1map] at this
          obtain ⟨t, ht, rfl⟩ := List.mem_map.mp this
          exact ⟨t, lookDef_of_mem s.defs hi.ids t (hl1sub t ht)⟩
        obtain ⟨l2, hm2⟩ := mapM_lookTask_ok s.defs π2 hfind2
        obtain ⟨hl2map, hl2sub⟩ := mapM_lookDef s.defs _ (lookTask_ok s.defs) _ l2 hm2
        simp only [hm2]
        -- the two task lists have the same members
        have memT : ∀ (la lb : List MTask) (πa πb : List Path), la.map (·.id) = πa → lb.map (·.id) = πb →
            (∀ t ∈ la, t ∈ s.defs) → (∀ t ∈ lb, t ∈ s.defs) → (∀ id, id ∈ πa → id ∈ πb) →
            ∀ t, t ∈ la → t ∈ lb := by
          intro la lb πa πb ha hb hsa hsb hsub t ht
          have : t.id ∈ lb.map (·.id) := by rw [hb]; exact hsub _ (ha ▸ List.mem_map_of_mem ht)
          obtain ⟨u, hu, hue⟩ := List.mem_map.mp this
          have : u = t := eq_of_id_eq s.defs hi.ids u (hsb u hu) t (hsa t ht) hue
          exact this ▸ hu
        have mem12 : ∀ t, t ∈ l1 → t ∈ l2 :=
          memT l1 l2 π1 π2 hl1map hl2map hl1sub hl2sub (fun id h => (hvs2.mem id).mpr ((hvs1.mem id).mp h))
        have mem21 : ∀ t, t ∈ l2 → t ∈ l1 :=
          memT l2 l1 π2 π1 hl2map hl1map hl2sub hl1sub (fun id h => (hvs1.mem id).mpr ((hvs2.mem id).mp h))
        have memE : ∀ x, x ∈ l1.flatMap itemsOf ↔ x ∈ l2.flatMap itemsOf := by
          intro x
          simp only [List.mem_flatMap]
          exact ⟨fun ⟨t, ht, hx⟩ => ⟨t, mem12 t ht, hx⟩, fun ⟨t, ht, hx⟩ => ⟨t, mem21 t ht, hx⟩⟩
        have hl1π : ∀ t ∈ l1, t.id ∈ π1 := fun t ht => hl1map ▸ List.mem_map_of_mem ht
        have hl2π : ∀ t ∈ l2, t.id ∈ π2 := fun t ht => hl2map ▸ List.mem_map_of_mem ht
        -- the targets of the triggered items exist after the user's write
        have hP : TargetsExist (l1.flatMap itemsOf) sw.store := by
          intro it hit
          obtain ⟨t, ht, hitt⟩ := List.mem_flatMap.mp hit
          have htd := hl1sub t ht
          obtain ⟨w, hw'⟩ := hexist t htd ((hvs1.mem t.id).mp (hl1π t ht)) it hitt
          refine ⟨w, ?_⟩
          rw [get_set_incomparable hset (sc.h2p t htd it hitt) sc.pathP.2 (sc.paths t htd it hitt).1.2]
          exact hw'
        have hU : ∀ x ∈ l1.flatMap itemsOf, UE (l1.flatMap itemsOf) x := by
          intro x hx
          obtain ⟨t, ht, hxt⟩ := List.mem_flatMap.mp hx
          have htd := hl1sub t ht
          refine ⟨(sc.paths t htd x hxt).1.2, ?_⟩
          intro y hy
          obtain ⟨u, hu, hyu⟩ := List.mem_flatMap.mp hy
          have hud := hl1sub u hu
          refine ⟨(sc.paths u hud y hyu).1.2, ?_⟩
          rcases items_targets hi sc htd hud hxt hyu with e | h
          · exact Or.inl (congrArg ETask.target e)
          · exact Or.inr h
        -- items of two definitions with no edge from the first to the second: the first does not disturb the second
        have niOf : ∀ U ∈ s.defs, ∀ T ∈ s.defs, U.id ≠ T.id → T.id ∉ gOf s.idx U.id →
            ∀ a ∈ itemsOf U, ∀ b ∈ itemsOf T, (exprSys pySem).NI a b := by
          intro U hU T hT hne hno a ha b hb
          refine ⟨(sc.paths U hU a ha).1.2, (sc.paths T hT b hb).1.2, sc.h2 T hT U hU (fun e => hne e.symm) b hb a ha, ?_⟩
          intro r hr
          refine ⟨((sc.paths T hT b hb).2 r hr).2, Classical.byContradiction fun hcmp => hno ?_⟩
          exact edge_of_readF s hi U T hU hT (sc.decl U hU) (sc.decl T hT) a ha b hb (sc.paths U hU a ha).1.1 r hr
            ((sc.paths T hT b hb).2 r hr).1 hcmp
        have nd1 : l1.Nodup := nodup_of_map (·.id) (hl1map ▸ hvs1.nodup)
        have nd2 : l2.Nodup := nodup_of_map (·.id) (hl2map ▸ hvs2.nodup)
        -- two items ordered differently by the two flattened lists are independent
        have hcompat : ∀ a b, a ≠ b → Dfs3.Before (l1.flatMap itemsOf) a b → Dfs3.Before (l2.flatMap itemsOf) b a →
            IndE pySem (l1.flatMap itemsOf) a b := by
          intro a b _ hb1 hb2
          have ham : a ∈ l1.flatMap itemsOf := before_mem_left hb1
          have hbm : b ∈ l1.flatMap itemsOf := Capstone.before_mem_right hb1
          -- the owners, and their order in the two task lists
          have key : ∃ ta ∈ l1, ∃ tb ∈ l1, a ∈ itemsOf ta ∧ b ∈ itemsOf tb ∧ Dfs3.Before l1 ta tb ∧
              Dfs3.Before l2 tb ta := by
            rcases before_flatMap itemsOf hb1 with ⟨t, ht, hbt⟩ | ⟨ta, tb, hbt1, hat, hbt⟩
            · -- same body under the first schedule: the second cannot turn its lines round
              exfalso
              have hat : a ∈ itemsOf t := before_mem_left hbt
              have hbt' : b ∈ itemsOf t := Capstone.before_mem_right hbt
              rcases before_flatMap itemsOf hb2 with ⟨t', ht', hbt2⟩ | ⟨tb', ta', hbt2, hb', ha'⟩
              · have : t' = t := item_owner hi sc (hl2sub t' ht') (hl1sub t ht) (Capstone.before_mem_right hbt2) hat
                subst this
                exact not_before_bothC (items_nodup sc (hl1sub t' ht)) hbt hbt2
              · have htb' : tb' ∈ l2 := before_mem_left hbt2
                have hta' : ta' ∈ l2 := Capstone.before_mem_right hbt2
                have e1 : tb' = t := item_owner hi sc (hl2sub tb' htb') (hl1sub t ht) hb' hbt'
                have e2 : ta' = t := item_owner hi sc (hl2sub ta' hta') (hl1sub t ht) ha' hat
                subst e1; subst e2
                exact not_before_self nd2 hbt2
            · have hta : ta ∈ l1 := before_mem_left hbt1
              have htb : tb ∈ l1 := Capstone.before_mem_right hbt1
              rcases before_flatMap itemsOf hb2 with ⟨t', ht', hbt2⟩ | ⟨tb', ta', hbt2, hb', ha'⟩
              · exfalso
                have e1 : ta = t' := item_owner hi sc (hl1sub ta hta) (hl2sub t' ht') hat (Capstone.before_mem_right hbt2)
                have e2 : tb = t' := item_owner hi sc (hl1sub tb htb) (hl2sub t' ht') hbt (before_mem_left hbt2)
                subst e1; subst e2
                exact not_before_self nd1 hbt1
              · have htb' : tb' ∈ l2 := before_mem_left hbt2
                have hta' : ta' ∈ l2 := Capstone.before_mem_right hbt2
                have e1 : tb' = tb := item_owner hi sc (hl2sub tb' htb') (hl1sub tb htb) hb' hbt
                have e2 : ta' = ta := item_owner hi sc (hl2sub ta' hta') (hl1sub ta hta) ha' hat
                subst e1; subst e2
                exact ⟨ta', hta, tb', htb, hat, hbt, hbt1, hbt2⟩
          obtain ⟨ta, hta, tb, htb, hat, hbt, hbt1, hbt2⟩ := key
          have hid : ta.id ≠ tb.id := by
            intro e
            have : ta = tb := eq_of_id_eq s.defs hi.ids ta (hl1sub ta hta) tb (hl1sub tb htb) e
            subst this
            exact not_before_self nd1 hbt1
          have hB1 : Dfs3.Before π1 ta.id tb.id := hl1map ▸ before_map (·.id) hbt1
          have hB2 : Dfs3.Before π2 tb.id ta.id := hl2map ▸ before_map (·.id) hbt2
          have hm1a : ta.id ∈ π1 := hl1π ta hta
          have hm1b : tb.id ∈ π1 := hl1π tb htb
          have hm2a : ta.id ∈ π2 := hl2π ta (mem12 ta hta)
          have hm2b : tb.id ∈ π2 := hl2π tb (mem12 tb htb)
          have no1 : tb.id ∉ gOf s.idx ta.id := fun hedge =>
            not_before_both hvs2.nodup (hvs2.order ta.id tb.id hm2a hm2b hedge (Ne.symm hid)) hB2
          have no2 : ta.id ∉ gOf s.idx tb.id := fun hedge =>
            not_before_both hvs1.nodup (hvs1.order tb.id ta.id hm1b hm1a hedge hid) hB1
          exact ⟨ham, hbm,
            niOf ta (hl1sub ta hta) tb (hl1sub tb htb) hid no1 a hat b hbt,
            niOf tb (hl1sub tb htb) ta (hl1sub ta hta) (Ne.symm hid) no2 b hbt a hat⟩
        have hrun2 := perm_runE pySem (l1.flatMap itemsOf) (l1.flatMap itemsOf) (l2.flatMap itemsOf) sw.store s1.store
          (flat_nodup hi sc l1 hl1sub (hl1map ▸ hvs1.nodup)) (flat_nodup hi sc l2 hl2sub (hl2map ▸ hvs2.nodup))
          memE hU hP hcompat hrun1
        obtain ⟨s2, hs2, hst2, hnf2, hprev2⟩ := runTasks_items_conv l2 sw s1.store hnfw (hkind l2 hl2sub) hrun2
        have hg2 := runTasks_graph l2 sw
        rw [hs2] at hg2
        exact ⟨s2, hs2, hst2, by rw [hg2.2.1, hg1.2.1], by rw [hg2.1, hg1.1], by rw [hg2.2.2, hg1.2.2],
          by rw [hprev2, hprev1], by rw [hnf2, hnf1]⟩

/-- **order independence of `write + run_tasks`, expression and function tasks.** -/
theorem writeAndRun_sched_indepF (sched1 sched2 : Sched) (s : MState) (p : Path) (v : Val) (hi : MInv s)
    (sc : ScopeF s p)
    (hvs1 : ValidSched (gOf s.idx) (findTaskids s.idx (chainR p)) (sched1 (findTaskids s.idx (chainR p))))
    (hvs2 : ValidSched (gOf s.idx) (findTaskids s.idx (chainR p)) (sched2 (findTaskids s.idx (chainR p))))
    (hexist : ∀ t ∈ s.defs, t.id ∈ findTaskids s.idx (chainR p) → ∀ it ∈ itemsOf t, ∃ w, get s.store it.target = .ok w)
    (s1 : MState) (hok : writeAndRun sched1 s p v = (s1, none)) :
    ∃ s2, writeAndRun sched2 s p v = (s2, none) ∧ s2.store = s1.store ∧ s2.defs = s1.defs ∧ s2.idx = s1.idx := by
  obtain ⟨s2, h, h1, h2, h3, _⟩ := writeAndRun_sched_indepF' sched1 sched2 s p v hi sc hvs1 hvs2 hexist s1 hok
  exact ⟨s2, h, h1, h2, h3⟩

/-- in a consistent state every item's target can be read: `hexist` comes for free -/
theorem writeAndRun_sched_indepF_consistent (sched1 sched2 : Sched) (s : MState) (p : Path) (v : Val) (hi : MInv s)
    (sc : ScopeF s p)
    (hvs1 : ValidSched (gOf s.idx) (findTaskids s.idx (chainR p)) (sched1 (findTaskids s.idx (chainR p))))
    (hvs2 : ValidSched (gOf s.idx) (findTaskids s.idx (chainR p)) (sched2 (findTaskids s.idx (chainR p))))
    (hc : ConsistentF s) (s1 : MState) (hok : writeAndRun sched1 s p v = (s1, none)) :
    ∃ s2, writeAndRun sched2 s p v = (s2, none) ∧ s2.store = s1.store ∧ s2.defs = s1.defs ∧ s2.idx = s1.idx ∧
      s2.frozen = s1.frozen ∧ s2.prev = s1.prev ∧ s2.faultIn = s1.faultIn ∧ ConsistentF s2 := by
  obtain ⟨s2, h, h1, h2, h3, h4, h5, h6⟩ := writeAndRun_sched_indepF' sched1 sched2 s p v hi sc hvs1 hvs2
    (fun t ht _ it hit => by obtain ⟨w, _, hw⟩ := hc t ht it hit; exact ⟨w, hw⟩) s1 hok
  exact ⟨s2, h, h1, h2, h3, h4, h5, h6, (writeAndRun_consistentF sched2 s p v hi sc hvs2 hc s2 h).1⟩

/-! ### decided -/

def readableB (σ : Val) (q : Path) : Bool :=
  match get σ q with
  | .ok _ => true
  | .error _ => false

theorem readableB_sound (σ : Val) (q : Path) (h : readableB σ q = true) : ∃ w, get σ q = .ok w := by
  unfold readableB at h
  cases hg : get σ q with
  | ok w => exact ⟨w, rfl⟩
  | error e => simp [hg] at h

/-- the extra hypothesis of `writeAndRun_sched_indepF`, decided: every location written by a triggered task
    can be read -/
def targetsExistB (s : MState) (p : Path) : Bool :=
  s.defs.all (fun t => !(decide (t.id ∈ findTaskids s.idx (chainR p))) ||
    (itemsOf t).all (fun it => readableB s.store it.target))

theorem targetsExistB_sound (s : MState) (p : Path) (h : targetsExistB s p = true) :
    ∀ t ∈ s.defs, t.id ∈ findTaskids s.idx (chainR p) → ∀ it ∈ itemsOf t, ∃ w, get s.store it.target = .ok w := by
  unfold targetsExistB at h
  simp only [List.all_eq_true, Bool.or_eq_true, Bool.not_eq_eq_eq_not, Bool.not_true, decide_eq_false_iff_not] at h
  intro t ht hin it hit
  rcases h t ht with h | h
  · exact absurd hin h
  · exact readableB_sound _ _ (h it hit)

theorem scopeFB_acyclic (s : MState) (p : Path) (h : scopeFB s p = true) :
    acyclicFrom s.idx (startOf s.idx (chainR p)) = true := by
  unfold scopeFB at h
  simp only [Bool.and_eq_true] at h
  exact h.1.1.1.1.1.2

/-- **order independence with function tasks, all hypotheses decided by the driver's Boolean tests.** -/
theorem writeAndRun_sched_indepF_decided (sched1 sched2 : Sched) (s : MState) (p : Path) (v : Val) (hi : MInv s)
    (hsc : scopeFB s p = true)
    (hv1 : validSchedule s.idx (chainR p) (sched1 (findTaskids s.idx (chainR p))) = true)
    (hv2 : validSchedule s.idx (chainR p) (sched2 (findTaskids s.idx (chainR p))) = true)
    (hex : targetsExistB s p = true)
    (s1 : MState) (hok : writeAndRun sched1 s p v = (s1, none)) :
    ∃ s2, writeAndRun sched2 s p v = (s2, none) ∧ s2.store = s1.store ∧ s2.defs = s1.defs ∧ s2.idx = s1.idx ∧
      s2.frozen = s1.frozen ∧ s2.prev = s1.prev ∧ s2.faultIn = s1.faultIn :=
  writeAndRun_sched_indepF' sched1 sched2 s p v hi (scopeFB_sound s hi p hsc)
    (validSchedule_sound s.idx (chainR p) _ hv1 (scopeFB_acyclic s p hsc))
    (validSchedule_sound s.idx (chainR p) _ hv2 (scopeFB_acyclic s p hsc))
    (targetsExistB_sound s p hex) s1 hok

/-! ### non-vacuity: the definition `c = a + b` next to the function task `#G : e := a * 2 ; f := a + 1`.
    Both are triggered by an assignment to `a`, neither feeds the other, so `[c, #G]` and `[#G, c]` are both
    legal schedules; the theorem applies and the two runs end with the same containers. -/
namespace C20FnExample
def da : Path := [.item (.str "d"), .item (.str "a")]
def db : Path := [.item (.str "d"), .item (.str "b")]
def dc : Path := [.item (.str "d"), .item (.str "c")]
def de : Path := [.item (.str "d"), .item (.str "e")]
def df : Path := [.item (.str "d"), .item (.str "f")]
def s0 : MState :=
  { MState.init with store := .dict [(.str "d", .dict [(.str "a", .int 1), (.str "b", .int 2), (.str "c", .none),
      (.str "e", .none), (.str "f", .none)])] }
def gTask : MTask :=
  ⟨[.item (.str "#G")], .func [(de, .bin "Mul" (.ref da) (.lit (.int 2))), (df, .bin "Add" (.ref da) (.lit (.int 1)))],
   [da], [de, df]⟩
def sG : MState := (register (setExpr id s0 dc (.bin "Add" (.ref da) (.ref db))).1 gTask).1

theorem s0_inv : MInv s0 := MInv_of_sameGraph (s := MState.init) ⟨rfl, rfl, rfl⟩ MInv.init
theorem sG_inv : MInv sG :=
  register_MInv _ gTask (setExpr_MInv id s0 dc _ s0_inv) (by decide) (by decide) (by decide) (by decide)

/-- the hypotheses hold: scope, readable targets, and two legal schedules … -/
theorem sG_hyps : scopeFB sG da = true ∧ targetsExistB sG da = true ∧
    validSchedule sG.idx (chainR da) (id (findTaskids sG.idx (chainR da))) = true ∧
    validSchedule sG.idx (chainR da) (List.reverse (findTaskids sG.idx (chainR da))) = true := by decide

/-- … which are different: one runs the expression task first, the other the function task -/
example : findTaskids sG.idx (chainR da) = [[.item (.str "#G")], dc] ∧
    List.reverse (findTaskids sG.idx (chainR da)) = [dc, [.item (.str "#G")]] := by decide

/-- the theorem applied to the example -/
example (v : Val) (s1 : MState) (hok : writeAndRun id sG da v = (s1, none)) :
    ∃ s2, writeAndRun List.reverse sG da v = (s2, none) ∧ s2.store = s1.store ∧ s2.defs = s1.defs ∧ s2.idx = s1.idx := by
  obtain ⟨s2, h, h1, h2, h3, _⟩ := writeAndRun_sched_indepF_decided id List.reverse sG da v sG_inv
    sG_hyps.1 sG_hyps.2.2.1 sG_hyps.2.2.2 sG_hyps.2.1 s1 hok
  exact ⟨s2, h, h1, h2, h3⟩

/-- and computed: both runs complete, same containers, `c = 9`, `e = 14`, `f = 8` -/
example : (writeAndRun id sG da (.int 7)).2 = none ∧ (writeAndRun List.reverse sG da (.int 7)).2 = none ∧
    (writeAndRun List.reverse sG da (.int 7)).1.store = (writeAndRun id sG da (.int 7)).1.store ∧
    get (writeAndRun id sG da (.int 7)).1.store dc = .ok (.int 9) ∧
    get (writeAndRun id sG da (.int 7)).1.store de = .ok (.int 14) ∧
    get (writeAndRun id sG da (.int 7)).1.store df = .ok (.int 8) := ⟨rfl, rfl, rfl, rfl, rfl, rfl⟩
end C20FnExample

end Manager
