import XModel.IndexInv
/-! Prototype: the index invariant is preserved by `register` (comprehension form). -/
namespace Index
variable {κ ρ : Type} [DecidableEq κ] [DecidableEq ρ]

/-! counting in comprehension lists -/
theorem count_flatMap' {α β : Type} [BEq β] [LawfulBEq β] (xs : List α) (f : α → List β) (p : β) :
    (xs.flatMap f).count p = (xs.map (fun x => (f x).count p)).sum := by
  induction xs with
  | nil => simp
  | cons x xs ih => simp [List.flatMap_cons, List.count_append, ih]

theorem sum_indicator {α : Type} (xs : List α) (P : α → Prop) [DecidablePred P] :
    (xs.map (fun x => if P x then 1 else 0)).sum = xs.countP (fun x => decide (P x)) := by
  induction xs with
  | nil => simp
  | cons x xs ih =>
    by_cases h : P x <;> simp [h, ih, List.countP_cons] <;> omega

theorem count_map_pair_left {α β : Type} [DecidableEq α] [DecidableEq β] [BEq (α × β)] [LawfulBEq (α × β)] (xs : List α) (hnd : xs.Nodup) (b : β) (a0 : α) (b0 : β) :
    (xs.map (fun a => (a, b))).count (a0, b0) = if a0 ∈ xs ∧ b0 = b then 1 else 0 := by
  induction xs with
  | nil => simp
  | cons x xs ih =>
    have hn := List.nodup_cons.mp hnd
    simp only [List.map_cons, List.count_cons, ih hn.2]
    by_cases hb : b0 = b
    · subst hb
      by_cases hx : a0 = x
      · subst hx; simp [hn.1]
      · have : ¬ (x = a0) := fun e => hx e.symm
        simp [hx, this]
    · simp [hb]
      intro h1 h2; exact absurd h2.symm hb

theorem count_map_pair_right {α β : Type} [DecidableEq α] [DecidableEq β] [BEq (α × β)] [LawfulBEq (α × β)] (xs : List β) (hnd : xs.Nodup) (a : α) (a0 : α) (b0 : β) :
    (xs.map (fun b => (a, b))).count (a0, b0) = if a0 = a ∧ b0 ∈ xs then 1 else 0 := by
  induction xs with
  | nil => simp
  | cons x xs ih =>
    have hn := List.nodup_cons.mp hnd
    simp only [List.map_cons, List.count_cons, ih hn.2]
    by_cases ha : a0 = a
    · subst ha
      by_cases hx : b0 = x
      · subst hx; simp [hn.1]
      · have : ¬ (x = b0) := fun e => hx e.symm
        simp [hx, this]
    · simp [ha]
      intro h1; exact absurd h1.symm ha

/-- |A ∩ B| does not depend on which list is filtered (duplicate-free lists = Python sets) -/
theorem inter_comm {α : Type} [DecidableEq α] (A B : List α) (hA : A.Nodup) (hB : B.Nodup) :
    (A.filter (· ∈ B)).length = (B.filter (· ∈ A)).length := by
  induction A generalizing B with
  | nil =>
    have : B.filter (fun _ => false) = [] := by
      apply List.filter_eq_nil_iff.mpr; intro x _; simp
    simp [this]
  | cons a A ih =>
    have hn := List.nodup_cons.mp hA
    by_cases ha : a ∈ B
    · -- remove a from B
      have hBe : (B.erase a).Nodup := hB.erase a
      have h1 : (A.filter (· ∈ B)).length = (A.filter (· ∈ B.erase a)).length := by
        congr 1
        apply List.filter_congr
        intro x hx
        have : x ≠ a := fun e => hn.1 (e ▸ hx)
        simp [List.mem_erase_of_ne this]
      have h2 : (B.filter (· ∈ a :: A)).length = ((B.erase a).filter (· ∈ A)).length + 1 := by
        clear ih h1
        induction B with
        | nil => cases ha
        | cons b B ihB =>
          have hnb := List.nodup_cons.mp hB
          by_cases hba : b = a
          · subst hba
            simp only [List.erase_cons_head, List.filter_cons, List.mem_cons, true_or, decide_true, if_true, List.length_cons]
            congr 1
            congr 1
            apply List.filter_congr
            intro x hx
            have : x ≠ b := fun e => hnb.1 (e ▸ hx)
            simp [this]
          · have hab : a ∈ B := by
              rcases List.mem_cons.mp ha with h | h
              · exact absurd h.symm hba
              · exact h
            have hne : ¬ (b == a) = true := by simpa using hba
            rw [List.erase_cons_tail hne]
            simp only [List.filter_cons, List.mem_cons, hba, false_or]
            have := ihB hnb.2 hab (hnb.2.erase a)
            by_cases hbA : b ∈ A
            · simp only [hbA, decide_true, if_true, List.length_cons]; simp only [List.mem_cons] at this; omega
            · simp only [hbA, decide_false]; simp only [List.mem_cons] at this; simpa using this
      simp only [List.filter_cons, ha, decide_true, if_true, List.length_cons]
      rw [h1, ih (B.erase a) hn.2 hBe, h2]
    · have h2 : (B.filter (· ∈ a :: A)).length = (B.filter (· ∈ A)).length := by
        congr 1
        apply List.filter_congr
        intro x hx
        have : x ≠ a := fun e => ha (e ▸ hx)
        simp [this]
      simp only [List.filter_cons, ha, decide_false]
      rw [h2]
      exact ih B hn.2 hB

#print axioms inter_comm
end Index
