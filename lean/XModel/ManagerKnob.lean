import XModel.ManagerC01
import XModel.Acyclic
import XModel.StoreComm
import XModel.ManagerFrame
/-!
# C01 for linear-knob tasks: what a `LinearKnob` prescribes

A knob task `t` with `t.kind = .knob src ws tars` runs `t_i += w_i * (value(src) - prev)` for each target and then
remembers `prev := value(src)` (per task id, in `MState.prev`).  This file makes precise what that prescribes and
proves it on the executable model `Manager`:

* `runTask_knob`        — ONE RUN on integers: every target goes from `a_i` to `a_i + w_i * (x - p0)`, `prev` becomes
                           `x`, nothing else in the container tree changes, the graph part of the state is untouched;
* `KnobInv`, `KnobAt`   — THE INVARIANT: `prev` is an int `p` and target `i` holds `b_i + w_i * p` for fixed *bases*
                           `b_i`; `KnobAt t bs x` is the invariant *settled* at the current source value `x`
                           (`prev = value(src) = x`), i.e. every target equals `b_i + w_i * value(src)`;
* `runTask_knob_inv`    — one run turns `KnobInv t bs` (any remembered `p0`) into `KnobAt t bs x` with the SAME bases;
* `register_knob`       — right after `register` the invariant holds, settled, with `b_i := a_i - w_i * x0`;
* `runTasks_knobs`      — a list of knob tasks with pairwise separate targets (`KnobApart`), run in the order given
                           (any order): all of them end up settled;
* `writeAndRun_knobs`, `setValue_knobs`, `writeAndRun_knob_single`, `setValue_knob_single`
                         — THROUGH THE MANAGER: the list of triggered tasks (as scheduled by an arbitrary scheduler) is
                           a hypothesis the driver can check; after the call every triggered knob is settled and, when
                           its source is the assigned path, target `i` holds `b_i + w_i * v`;
* `assignAll_knobs`     — any number of assignments in a row: the hypotheses (`KnobScene`) are re-established by every
                           call, so after the last one the targets hold `b_i + w_i * (last value)`;
* `knobWFb`, `knobApartB`, `knobInvB`, `knobSceneB` — decidable tests of the hypotheses, with soundness lemmas;
* a concrete example (`Example`), checked by `rfl`/`decide`, and the theorems instantiated on it.

No overflow side condition is needed: `pyBinRaw` raises `OverflowError` only when one operand is NaN
(`hasNan a b && (tooBig a || tooBig b)`), so on two `.int` values "Add", "Sub", "Mul" are exact integer arithmetic
whatever their size (`pyBin_add_int`, `pyBin_sub_int`, `pyBin_mul_int` are `rfl`) — as in Python, whose ints are
unbounded.
-/
namespace Manager
open Store Push Index

/-! ### integer arithmetic through `pyBin`: exact, no guard involved -/

theorem pyBin_add_int (x y : Int) : pyBin "Add" (.int x) (.int y) = .ok (.int (x + y)) := rfl
theorem pyBin_sub_int (x y : Int) : pyBin "Sub" (.int x) (.int y) = .ok (.int (x - y)) := rfl
theorem pyBin_mul_int (x y : Int) : pyBin "Mul" (.int x) (.int y) = .ok (.int (x * y)) := rfl

/-! ### the remembered previous value -/

theorem lookPrev_setPrev_same (prev : List (Path × Val)) (id : Path) (v : Val) :
    lookPrev (setPrev prev id v) id = v := by
  unfold lookPrev setPrev
  have h : (prev.filter (fun p => !decide (p.1 = id))).find? (fun p => decide (p.1 = id)) = none := by
    simp [List.find?_eq_none]
  rw [List.find?_append, h]
  simp

theorem lookPrev_setPrev_other (prev : List (Path × Val)) (id id' : Path) (v : Val) (hne : id' ≠ id) :
    lookPrev (setPrev prev id v) id' = lookPrev prev id' := by
  have key : (prev.filter (fun p => !decide (p.1 = id)) ++ [(id, v)]).find? (fun p => decide (p.1 = id')) =
      prev.find? (fun p => decide (p.1 = id')) := by
    induction prev with
    | nil =>
      have : ¬ id = id' := fun e => hne e.symm
      simp [this]
    | cons a rest ih =>
      obtain ⟨k, x⟩ := a
      by_cases h1 : k = id
      · subst h1
        have h2 : ¬ k = id' := fun e => hne e.symm
        simpa [List.filter_cons, List.find?_cons, h2] using ih
      · by_cases h2 : k = id'
        · subst h2
          simp [h1]
        · rw [List.filter_cons]
          simp only [h1, decide_false, Bool.not_false, if_true, List.cons_append, List.find?_cons, h2]
          exact ih
  unfold lookPrev setPrev
  rw [key]

/-! ### a container write without an armed fault -/

theorem writeRef_ok (s : MState) (p : Path) (v σ' : Val) (hf : s.faultIn = none)
    (h : set s.store p v = .ok σ') :
    writeRef s p v = ({ s with store := σ', trace := s.trace ++ [(true, p)] }, none) := by
  simp [writeRef, h, hf]

/-! ### lists of integer-valued locations -/

/-- location `ts[i]` holds the integer `as[i]`, for every `i`; the lists have the same length -/
def HoldInts (σ : Val) : List Path → List Int → Prop
  | [], [] => True
  | t :: ts, a :: as => get σ t = .ok (.int a) ∧ HoldInts σ ts as
  | [], _ :: _ => False
  | _ :: _, [] => False

theorem HoldInts.length {σ : Val} : ∀ {ts : List Path} {as : List Int}, HoldInts σ ts as → ts.length = as.length
  | [], [], _ => rfl
  | _ :: _, _ :: _, h => by simp [HoldInts.length h.2]
  | [], _ :: _, h => by simp [HoldInts] at h
  | _ :: _, [], h => by simp [HoldInts] at h

theorem HoldInts_congr {σ σ' : Val} : ∀ {ts : List Path} {as : List Int},
    (∀ t ∈ ts, get σ' t = get σ t) → HoldInts σ ts as → HoldInts σ' ts as
  | [], [], _, _ => trivial
  | t :: ts, a :: as, hc, h => by
    refine ⟨?_, HoldInts_congr (fun t' ht' => hc t' (List.mem_cons_of_mem _ ht')) h.2⟩
    rw [hc t (List.mem_cons_self ..)]; exact h.1
  | [], _ :: _, _, h => by simp [HoldInts] at h
  | _ :: _, [], _, h => by simp [HoldInts] at h

/-- the indexed reading of `HoldInts` -/
theorem HoldInts_iff_index {σ : Val} : ∀ {ts : List Path} {as : List Int},
    HoldInts σ ts as ↔ ts.length = as.length ∧
      ∀ (i : Nat) (h1 : i < ts.length) (h2 : i < as.length), get σ ts[i] = .ok (.int as[i])
  | [], [] => by simp [HoldInts]
  | [], _ :: _ => by simp [HoldInts]
  | _ :: _, [] => by simp [HoldInts]
  | t :: ts, a :: as => by
    simp only [HoldInts, HoldInts_iff_index (ts := ts) (as := as), List.length_cons, Nat.add_right_cancel_iff]
    constructor
    · rintro ⟨h0, hl, hi⟩
      refine ⟨hl, fun i h1 h2 => ?_⟩
      cases i with
      | zero => simpa using h0
      | succ i => simpa using hi i (by omega) (by omega)
    · rintro ⟨hl, hi⟩
      refine ⟨by simpa using hi 0 (by omega) (by omega), hl, fun i h1 h2 => ?_⟩
      have := hi (i + 1) (by omega) (by omega)
      simpa only [List.getElem_cons_succ] using this

/-- the values a knob prescribes: `b_i + w_i * p` -/
def knobVals (bs ws : List Int) (p : Int) : List Int := List.zipWith (fun b w => b + w * p) bs ws

/-- the increments of one run, applied to the prescribed values for `p0`, give the prescribed values for `x` -/
theorem knobVals_step (x p0 : Int) : ∀ (bs ws : List Int),
    List.zipWith (fun a w => a + w * (x - p0)) (knobVals bs ws p0) ws = knobVals bs ws x
  | [], _ => by simp [knobVals]
  | _ :: _, [] => by simp [knobVals]
  | b :: bs, w :: ws => by
    have ih := knobVals_step x p0 bs ws
    simp only [knobVals, List.zipWith_cons_cons] at ih ⊢
    rw [ih]
    congr 1
    rw [Int.mul_sub]; omega

/-- the bases that make the current values the prescribed ones at source value `x0` -/
def knobBases (as ws : List Int) (x0 : Int) : List Int := List.zipWith (fun a w => a - w * x0) as ws

theorem knobVals_knobBases (x0 : Int) : ∀ (as ws : List Int), as.length ≤ ws.length →
    knobVals (knobBases as ws x0) ws x0 = as
  | [], _, _ => by simp [knobVals, knobBases]
  | _ :: _, [], h => by simp at h
  | a :: as, w :: ws, h => by
    have ih := knobVals_knobBases x0 as ws (by simpa using h)
    simp only [knobVals, knobBases, List.zipWith_cons_cons] at ih ⊢
    rw [ih]
    congr 1
    omega

theorem knobVals_getElem (bs ws : List Int) (p : Int) (i : Nat) (h : i < (knobVals bs ws p).length)
    (h1 : i < bs.length) (h2 : i < ws.length) : (knobVals bs ws p)[i] = bs[i] + ws[i] * p := by
  simp [knobVals]

/-! ### the loop over the targets -/

/-- The knob loop on integer targets: with an integer increment `d` and no armed fault it completes, target `i` goes
    from `a_i` to `a_i + w_i * d`, and everything incomparable with all targets is left alone. -/
theorem runKnobLoop_ints (d : Int) : ∀ (tars : List Path) (ws as : List Int) (s : MState),
    s.faultIn = none → ws.length = tars.length → HoldInts s.store tars as →
    (∀ t ∈ tars, canonPath t ∧ t ≠ []) → tars.Pairwise Incomparable →
    ∃ s', runKnobLoop s (.int d) (ws.zip tars) = (s', none) ∧ s'.faultIn = none ∧ s'.prev = s.prev ∧
      SameGraph s s' ∧ s'.trace = s.trace ++ tars.map (fun t => (true, t)) ∧
      HoldInts s'.store tars (List.zipWith (fun a w => a + w * d) as ws) ∧
      (∀ q, canonPath q → (∀ t ∈ tars, Incomparable t q) → get s'.store q = get s.store q)
  | [], ws, as, s, hf, hl, hh, _, _ => by
    cases ws with
    | cons _ _ => simp at hl
    | nil =>
      cases as with
      | cons _ _ => simp [HoldInts] at hh
      | nil => exact ⟨s, rfl, hf, rfl, SameGraph.refl s, by simp, trivial, fun _ _ _ => rfl⟩
  | t :: tars, ws, as, s, hf, hl, hh, hc, hp => by
    cases ws with
    | nil => simp at hl
    | cons w ws =>
    cases as with
    | nil => simp [HoldInts] at hh
    | cons a as =>
    obtain ⟨ha, hrest⟩ := hh
    obtain ⟨hct, hne⟩ := hc t (List.mem_cons_self ..)
    obtain ⟨σ1, hset⟩ := set_ok_of_get t s.store _ (.int (a + w * d)) hne ha
    obtain ⟨hpt, hp'⟩ := List.pairwise_cons.mp hp
    have hw := writeRef_ok s t (.int (a + w * d)) σ1 hf hset
    have hrest1 : HoldInts σ1 tars as :=
      HoldInts_congr (fun t' ht' => get_set_incomparable hset (hpt t' ht') hct
        (hc t' (List.mem_cons_of_mem _ ht')).1) hrest
    obtain ⟨s', hrun, hf', hpr, hg, htr, hh', hfr⟩ :=
      runKnobLoop_ints d tars ws as { s with store := σ1, trace := s.trace ++ [(true, t)] } hf
        (by simpa using hl) hrest1 (fun t' ht' => hc t' (List.mem_cons_of_mem _ ht')) hp'
    refine ⟨s', ?_, hf', hpr, ⟨hg.1, hg.2.1, hg.2.2⟩, ?_, ⟨?_, hh'⟩, ?_⟩
    · simp only [List.zip_cons_cons, runKnobLoop, ha, pyBin_mul_int, pyBin_add_int, hw, hrun]
    · simp [htr]
    · rw [hfr t hct (fun t' ht' => Capstone.incomparable_symm (hpt t' ht'))]
      exact get_set_same hset
    · intro q hq hi
      rw [hfr q hq (fun t' ht' => hi t' (List.mem_cons_of_mem _ ht'))]
      exact get_set_incomparable hset (hi t (List.mem_cons_self ..)) hct hq

/-! ### one run of a knob task -/

/-- static well-formedness of a knob: as many weights as targets; canonical paths; the targets pairwise
    prefix-incomparable (hence pairwise distinct) and incomparable with the source -/
structure KnobWF (src : Path) (ws : List Int) (tars : List Path) : Prop where
  len : ws.length = tars.length
  csrc : canonPath src
  ctars : ∀ t ∈ tars, canonPath t
  pw : tars.Pairwise Incomparable
  srcInc : ∀ t ∈ tars, Incomparable t src

theorem knob_not_incomparable_self : ∀ p : Path, ¬ Incomparable p p
  | [] => by simp [Incomparable]
  | s :: p => by simp [Incomparable, knob_not_incomparable_self p]

theorem incomparable_left_ne_nil {p q : Path} (h : Incomparable p q) : p ≠ [] := by
  rintro rfl
  simp [Incomparable] at h

/-- ONE RUN.  A knob task whose source holds the int `x`, whose remembered value is the int `p0` and whose targets hold
    the ints `as`, run without an armed fault, completes; target `i` then holds `a_i + w_i * (x - p0)`, the remembered
    value is `x`, the remembered values of the other tasks, every location incomparable with all targets (the source
    among them), `defs`/`idx`/`frozen` are unchanged, no fault gets armed, and the trace gains one write per target. -/
theorem runTask_knob (s : MState) (t : MTask) (src : Path) (ws : List Int) (tars : List Path) (x p0 : Int)
    (as : List Int) (hk : t.kind = .knob src ws tars) (hwf : KnobWF src ws tars) (hf : s.faultIn = none)
    (hsrc : get s.store src = .ok (.int x)) (hprev : lookPrev s.prev t.id = .int p0)
    (htars : HoldInts s.store tars as) :
    ∃ s', runTask s t = (s', none) ∧
      HoldInts s'.store tars (List.zipWith (fun a w => a + w * (x - p0)) as ws) ∧
      lookPrev s'.prev t.id = .int x ∧
      (∀ id, id ≠ t.id → lookPrev s'.prev id = lookPrev s.prev id) ∧
      (∀ q, canonPath q → (∀ a ∈ tars, Incomparable a q) → get s'.store q = get s.store q) ∧
      s'.idx = s.idx ∧ s'.defs = s.defs ∧ s'.frozen = s.frozen ∧ s'.faultIn = none ∧
      s'.trace = s.trace ++ tars.map (fun a => (true, a)) := by
  obtain ⟨s1, hrun, hf1, hpr, hg, htr, hh, hfr⟩ := runKnobLoop_ints (x - p0) tars ws as s hf hwf.len htars
    (fun a ha => ⟨hwf.ctars a ha, incomparable_left_ne_nil (hwf.srcInc a ha)⟩) hwf.pw
  refine ⟨{ s1 with prev := setPrev s1.prev t.id (.int x) }, ?_, hh, ?_, ?_, hfr, hg.1, hg.2.1, hg.2.2, hf1, htr⟩
  · simp only [runTask, hk, hsrc, hprev, pyBin_sub_int, hrun]
  · exact lookPrev_setPrev_same _ _ _
  · intro id hne
    simp only [lookPrev_setPrev_other _ _ _ _ hne, hpr]

/-- the same, read index by index -/
theorem runTask_knob_index (s : MState) (t : MTask) (src : Path) (ws : List Int) (tars : List Path) (x p0 : Int)
    (as : List Int) (hk : t.kind = .knob src ws tars) (hwf : KnobWF src ws tars) (hf : s.faultIn = none)
    (hsrc : get s.store src = .ok (.int x)) (hprev : lookPrev s.prev t.id = .int p0)
    (hlen : as.length = tars.length)
    (htars : ∀ (i : Nat) (h1 : i < tars.length) (h2 : i < as.length), get s.store tars[i] = .ok (.int as[i])) :
    ∃ s', runTask s t = (s', none) ∧
      (∀ (i : Nat) (h1 : i < tars.length) (h2 : i < as.length) (h3 : i < ws.length),
        get s'.store tars[i] = .ok (.int (as[i] + ws[i] * (x - p0)))) ∧
      lookPrev s'.prev t.id = .int x ∧
      (∀ q, canonPath q → (∀ a ∈ tars, Incomparable a q) → get s'.store q = get s.store q) ∧
      s'.idx = s.idx ∧ s'.defs = s.defs ∧ s'.frozen = s.frozen := by
  obtain ⟨s', hrun, hh, hp, _, hfr, h1, h2, h3, _, _⟩ := runTask_knob s t src ws tars x p0 as hk hwf hf hsrc hprev
    (HoldInts_iff_index.mpr ⟨hlen.symm, htars⟩)
  refine ⟨s', hrun, ?_, hp, hfr, h1, h2, h3⟩
  intro i h1 h2 h3
  have := (HoldInts_iff_index.mp hh).2 i h1 (by simp; omega)
  simpa using this

/-! ### the invariant -/

/-- THE INVARIANT of a knob task for the bases `bs`: the remembered value is an int `p` and target `i` holds
    `b_i + w_i * p` -/
def KnobInv (t : MTask) (bs : List Int) (s : MState) : Prop :=
  ∃ src ws tars p, t.kind = .knob src ws tars ∧ lookPrev s.prev t.id = .int p ∧
    HoldInts s.store tars (knobVals bs ws p)

/-- the invariant *settled* at `x`: the source holds the int `x`, the remembered value is `x`, and target `i` holds
    `b_i + w_i * x` — "each target holds what the task prescribes" -/
def KnobAt (t : MTask) (bs : List Int) (x : Int) (s : MState) : Prop :=
  ∃ src ws tars, t.kind = .knob src ws tars ∧ get s.store src = .ok (.int x) ∧ lookPrev s.prev t.id = .int x ∧
    HoldInts s.store tars (knobVals bs ws x)

/-- the source of a knob task currently holds an int -/
def KnobSrcInt (t : MTask) (s : MState) : Prop :=
  ∃ src ws tars x, t.kind = .knob src ws tars ∧ get s.store src = .ok (.int x)

/-- a task that is a well-formed knob -/
def TaskKnobWF (t : MTask) : Prop := ∃ src ws tars, t.kind = .knob src ws tars ∧ KnobWF src ws tars

theorem knob_inj {t : MTask} {src src' : Path} {ws ws' : List Int} {tars tars' : List Path}
    (h : t.kind = .knob src ws tars) (h' : t.kind = .knob src' ws' tars') : src = src' ∧ ws = ws' ∧ tars = tars' := by
  rw [h] at h'
  cases h'
  exact ⟨rfl, rfl, rfl⟩

theorem KnobAt.inv {t : MTask} {bs : List Int} {x : Int} {s : MState} (h : KnobAt t bs x s) : KnobInv t bs s := by
  obtain ⟨src, ws, tars, hk, _, hp, hh⟩ := h
  exact ⟨src, ws, tars, x, hk, hp, hh⟩

theorem KnobAt.srcInt {t : MTask} {bs : List Int} {x : Int} {s : MState} (h : KnobAt t bs x s) : KnobSrcInt t s := by
  obtain ⟨src, ws, tars, hk, hs, _, _⟩ := h
  exact ⟨src, ws, tars, x, hk, hs⟩

/-- `KnobAt`, unpacked for a task whose kind is known, index by index -/
theorem KnobAt.index {t : MTask} {bs : List Int} {x : Int} {s : MState} (h : KnobAt t bs x s)
    {src : Path} {ws : List Int} {tars : List Path} (hk : t.kind = .knob src ws tars) :
    get s.store src = .ok (.int x) ∧ lookPrev s.prev t.id = .int x ∧
    ∀ (i : Nat) (h1 : i < tars.length) (h2 : i < bs.length) (h3 : i < ws.length),
      get s.store tars[i] = .ok (.int (bs[i] + ws[i] * x)) := by
  obtain ⟨src', ws', tars', hk', hs, hp, hh⟩ := h
  obtain ⟨rfl, rfl, rfl⟩ := knob_inj hk hk'
  refine ⟨hs, hp, fun i h1 h2 h3 => ?_⟩
  have := (HoldInts_iff_index.mp hh).2 i h1 (by simp [knobVals]; omega)
  simpa [knobVals] using this

/-- THE INVARIANT IS RE-ESTABLISHED, SETTLED.  If `KnobInv t bs` holds (whatever the remembered `p0`), the source holds
    the int `x` and no fault is armed, one run completes and leaves `KnobAt t bs x` — the SAME bases: target `i` holds
    `b_i + w_i * value(src)`.  The frame facts of `runTask_knob` come along. -/
theorem runTask_knob_inv (s : MState) (t : MTask) (bs : List Int) (x : Int) (hwf : TaskKnobWF t)
    (hf : s.faultIn = none) (hinv : KnobInv t bs s)
    (hsrc : ∀ src ws tars, t.kind = .knob src ws tars → get s.store src = .ok (.int x)) :
    ∃ s', runTask s t = (s', none) ∧ KnobAt t bs x s' ∧
      (∀ id, id ≠ t.id → lookPrev s'.prev id = lookPrev s.prev id) ∧
      (∀ q, canonPath q → (∀ a ∈ leafTargets t, Incomparable a q) → get s'.store q = get s.store q) ∧
      s'.idx = s.idx ∧ s'.defs = s.defs ∧ s'.frozen = s.frozen ∧ s'.faultIn = none := by
  obtain ⟨src, ws, tars, hk, hw⟩ := hwf
  obtain ⟨src', ws', tars', p0, hk', hp, hh⟩ := hinv
  obtain ⟨rfl, rfl, rfl⟩ := knob_inj hk hk'
  have hx := hsrc src ws tars hk
  obtain ⟨s', hrun, hh', hp', hpo, hfr, h1, h2, h3, h4, _⟩ :=
    runTask_knob s t src ws tars x p0 _ hk hw hf hx hp hh
  rw [knobVals_step] at hh'
  have hlt : leafTargets t = tars := by simp [leafTargets, hk]
  refine ⟨s', hrun, ⟨src, ws, tars, hk, ?_, hp', hh'⟩, hpo, ?_, h1, h2, h3, h4⟩
  · rw [hfr src hw.csrc hw.srcInc]; exact hx
  · rw [hlt]; exact hfr

/-- a second run at the same source value changes nothing that the invariant sees: settled stays settled -/
theorem runTask_knob_settled (s : MState) (t : MTask) (bs : List Int) (x : Int) (hwf : TaskKnobWF t)
    (hf : s.faultIn = none) (h : KnobAt t bs x s) :
    ∃ s', runTask s t = (s', none) ∧ KnobAt t bs x s' := by
  obtain ⟨s', hrun, hat, _⟩ := runTask_knob_inv s t bs x hwf hf h.inv (by
    intro src ws tars hk
    obtain ⟨src', ws', tars', hk', hs, _, _⟩ := h
    obtain ⟨rfl, rfl, rfl⟩ := knob_inj hk hk'
    exact hs)
  exact ⟨s', hrun, hat⟩

/-! ### registration establishes the invariant -/

/-- RIGHT AFTER `register`.  On a manager that is not frozen, registering a knob whose source holds the int `x0` and
    whose targets hold the ints `as` succeeds, leaves the container tree alone, and establishes the invariant, settled at
    `x0`, with the bases `b_i := a_i - w_i * x0`.  (The id need not be fresh: `setPrev` overwrites.) -/
theorem register_knob (s : MState) (t : MTask) (src : Path) (ws : List Int) (tars : List Path) (x0 : Int)
    (as : List Int) (hk : t.kind = .knob src ws tars) (hlen : ws.length = tars.length) (hfz : s.frozen = false)
    (hsrc : get s.store src = .ok (.int x0)) (htars : HoldInts s.store tars as) :
    (register s t).2 = none ∧ (register s t).1.store = s.store ∧ (register s t).1.faultIn = s.faultIn ∧
      (register s t).1.frozen = false ∧
      KnobAt t (knobBases as ws x0) x0 (register s t).1 := by
  have hl : as.length ≤ ws.length := by rw [hlen, htars.length]; exact Nat.le_refl _
  have hst : (register s t).1.store = s.store := by simp [register, hfz]
  have hpv : (register s t).1.prev = setPrev s.prev t.id (.int x0) := by simp [register, hfz, hk, hsrc]
  refine ⟨by simp [register, hfz], hst, by simp [register, hfz], by simp [register, hfz],
    src, ws, tars, hk, ?_, ?_, ?_⟩
  · rw [hst]; exact hsrc
  · rw [hpv]; exact lookPrev_setPrev_same _ _ _
  · rw [hst, knobVals_knobBases x0 as ws hl]
    exact htars

/-! ### several knob tasks, in any order -/

/-- the locations a knob task looks at: its source and its targets -/
def knobLocs (t : MTask) : List Path :=
  match t.kind with
  | .knob src _ tars => src :: tars
  | _ => []

theorem knobLocs_knob {t : MTask} {src : Path} {ws : List Int} {tars : List Path} (hk : t.kind = .knob src ws tars) :
    knobLocs t = src :: tars := by simp [knobLocs, hk]

theorem leafTargets_knob {t : MTask} {src : Path} {ws : List Int} {tars : List Path}
    (hk : t.kind = .knob src ws tars) : leafTargets t = tars := by simp [leafTargets, hk]

theorem knobLocs_canon {t : MTask} (hwf : TaskKnobWF t) : ∀ q ∈ knobLocs t, canonPath q := by
  obtain ⟨src, ws, tars, hk, hw⟩ := hwf
  intro q hq
  rw [knobLocs_knob hk] at hq
  rcases List.mem_cons.mp hq with rfl | hq
  · exact hw.csrc
  · exact hw.ctars q hq

/-- two tasks with different ids neither of which writes a location the other one looks at -/
def KnobApart (t u : MTask) : Prop :=
  t.id ≠ u.id ∧ (∀ a ∈ leafTargets t, ∀ b ∈ knobLocs u, Incomparable a b) ∧
    (∀ a ∈ leafTargets u, ∀ b ∈ knobLocs t, Incomparable a b)

theorem KnobApart.symm {t u : MTask} (h : KnobApart t u) : KnobApart u t := ⟨fun e => h.1 e.symm, h.2.2, h.2.1⟩

/-- the three state predicates of a knob only look at its source, its targets and its own remembered value -/
theorem knob_transfer {u : MTask} {s s' : MState} (hloc : ∀ q ∈ knobLocs u, get s'.store q = get s.store q)
    (hprev : lookPrev s'.prev u.id = lookPrev s.prev u.id) :
    (∀ bs, KnobInv u bs s → KnobInv u bs s') ∧ (∀ bs x, KnobAt u bs x s → KnobAt u bs x s') ∧
      (KnobSrcInt u s → KnobSrcInt u s') := by
  refine ⟨?_, ?_, ?_⟩
  · rintro bs ⟨src, ws, tars, p, hk, hp, hh⟩
    rw [knobLocs_knob hk] at hloc
    exact ⟨src, ws, tars, p, hk, hprev.trans hp,
      HoldInts_congr (fun a ha => hloc a (List.mem_cons_of_mem _ ha)) hh⟩
  · rintro bs x ⟨src, ws, tars, hk, hs, hp, hh⟩
    rw [knobLocs_knob hk] at hloc
    exact ⟨src, ws, tars, hk, (hloc src (List.mem_cons_self ..)).trans hs, hprev.trans hp,
      HoldInts_congr (fun a ha => hloc a (List.mem_cons_of_mem _ ha)) hh⟩
  · rintro ⟨src, ws, tars, x, hk, hs⟩
    rw [knobLocs_knob hk] at hloc
    exact ⟨src, ws, tars, x, hk, (hloc src (List.mem_cons_self ..)).trans hs⟩

/-- SEVERAL KNOBS, ANY ORDER.  `l` is a list of well-formed knob tasks, pairwise apart, each with its invariant (bases
    `B id`) and an integer source, no fault armed.  Running them in the order given completes, and every one of them is
    settled at the value its source had (and still has): target `i` of task `t` holds `(B t.id)_i + w_i * value(src_t)`.
    Remembered values of other ids and locations incomparable with every target are unchanged. -/
theorem runTasks_knobs (B : Path → List Int) : ∀ (l : List MTask) (s : MState), s.faultIn = none →
    (∀ t ∈ l, TaskKnobWF t) → l.Pairwise KnobApart → (∀ t ∈ l, KnobInv t (B t.id) s ∧ KnobSrcInt t s) →
    ∃ s', runTasks s l = (s', none) ∧ s'.faultIn = none ∧ SameGraph s s' ∧
      (∀ t ∈ l, ∀ src ws tars x, t.kind = .knob src ws tars → get s.store src = .ok (.int x) →
        KnobAt t (B t.id) x s') ∧
      (∀ id, (∀ t ∈ l, id ≠ t.id) → lookPrev s'.prev id = lookPrev s.prev id) ∧
      (∀ q, canonPath q → (∀ t ∈ l, ∀ a ∈ leafTargets t, Incomparable a q) → get s'.store q = get s.store q)
  | [], s, hf, _, _, _ =>
    ⟨s, rfl, hf, SameGraph.refl s, fun _ h => (by cases h), fun _ _ => rfl, fun _ _ _ => rfl⟩
  | t :: l, s, hf, hwf, hpw, hready => by
    obtain ⟨hap, hpw'⟩ := List.pairwise_cons.mp hpw
    have hwt := hwf t (List.mem_cons_self ..)
    obtain ⟨hinv, src0, ws0, tars0, x0, hk0, hs0⟩ := hready t (List.mem_cons_self ..)
    obtain ⟨s1, hrun, hat, hpo, hfr, h1, h2, h3, hf1⟩ := runTask_knob_inv s t (B t.id) x0 hwt hf hinv (by
      intro src ws tars hk
      obtain ⟨rfl, rfl, rfl⟩ := knob_inj hk hk0
      exact hs0)
    -- the other tasks do not see the run of `t`
    have hloc1 : ∀ u ∈ l, ∀ q ∈ knobLocs u, get s1.store q = get s.store q := fun u hu q hq =>
      hfr q (knobLocs_canon (hwf u (List.mem_cons_of_mem _ hu)) q hq) (fun a ha => (hap u hu).2.1 a ha q hq)
    have hprev1 : ∀ u ∈ l, lookPrev s1.prev u.id = lookPrev s.prev u.id := fun u hu =>
      hpo u.id (fun e => (hap u hu).1 e.symm)
    obtain ⟨s', hrun', hf', hg', hat', hpo', hfr'⟩ := runTasks_knobs B l s1 hf1
      (fun u hu => hwf u (List.mem_cons_of_mem _ hu)) hpw'
      (fun u hu => by
        obtain ⟨hi, hsi⟩ := hready u (List.mem_cons_of_mem _ hu)
        obtain ⟨t1, _, t3⟩ := knob_transfer (hloc1 u hu) (hprev1 u hu)
        exact ⟨t1 _ hi, t3 hsi⟩)
    refine ⟨s', ?_, hf', ⟨hg'.1.trans h1, hg'.2.1.trans h2, hg'.2.2.trans h3⟩, ?_, ?_, ?_⟩
    · simp only [runTasks, hrun, hrun']
    · intro u hu src ws tars x hk hs
      rcases List.mem_cons.mp hu with rfl | hu
      · -- the head: settled after its own run, and the rest does not touch what it looks at
        obtain ⟨rfl, rfl, rfl⟩ := knob_inj hk hk0
        have hx : x = x0 := by
          rw [hs0] at hs
          cases hs; rfl
        subst hx
        have hloc : ∀ q ∈ knobLocs u, get s'.store q = get s1.store q := fun q hq =>
          hfr' q (knobLocs_canon hwt q hq) (fun w hw a ha => (hap w hw).2.2 a ha q hq)
        have hprev : lookPrev s'.prev u.id = lookPrev s1.prev u.id := hpo' u.id (fun w hw => (hap w hw).1)
        exact (knob_transfer hloc hprev).2.1 _ _ hat
      · refine hat' u hu src ws tars x hk ?_
        rw [hloc1 u hu src (by rw [knobLocs_knob hk]; exact List.mem_cons_self ..)]
        exact hs
    · intro id hid
      rw [hpo' id (fun u hu => hid u (List.mem_cons_of_mem _ hu)), hpo id (hid t (List.mem_cons_self ..))]
    · intro q hq hi
      rw [hfr' q hq (fun u hu => hi u (List.mem_cons_of_mem _ hu)), hfr q hq (hi t (List.mem_cons_self ..))]

/-! ### through the manager: `writeAndRun` / `setValue` -/

/-- the tasks that `set_value(p, ·)` runs, as scheduled: `[self.tasks[id] for id in sched(find_taskids(chain p))]` -/
def knobTriggered (sched : Sched) (s : MState) (p : Path) : Except Err (List MTask) :=
  (sched (findTaskids s.idx (chainR p))).mapM (lookTask s.defs)

/-- `KnobInv` only looks at the targets and the task's own remembered value -/
theorem KnobInv_transfer {u : MTask} {s s' : MState} (hloc : ∀ q ∈ leafTargets u, get s'.store q = get s.store q)
    (hprev : lookPrev s'.prev u.id = lookPrev s.prev u.id) {bs : List Int} (h : KnobInv u bs s) : KnobInv u bs s' := by
  obtain ⟨src, ws, tars, p, hk, hp, hh⟩ := h
  rw [leafTargets_knob hk] at hloc
  exact ⟨src, ws, tars, p, hk, hprev.trans hp, HoldInts_congr hloc hh⟩

/-- THROUGH THE MANAGER, several knobs.  `s` has no armed fault; the assigned path `p` is canonical and writable; the
    scheduled list of triggered tasks is `l` (hypothesis `htrig`, which the driver can evaluate); the triggered tasks are
    well-formed knobs, pairwise apart, none of them writes a location comparable with `p`, each source is `p` itself or
    incomparable with `p`; each has its invariant with bases `B id` and an integer source.  Then assigning the int `v`
    completes, `p` holds `v`, every triggered knob is settled, and those whose source is `p` are settled at `v`:
    target `i` holds `(B id)_i + w_i * v`. -/
theorem writeAndRun_knobs (sched : Sched) (B : Path → List Int) (s : MState) (p : Path) (v : Int) (l : List MTask)
    (σ1 : Val) (hf : s.faultIn = none) (hcp : canonPath p) (hset : set s.store p (.int v) = .ok σ1)
    (htrig : knobTriggered sched s p = .ok l) (hwf : ∀ t ∈ l, TaskKnobWF t) (hap : l.Pairwise KnobApart)
    (hclear : ∀ t ∈ l, ∀ a ∈ leafTargets t, Incomparable a p)
    (hpsrc : ∀ t ∈ l, ∀ src ws tars, t.kind = .knob src ws tars → src = p ∨ Incomparable p src)
    (hinv : ∀ t ∈ l, KnobInv t (B t.id) s ∧ KnobSrcInt t s) :
    ∃ s', writeAndRun sched s p (.int v) = (s', none) ∧ s'.faultIn = none ∧ SameGraph s s' ∧
      get s'.store p = .ok (.int v) ∧
      (∀ t ∈ l, ∃ x, KnobAt t (B t.id) x s') ∧
      (∀ t ∈ l, ∀ src ws tars, t.kind = .knob src ws tars → src = p → KnobAt t (B t.id) v s') ∧
      (∀ id, (∀ t ∈ l, id ≠ t.id) → lookPrev s'.prev id = lookPrev s.prev id) ∧
      (∀ q, canonPath q → Incomparable p q → (∀ t ∈ l, ∀ a ∈ leafTargets t, Incomparable a q) →
        get s'.store q = get s.store q) := by
  have hw := writeRef_ok s p (.int v) σ1 hf hset
  have hpv : get σ1 p = .ok (.int v) := get_set_same hset
  -- the state after the write: targets and remembered values as before, every source an int
  have hsrc1 : ∀ t ∈ l, ∀ src ws tars, t.kind = .knob src ws tars →
      ∃ x, get σ1 src = .ok (.int x) ∧ (src = p → x = v) := by
    intro t ht src ws tars hk
    rcases hpsrc t ht src ws tars hk with rfl | hi
    · exact ⟨v, hpv, fun _ => rfl⟩
    · obtain ⟨src', ws', tars', x, hk', hs⟩ := (hinv t ht).2
      obtain ⟨rfl, rfl, rfl⟩ := knob_inj hk hk'
      obtain ⟨_, _, _, hk2, hw2⟩ := hwf t ht
      obtain ⟨rfl, rfl, rfl⟩ := knob_inj hk hk2
      refine ⟨x, ?_, fun e => ?_⟩
      · rw [get_set_incomparable hset hi hcp hw2.csrc]; exact hs
      · subst e
        exact absurd hi (knob_not_incomparable_self _)
  have hready1 : ∀ t ∈ l, KnobInv t (B t.id) { s with store := σ1, trace := s.trace ++ [(true, p)] } ∧
      KnobSrcInt t { s with store := σ1, trace := s.trace ++ [(true, p)] } := by
    intro t ht
    obtain ⟨src, ws, tars, hk, hw2⟩ := hwf t ht
    refine ⟨KnobInv_transfer (s := s) (s' := { s with store := σ1, trace := s.trace ++ [(true, p)] })
      (fun q hq => ?_) rfl (hinv t ht).1, ?_⟩
    · rw [leafTargets_knob hk] at hq
      exact get_set_incomparable hset
        (Capstone.incomparable_symm (hclear t ht q (by rw [leafTargets_knob hk]; exact hq))) hcp (hw2.ctars q hq)
    · obtain ⟨x, hx, _⟩ := hsrc1 t ht src ws tars hk
      exact ⟨src, ws, tars, x, hk, hx⟩
  obtain ⟨s', hrun, hf', hg, hat, hpo, hfr⟩ :=
    runTasks_knobs B l { s with store := σ1, trace := s.trace ++ [(true, p)] } hf hwf hap hready1
  have hp' : get s'.store p = .ok (.int v) := by
    rw [hfr p hcp hclear]; exact hpv
  refine ⟨s', ?_, hf', ⟨hg.1, hg.2.1, hg.2.2⟩, hp', ?_, ?_, hpo, ?_⟩
  · unfold knobTriggered at htrig
    simp only [writeAndRun, hw, htrig, hrun]
  · intro t ht
    obtain ⟨src, ws, tars, hk, _⟩ := hwf t ht
    obtain ⟨x, hx, _⟩ := hsrc1 t ht src ws tars hk
    exact ⟨x, hat t ht src ws tars x hk hx⟩
  · intro t ht src ws tars hk he
    obtain ⟨x, hx, hxv⟩ := hsrc1 t ht src ws tars hk
    have := hat t ht src ws tars x hk hx
    rw [hxv he] at this
    exact this
  · intro q hq hi hall
    rw [hfr q hq hall]
    exact get_set_incomparable hset hi hcp hq

/-- the same for `set_value` on a location that has no definition of its own -/
theorem setValue_knobs (sched : Sched) (B : Path → List Int) (s : MState) (p : Path) (v : Int) (l : List MTask)
    (σ1 : Val) (hnodef : lookDef s.defs p = none)
    (hf : s.faultIn = none) (hcp : canonPath p) (hset : set s.store p (.int v) = .ok σ1)
    (htrig : knobTriggered sched s p = .ok l) (hwf : ∀ t ∈ l, TaskKnobWF t) (hap : l.Pairwise KnobApart)
    (hclear : ∀ t ∈ l, ∀ a ∈ leafTargets t, Incomparable a p)
    (hpsrc : ∀ t ∈ l, ∀ src ws tars, t.kind = .knob src ws tars → src = p ∨ Incomparable p src)
    (hinv : ∀ t ∈ l, KnobInv t (B t.id) s ∧ KnobSrcInt t s) :
    ∃ s', setValue sched s p (.int v) = (s', none) ∧ s'.faultIn = none ∧ SameGraph s s' ∧
      get s'.store p = .ok (.int v) ∧
      (∀ t ∈ l, ∃ x, KnobAt t (B t.id) x s') ∧
      (∀ t ∈ l, ∀ src ws tars, t.kind = .knob src ws tars → src = p → KnobAt t (B t.id) v s') ∧
      (∀ id, (∀ t ∈ l, id ≠ t.id) → lookPrev s'.prev id = lookPrev s.prev id) ∧
      (∀ q, canonPath q → Incomparable p q → (∀ t ∈ l, ∀ a ∈ leafTargets t, Incomparable a q) →
        get s'.store q = get s.store q) := by
  have : setValue sched s p (.int v) = writeAndRun sched s p (.int v) := by
    unfold setValue; simp only [hnodef]
  rw [this]
  exact writeAndRun_knobs sched B s p v l σ1 hf hcp hset htrig hwf hap hclear hpsrc hinv

/-- THROUGH THE MANAGER, one knob on the assigned path.  The scheduled triggered list is exactly `[t.id]`, `t` is the
    task stored under that id, a well-formed knob with source `p`; `p` is a non-empty path that holds an int; no fault is
    armed; `KnobInv t bs` holds.  After `writeAndRun sched s p (.int v)`: target `i` holds `b_i + w_i * v`. -/
theorem writeAndRun_knob_single (sched : Sched) (s : MState) (t : MTask) (p : Path) (ws : List Int) (tars : List Path)
    (bs : List Int) (x0 v : Int) (hk : t.kind = .knob p ws tars) (hwf : KnobWF p ws tars) (hf : s.faultIn = none)
    (hne : p ≠ []) (hp : get s.store p = .ok (.int x0))
    (hsched : sched (findTaskids s.idx (chainR p)) = [t.id]) (hlook : lookDef s.defs t.id = some t)
    (hinv : KnobInv t bs s) :
    ∃ s', writeAndRun sched s p (.int v) = (s', none) ∧ KnobAt t bs v s' ∧
      (∀ (i : Nat) (h1 : i < tars.length) (h2 : i < bs.length) (h3 : i < ws.length),
        get s'.store tars[i] = .ok (.int (bs[i] + ws[i] * v))) ∧
      get s'.store p = .ok (.int v) ∧ lookPrev s'.prev t.id = .int v ∧
      s'.faultIn = none ∧ SameGraph s s' ∧
      (∀ q, canonPath q → Incomparable p q → (∀ a ∈ tars, Incomparable a q) → get s'.store q = get s.store q) := by
  obtain ⟨σ1, hset⟩ := set_ok_of_get p s.store _ (.int v) hne hp
  have htrig : knobTriggered sched s p = .ok [t] := by
    simp [knobTriggered, hsched, lookTask, hlook, List.mapM_cons, List.mapM_nil]
    rfl
  obtain ⟨s', hrun, hf', hg, hp', _, hat, _, hfr⟩ := writeAndRun_knobs sched (fun _ => bs) s p v [t] σ1 hf hwf.csrc hset
    htrig (fun u hu => by rw [List.mem_singleton.mp hu]; exact ⟨p, ws, tars, hk, hwf⟩) (List.pairwise_singleton _ _)
    (fun u hu a ha => by
      rw [List.mem_singleton.mp hu, leafTargets_knob hk] at ha
      exact hwf.srcInc a ha)
    (fun u hu src ws' tars' hk' => by
      rw [List.mem_singleton.mp hu] at hk'
      exact Or.inl (knob_inj hk' hk).1)
    (fun u hu => by
      rw [List.mem_singleton.mp hu]
      exact ⟨hinv, p, ws, tars, x0, hk, hp⟩)
  have hat' := hat t (List.mem_singleton.mpr rfl) p ws tars hk rfl
  obtain ⟨_, hpv, hidx⟩ := hat'.index hk
  refine ⟨s', hrun, hat', hidx, hp', hpv, hf', hg, fun q hq hi hall => hfr q hq hi ?_⟩
  intro u hu a ha
  rw [List.mem_singleton.mp hu, leafTargets_knob hk] at ha
  exact hall a ha

theorem setValue_knob_single (sched : Sched) (s : MState) (t : MTask) (p : Path) (ws : List Int) (tars : List Path)
    (bs : List Int) (x0 v : Int) (hk : t.kind = .knob p ws tars) (hwf : KnobWF p ws tars) (hf : s.faultIn = none)
    (hne : p ≠ []) (hp : get s.store p = .ok (.int x0)) (hnodef : lookDef s.defs p = none)
    (hsched : sched (findTaskids s.idx (chainR p)) = [t.id]) (hlook : lookDef s.defs t.id = some t)
    (hinv : KnobInv t bs s) :
    ∃ s', setValue sched s p (.int v) = (s', none) ∧ KnobAt t bs v s' ∧
      (∀ (i : Nat) (h1 : i < tars.length) (h2 : i < bs.length) (h3 : i < ws.length),
        get s'.store tars[i] = .ok (.int (bs[i] + ws[i] * v))) ∧
      get s'.store p = .ok (.int v) ∧ lookPrev s'.prev t.id = .int v ∧
      s'.faultIn = none ∧ SameGraph s s' ∧
      (∀ q, canonPath q → Incomparable p q → (∀ a ∈ tars, Incomparable a q) → get s'.store q = get s.store q) := by
  have : setValue sched s p (.int v) = writeAndRun sched s p (.int v) := by
    unfold setValue; simp only [hnodef]
  rw [this]
  exact writeAndRun_knob_single sched s t p ws tars bs x0 v hk hwf hf hne hp hsched hlook hinv

/-! ### any number of assignments: the hypotheses are re-established by every call -/

/-- everything `setValue_knobs` needs, as one predicate on the state (for a fixed scheduler, assigned path, triggered
    list and bases) -/
structure KnobScene (sched : Sched) (p : Path) (l : List MTask) (B : Path → List Int) (s : MState) : Prop where
  fault : s.faultIn = none
  cp : canonPath p
  pne : p ≠ []
  pint : ∃ x, get s.store p = .ok (.int x)
  nodef : lookDef s.defs p = none
  trig : knobTriggered sched s p = .ok l
  wf : ∀ t ∈ l, TaskKnobWF t
  apart : l.Pairwise KnobApart
  pclear : ∀ t ∈ l, ∀ a ∈ leafTargets t, Incomparable a p
  psrc : ∀ t ∈ l, ∀ src ws tars, t.kind = .knob src ws tars → src = p ∨ Incomparable p src
  inv : ∀ t ∈ l, KnobInv t (B t.id) s ∧ KnobSrcInt t s

/-- one `set_value(p, v)` in a scene: completes, the scene holds again (same list, same bases), and the knobs on `p`
    are settled at `v` -/
theorem KnobScene.step {sched : Sched} {p : Path} {l : List MTask} {B : Path → List Int} {s : MState}
    (h : KnobScene sched p l B s) (v : Int) :
    ∃ s', setValue sched s p (.int v) = (s', none) ∧ KnobScene sched p l B s' ∧ get s'.store p = .ok (.int v) ∧
      (∀ t ∈ l, ∃ x, KnobAt t (B t.id) x s') ∧
      (∀ t ∈ l, ∀ src ws tars, t.kind = .knob src ws tars → src = p → KnobAt t (B t.id) v s') := by
  obtain ⟨x, hx⟩ := h.pint
  obtain ⟨σ1, hset⟩ := set_ok_of_get p s.store _ (.int v) h.pne hx
  obtain ⟨s', hrun, hf', hg, hp', hsome, hat, _, _⟩ := setValue_knobs sched B s p v l σ1 h.nodef h.fault h.cp hset
    h.trig h.wf h.apart h.pclear h.psrc h.inv
  refine ⟨s', hrun, ?_, hp', hsome, hat⟩
  exact
    { fault := hf'
      cp := h.cp
      pne := h.pne
      pint := ⟨v, hp'⟩
      nodef := by rw [hg.2.1]; exact h.nodef
      trig := by
        have := h.trig
        unfold knobTriggered at this ⊢
        rw [hg.1, hg.2.1]; exact this
      wf := h.wf
      apart := h.apart
      pclear := h.pclear
      psrc := h.psrc
      inv := fun t ht => by
        obtain ⟨x, hx⟩ := hsome t ht
        exact ⟨hx.inv, hx.srcInt⟩ }

/-- a series of `set_value(p, ·)` calls -/
def knobAssignAll (sched : Sched) (s : MState) (p : Path) : List Int → MState
  | [] => s
  | v :: vs => knobAssignAll sched (setValue sched s p (.int v)).1 p vs

theorem knobAssignAll_scene {sched : Sched} {p : Path} {l : List MTask} {B : Path → List Int} :
    ∀ (vs : List Int) (s : MState), KnobScene sched p l B s → KnobScene sched p l B (knobAssignAll sched s p vs)
  | [], _, h => h
  | v :: vs, s, h => by
    obtain ⟨s', hrun, hsc, _⟩ := h.step v
    simp only [knobAssignAll, hrun]
    exact knobAssignAll_scene vs s' hsc

theorem knobAssignAll_append (sched : Sched) (p : Path) : ∀ (vs : List Int) (s : MState) (v : Int),
    knobAssignAll sched s p (vs ++ [v]) = (setValue sched (knobAssignAll sched s p vs) p (.int v)).1
  | [], _, _ => rfl
  | w :: vs, s, v => by
    simp only [List.cons_append, knobAssignAll]
    exact knobAssignAll_append sched p vs _ v

/-- AFTER ANY NUMBER OF ASSIGNMENTS `p := v_1, …, p := v_n, p := v` (every call completes): the scene still holds,
    `p` holds `v`, and every triggered knob with source `p` is settled at `v` with the bases it started with — target
    `i` holds `(B id)_i + w_i * v`. -/
theorem assignAll_knobs {sched : Sched} {p : Path} {l : List MTask} {B : Path → List Int} {s : MState}
    (h : KnobScene sched p l B s) (vs : List Int) (v : Int) :
    KnobScene sched p l B (knobAssignAll sched s p (vs ++ [v])) ∧
      get (knobAssignAll sched s p (vs ++ [v])).store p = .ok (.int v) ∧
      (∀ t ∈ l, ∀ src ws tars, t.kind = .knob src ws tars → src = p →
        KnobAt t (B t.id) v (knobAssignAll sched s p (vs ++ [v]))) := by
  obtain ⟨s', hrun, hsc, hp, _, hat⟩ := (knobAssignAll_scene vs s h).step v
  rw [knobAssignAll_append, hrun]
  exact ⟨hsc, hp, hat⟩

/-! ### decidable tests of the hypotheses -/

def canonPathB (p : Path) : Bool := p.all stepCanonB

theorem canonPathB_sound {p : Path} (h : canonPathB p = true) : canonPath p := by
  intro st hst
  exact stepCanonB_sound st (List.all_eq_true.mp h st hst)

/-- a Boolean relation holds between every element and every later one -/
def pairwiseB {α : Type} (r : α → α → Bool) : List α → Bool
  | [] => true
  | a :: l => l.all (r a) && pairwiseB r l

theorem pairwiseB_sound {α : Type} {r : α → α → Bool} {R : α → α → Prop} (hr : ∀ a b, r a b = true → R a b) :
    ∀ {l : List α}, pairwiseB r l = true → l.Pairwise R
  | [], _ => List.Pairwise.nil
  | a :: l, h => by
    simp only [pairwiseB, Bool.and_eq_true, List.all_eq_true] at h
    exact List.pairwise_cons.mpr ⟨fun b hb => hr a b (h.1 b hb), pairwiseB_sound hr h.2⟩

def knobWFb (src : Path) (ws : List Int) (tars : List Path) : Bool :=
  decide (ws.length = tars.length) && canonPathB src && tars.all canonPathB &&
    pairwiseB (fun a b => !(comparable a b)) tars && tars.all (fun a => !(comparable a src))

theorem knobWFb_sound {src : Path} {ws : List Int} {tars : List Path} (h : knobWFb src ws tars = true) :
    KnobWF src ws tars := by
  simp only [knobWFb, Bool.and_eq_true, decide_eq_true_eq, List.all_eq_true, Bool.not_eq_true'] at h
  obtain ⟨⟨⟨⟨h1, h2⟩, h3⟩, h4⟩, h5⟩ := h
  exact
    { len := h1
      csrc := canonPathB_sound h2
      ctars := fun t ht => canonPathB_sound (h3 t ht)
      pw := pairwiseB_sound (fun a b hab => incomparable_of_not_comparable a b (by simpa using hab)) h4
      srcInc := fun t ht => incomparable_of_not_comparable t src (h5 t ht) }

def taskKnobWFb (t : MTask) : Bool :=
  match t.kind with
  | .knob src ws tars => knobWFb src ws tars
  | _ => false

theorem taskKnobWFb_sound {t : MTask} (h : taskKnobWFb t = true) : TaskKnobWF t := by
  unfold taskKnobWFb at h
  split at h
  · next src ws tars hk => exact ⟨src, ws, tars, hk, knobWFb_sound h⟩
  · cases h

def knobApartB (t u : MTask) : Bool :=
  !(decide (t.id = u.id)) && (leafTargets t).all (fun a => (knobLocs u).all (fun b => !(comparable a b))) &&
    (leafTargets u).all (fun a => (knobLocs t).all (fun b => !(comparable a b)))

theorem knobApartB_sound (t u : MTask) (h : knobApartB t u = true) : KnobApart t u := by
  simp only [knobApartB, Bool.and_eq_true, Bool.not_eq_true', decide_eq_false_iff_not, List.all_eq_true] at h
  exact ⟨h.1.1, fun a ha b hb => incomparable_of_not_comparable a b (h.1.2 a ha b hb),
    fun a ha b hb => incomparable_of_not_comparable a b (h.2 a ha b hb)⟩

/-- read a list of integer locations -/
def readInts (σ : Val) : List Path → Option (List Int)
  | [] => some []
  | t :: ts =>
    match get σ t, readInts σ ts with
    | .ok (.int a), some as => some (a :: as)
    | _, _ => none

theorem readInts_sound {σ : Val} : ∀ {ts : List Path} {as : List Int}, readInts σ ts = some as → HoldInts σ ts as
  | [], as, h => by
    simp only [readInts, Option.some.injEq] at h
    subst h; trivial
  | t :: ts, as, h => by
    simp only [readInts] at h
    split at h
    · next a as' hg hr =>
      simp only [Option.some.injEq] at h
      subst h
      exact ⟨hg, readInts_sound hr⟩
    · cases h

/-- the invariant and the integer source, tested -/
def knobInvB (t : MTask) (bs : List Int) (s : MState) : Bool :=
  match t.kind with
  | .knob src ws tars =>
    (match lookPrev s.prev t.id, get s.store src with
     | .int p, .ok (.int _) => decide (readInts s.store tars = some (knobVals bs ws p))
     | _, _ => false)
  | _ => false

theorem knobInvB_sound {t : MTask} {bs : List Int} {s : MState} (h : knobInvB t bs s = true) :
    KnobInv t bs s ∧ KnobSrcInt t s := by
  unfold knobInvB at h
  split at h
  · next src ws tars hk =>
    split at h
    · next p x hp hs =>
      exact ⟨⟨src, ws, tars, p, hk, hp, readInts_sound (of_decide_eq_true h)⟩, src, ws, tars, x, hk, hs⟩
    · cases h
  · cases h

def knobSrcOKB (p : Path) (t : MTask) : Bool :=
  match t.kind with
  | .knob src _ _ => decide (src = p) || !(comparable p src)
  | _ => false

def holdsIntB (σ : Val) (p : Path) : Bool :=
  match get σ p with
  | .ok (.int _) => true
  | _ => false

/-- the whole scene for a given triggered list, as the driver can evaluate it -/
def knobSceneListB (p : Path) (l : List MTask) (B : Path → List Int) (s : MState) : Bool :=
  s.faultIn.isNone && canonPathB p && !p.isEmpty && holdsIntB s.store p && (lookDef s.defs p).isNone &&
    l.all taskKnobWFb && pairwiseB knobApartB l &&
    l.all (fun t => (leafTargets t).all (fun a => !(comparable a p))) &&
    l.all (knobSrcOKB p) && l.all (fun t => knobInvB t (B t.id) s)

/-- … with the triggered list computed by the model -/
def knobSceneB (sched : Sched) (p : Path) (B : Path → List Int) (s : MState) : Bool :=
  match knobTriggered sched s p with
  | .ok l => knobSceneListB p l B s
  | .error _ => false

theorem knobSceneListB_sound {sched : Sched} {p : Path} {l : List MTask} {B : Path → List Int} {s : MState}
    (htrig : knobTriggered sched s p = .ok l) (h : knobSceneListB p l B s = true) : KnobScene sched p l B s := by
  simp only [knobSceneListB, Bool.and_eq_true, List.all_eq_true, Bool.not_eq_true', Option.isNone_iff_eq_none] at h
  obtain ⟨⟨⟨⟨⟨⟨⟨⟨⟨h1, h2⟩, h3⟩, h4⟩, h5⟩, h6⟩, h7⟩, h8⟩, h9⟩, h10⟩ := h
  exact
    { fault := h1
      cp := canonPathB_sound h2
      pne := by
        intro e
        rw [e] at h3
        simp at h3
      pint := by
        unfold holdsIntB at h4
        split at h4
        · next x hx => exact ⟨x, hx⟩
        · cases h4
      nodef := h5
      trig := htrig
      wf := fun t ht => taskKnobWFb_sound (h6 t ht)
      apart := pairwiseB_sound knobApartB_sound h7
      pclear := fun t ht a ha => incomparable_of_not_comparable a p (h8 t ht a ha)
      psrc := fun t ht src ws tars hk => by
        have := h9 t ht
        simp only [knobSrcOKB, hk, Bool.or_eq_true, decide_eq_true_eq, Bool.not_eq_true'] at this
        rcases this with e | hc
        · exact Or.inl e
        · exact Or.inr (incomparable_of_not_comparable p src hc)
      inv := fun t ht => knobInvB_sound (h10 t ht) }

theorem knobSceneB_sound {sched : Sched} {p : Path} {B : Path → List Int} {s : MState}
    (h : knobSceneB sched p B s = true) : ∃ l, knobTriggered sched s p = .ok l ∧ KnobScene sched p l B s := by
  unfold knobSceneB at h
  split at h
  · next l hl => exact ⟨l, hl, knobSceneListB_sound hl h⟩
  · cases h

/-! ### after `register` the task is the one stored under its id -/

theorem find?_map_replace (t : MTask) : ∀ (defs : List MTask) (u : MTask),
    defs.find? (fun x => decide (x.id = t.id)) = some u →
    (defs.map (fun x => if x.id = t.id then t else x)).find? (fun x => decide (x.id = t.id)) = some t
  | [], _, h => by simp at h
  | a :: defs, u, h => by
    by_cases ha : a.id = t.id
    · simp [ha]
    · simp only [List.find?_cons, ha, decide_false] at h
      simp only [List.map_cons, ha, if_false, List.find?_cons, decide_false]
      exact find?_map_replace t defs u h

theorem register_lookDef (s : MState) (t : MTask) (hfz : s.frozen = false) :
    lookDef (register s t).1.defs t.id = some t := by
  cases hl : lookDef s.defs t.id with
  | none =>
    have hd : (register s t).1.defs = s.defs ++ [t] := by simp [register, hfz, hl]
    rw [hd]
    simp only [lookDef] at hl ⊢
    rw [List.find?_append, hl]
    simp
  | some u =>
    have hd : (register s t).1.defs = s.defs.map (fun x => if x.id = t.id then t else x) := by
      simp [register, hfz, hl]
    rw [hd]
    simp only [lookDef] at hl ⊢
    exact find?_map_replace t s.defs u hl

/-! ### a concrete run -/

namespace KnobExample

/-- locations of the container `c` -/
def c (a : String) : Path := [.item (.str "c"), .item (.str a)]

/-- `c = {k: 1, t1: 10, t2: 20}` -/
def store0 : Val := .dict [(.str "c", .dict [(.str "k", .int 1), (.str "t1", .int 10), (.str "t2", .int 20)])]

/-- `#K: t1 += 2*Δk, t2 += -1*Δk` -/
def K : MTask := ⟨[.item (.str "#K")], .knob (c "k") [2, -1] [c "t1", c "t2"], [c "k"], [c "t1", c "t2"]⟩

def s0 : MState := { MState.init with store := store0 }
/-- the knob registered at `k = 1` -/
def s1 : MState := (register s0 K).1
/-- then `k := 4` -/
def s2 : MState := (setValue id s1 (c "k") (.int 4)).1
/-- then `k := 0` -/
def s3 : MState := (setValue id s2 (c "k") (.int 0)).1

/-- an integer location, for `decide` (`Val` has no `DecidableEq`) -/
def geti (s : MState) (p : Path) : Option Int :=
  match get s.store p with
  | .ok (.int i) => some i
  | _ => none

-- registered at k = 1: targets untouched, remembered value 1; the bases are 10 - 2*1 = 8 and 20 + 1*1 = 21
example : (register s0 K).2 = none := rfl
example : get s1.store (c "t1") = .ok (.int 10) := rfl
example : get s1.store (c "t2") = .ok (.int 20) := rfl
example : lookPrev s1.prev K.id = .int 1 := rfl
example : knobBases [10, 20] [2, -1] 1 = [8, 21] := by decide
-- k := 4: t1 = 8 + 2*4, t2 = 21 - 4
example : (setValue id s1 (c "k") (.int 4)).2 = none := rfl
example : get s2.store (c "k") = .ok (.int 4) := rfl
example : get s2.store (c "t1") = .ok (.int 16) := rfl
example : get s2.store (c "t2") = .ok (.int 17) := rfl
example : lookPrev s2.prev K.id = .int 4 := rfl
-- k := 0: the targets are the bases
example : (setValue id s2 (c "k") (.int 0)).2 = none := rfl
example : get s3.store (c "k") = .ok (.int 0) := rfl
example : get s3.store (c "t1") = .ok (.int 8) := rfl
example : get s3.store (c "t2") = .ok (.int 21) := rfl
example : lookPrev s3.prev K.id = .int 0 := rfl
example : [geti s1 (c "t1"), geti s1 (c "t2"), geti s2 (c "t1"), geti s2 (c "t2"), geti s3 (c "t1"), geti s3 (c "t2")] =
    [some 10, some 20, some 16, some 17, some 8, some 21] := by decide

-- the decidable tests on this example
example : taskKnobWFb K = true := by decide
example : findTaskids s1.idx (chainR (c "k")) = [K.id] := by decide
example : knobInvB K [8, 21] s1 = true := by decide
example : knobSceneB id (c "k") (fun _ => [8, 21]) s1 = true := by decide

theorem triggered_s1 : knobTriggered id s1 (c "k") = .ok [K] := rfl

/-- the hypotheses of the theorems hold on the example … -/
theorem scene_s1 : KnobScene id (c "k") [K] (fun _ => [8, 21]) s1 :=
  knobSceneListB_sound triggered_s1 (by decide)

/-- … so, whatever integers are assigned to `k` and however many times, afterwards `t1 = 8 + 2*k` and `t2 = 21 - k` -/
theorem example_any_history (vs : List Int) (v : Int) :
    get (knobAssignAll id s1 (c "k") (vs ++ [v])).store (c "t1") = .ok (.int (8 + 2 * v)) ∧
    get (knobAssignAll id s1 (c "k") (vs ++ [v])).store (c "t2") = .ok (.int (21 + -1 * v)) := by
  obtain ⟨_, _, hat⟩ := assignAll_knobs scene_s1 vs v
  have h := (hat K (List.mem_singleton.mpr rfl) (c "k") [2, -1] [c "t1", c "t2"] rfl rfl).index
    (src := c "k") (ws := [2, -1]) (tars := [c "t1", c "t2"]) rfl
  exact ⟨h.2.2 0 (by decide) (by decide) (by decide), h.2.2 1 (by decide) (by decide) (by decide)⟩

end KnobExample

end Manager
