import XModel.ManagerC03b
import XModel.Acyclic
import XModel.ManagerC18Fn
/-!
# C02 on the EXECUTION of the model: the trace, the declared graph, every iteration order

`XProofs/Properties/C02.lean` states C02 for the list `find_taskids` returns.  This file closes the three gaps a
reviewer pointed out.

* (A) **the trace.**  `MState.trace` logs every container write `(true, p)` made through `writeRef` and every action
  call `(false, id)` of a function task, in the order they happen.  `setValue_trace_expr` says what one assignment
  appends to it: the assigned write, then one write per scheduled task in schedule order, and nothing else;
  `setValue_trace_expr_fail` says a failing call appended exactly an initial part of that.  `setValue_trace` /
  `setValue_trace_fail` are the forms for all three task kinds, `setValue_trace_fn` the one for expression and
  function tasks.
* (B) **the declared graph.**  `gOf_iff_declEdge`, `startOf_iff_declStart`: under the index invariant the adjacency
  the code reads from its indices is the relation "a target of `u` is a dependency of `w`" on the task table, and the
  start set is "a dependency of `k` is in the start list".  `findTaskids_iff_declChain`: the scheduled tasks are
  exactly those at the end of a chain of declared edges from a task reading the assigned location or a container
  enclosing it (`mem_chainR_iff`).
* (C) **every iteration order.**  `toposort_any_order_valid`: run the depth-first sort on ANY start list with the
  same elements as the model's and ANY adjacency function with the same neighbour sets — the result is a
  `ValidSched` for the model's graph (when no cycle through two distinct tasks is reachable).  Python's `set`
  iteration order is such a choice, so whatever it is, the schedule is legal.
* `C02_execution` and `C02_execution_any_order` put the three together.
-/
namespace Manager
open Store Push Index

/-! ## (A) what one assignment appends to the trace -/

/-- the events a task logs when it runs to completion: an expression task writes its target; the action call of a
    function task is one event (its own writes are not logged: `runTask` restores the trace after the body); a
    linear knob writes each of its targets -/
def evsOf (t : MTask) : List (Bool × Path) :=
  match t.kind with
  | .expr _ => [(true, t.id)]
  | .func _ => [(false, t.id)]
  | .knob _ ws tars => (ws.zip tars).map (fun wt => ((true, wt.2) : Bool × Path))

/-- the events of the task registered under `id` (none for a stale id) -/
def evsAt (defs : List MTask) (id : Path) : List (Bool × Path) :=
  match lookDef defs id with
  | some t => evsOf t
  | none => []

theorem evsAt_of_lookDef {defs : List MTask} {id : Path} {t : MTask} (h : lookDef defs id = some t) :
    evsAt defs id = evsOf t := by
  unfold evsAt
  rw [h]

theorem evsOf_expr {t : MTask} {e : Expr} (hk : t.kind = .expr e) : evsOf t = [(true, t.id)] := by
  unfold evsOf
  rw [hk]

theorem evsOf_func {t : MTask} {body : List (Path × Expr)} (hk : t.kind = .func body) : evsOf t = [(false, t.id)] := by
  unfold evsOf
  rw [hk]

theorem evsOf_knob {t : MTask} {src : Path} {ws : List Int} {tars : List Path} (hk : t.kind = .knob src ws tars) :
    evsOf t = (ws.zip tars).map (fun wt => ((true, wt.2) : Bool × Path)) := by
  unfold evsOf
  rw [hk]

theorem writeRef_trace_ok (s : MState) (p : Path) (v : Val) (s' : MState) (h : writeRef s p v = (s', none)) :
    s'.trace = s.trace ++ [(true, p)] := by
  unfold writeRef at h
  split at h
  · simp at h
  · split at h
    · simp at h
    · have := (Prod.mk.inj h).1
      subst this
      rfl
    · have := (Prod.mk.inj h).1
      subst this
      rfl

theorem writeRef_trace_err (s : MState) (p : Path) (v : Val) (s' : MState) (e : Err)
    (h : writeRef s p v = (s', some e)) : s'.trace = s.trace := by
  unfold writeRef at h
  split at h
  · have := (Prod.mk.inj h).1
    subst this
    rfl
  · split at h
    · have := (Prod.mk.inj h).1
      subst this
      rfl
    · simp at h
    · simp at h

theorem runKnobLoop_trace (delta : Val) : ∀ (l : List (Int × Path)) (s s' : MState) (x : Option Err),
    runKnobLoop s delta l = (s', x) →
    ∃ pre, pre <+: l.map (fun wt => ((true, wt.2) : Bool × Path)) ∧ s'.trace = s.trace ++ pre ∧
      (x = none → pre = l.map (fun wt => ((true, wt.2) : Bool × Path)))
  | [], s, s', x, h => by
    simp only [runKnobLoop] at h
    obtain ⟨h1, h2⟩ := Prod.mk.inj h
    subst h1
    exact ⟨[], ⟨[], rfl⟩, by simp, fun _ => rfl⟩
  | (w, t) :: rest, s, s', x, h => by
    have stop : ∀ e, (s, some e) = (s', x) → ∃ pre, pre <+: ((w, t) :: rest).map (fun wt => ((true, wt.2) : Bool × Path)) ∧
        s'.trace = s.trace ++ pre ∧ (x = none → pre = ((w, t) :: rest).map (fun wt => ((true, wt.2) : Bool × Path))) := by
      intro e he
      obtain ⟨h1, h2⟩ := Prod.mk.inj he
      subst h1
      subst h2
      exact ⟨[], ⟨_, List.nil_append _⟩, by simp, fun hx => by cases hx⟩
    simp only [runKnobLoop] at h
    split at h
    · exact stop _ h
    · split at h
      · exact stop _ h
      · split at h
        · exact stop _ h
        · next nv _ =>
          cases hw : writeRef s t nv with
          | mk s1 y =>
            rw [hw] at h
            cases y with
            | some y =>
              simp only at h
              obtain ⟨h1, h2⟩ := Prod.mk.inj h
              subst h1
              subst h2
              refine ⟨[], ⟨_, List.nil_append _⟩, ?_, fun hx => by cases hx⟩
              rw [writeRef_trace_err s t nv s1 y hw]
              simp
            | none =>
              simp only at h
              obtain ⟨pre, ⟨post, hpp⟩, htr, hfull⟩ := runKnobLoop_trace delta rest s1 s' x h
              refine ⟨(true, t) :: pre, ⟨post, ?_⟩, ?_, ?_⟩
              · simp only [List.map_cons, List.cons_append, hpp]
              · rw [htr, writeRef_trace_ok s t nv s1 hw]
                simp
              · intro hx
                rw [hfull hx]
                rfl

/-- a task that completes logs exactly its events -/
theorem runTask_trace_ok (s : MState) (t : MTask) (s' : MState) (h : runTask s t = (s', none)) :
    s'.trace = s.trace ++ evsOf t := by
  unfold runTask at h
  split at h
  · next e hk =>
    rw [evsOf_expr hk]
    split at h
    · simp at h
    · exact writeRef_trace_ok s t.id _ s' h
  · next body hk =>
    rw [evsOf_func hk]
    simp only at h
    generalize runBody { s with trace := s.trace ++ [(false, t.id)] } body = r at h
    obtain ⟨s1, x⟩ := r
    simp only at h
    have := (Prod.mk.inj h).1
    subst this
    rfl
  · next src ws tars hk =>
    rw [evsOf_knob hk]
    split at h
    · simp at h
    · split at h
      · simp at h
      · next delta _ =>
        cases hr : runKnobLoop s delta (ws.zip tars) with
        | mk s1 x =>
          rw [hr] at h
          cases x with
          | some x => simp at h
          | none =>
            simp only at h
            have := (Prod.mk.inj h).1
            subst this
            obtain ⟨pre, _, htr, hfull⟩ := runKnobLoop_trace delta (ws.zip tars) s s1 none hr
            rw [hfull rfl] at htr
            exact htr

/-- a task that fails has logged an initial part of its events -/
theorem runTask_trace_err (s : MState) (t : MTask) (s' : MState) (e : Err) (h : runTask s t = (s', some e)) :
    ∃ pre, pre <+: evsOf t ∧ s'.trace = s.trace ++ pre := by
  unfold runTask at h
  split at h
  · next e' hk =>
    refine ⟨[], ⟨_, List.nil_append _⟩, ?_⟩
    split at h
    · have := (Prod.mk.inj h).1
      subst this
      simp
    · rw [writeRef_trace_err s t.id _ s' e h]
      simp
  · next body hk =>
    rw [evsOf_func hk]
    refine ⟨[(false, t.id)], ⟨[], by simp⟩, ?_⟩
    simp only at h
    generalize runBody { s with trace := s.trace ++ [(false, t.id)] } body = r at h
    obtain ⟨s1, x⟩ := r
    simp only at h
    have := (Prod.mk.inj h).1
    subst this
    rfl
  · next src ws tars hk =>
    rw [evsOf_knob hk]
    have stop : ∀ e', (s, some e') = (s', some e) → ∃ pre, pre <+: (ws.zip tars).map (fun wt => ((true, wt.2) : Bool × Path)) ∧
        s'.trace = s.trace ++ pre := by
      intro e' he
      have := (Prod.mk.inj he).1
      subst this
      exact ⟨[], ⟨_, List.nil_append _⟩, by simp⟩
    split at h
    · exact stop _ h
    · split at h
      · exact stop _ h
      · next delta _ =>
        cases hr : runKnobLoop s delta (ws.zip tars) with
        | mk s1 x =>
          rw [hr] at h
          cases x with
          | some x =>
            simp only at h
            have := (Prod.mk.inj h).1
            subst this
            obtain ⟨pre, hpre, htr, _⟩ := runKnobLoop_trace delta (ws.zip tars) s s1 (some x) hr
            exact ⟨pre, hpre, htr⟩
          | none => simp at h

/-- an expression task that fails (evaluation error, failing or faulted write) has logged nothing -/
theorem runTask_trace_err_expr (s : MState) (t : MTask) (e0 : Expr) (hk : t.kind = .expr e0) (s' : MState) (e : Err)
    (h : runTask s t = (s', some e)) : s'.trace = s.trace := by
  simp only [runTask, hk] at h
  split at h
  · have := (Prod.mk.inj h).1
    subst this
    rfl
  · exact writeRef_trace_err s t.id _ s' e h

/-- a completed `run_tasks` logs the events of its tasks, in list order -/
theorem runTasks_trace_ok : ∀ (l : List MTask) (s s' : MState), runTasks s l = (s', none) →
    s'.trace = s.trace ++ l.flatMap evsOf
  | [], s, s', h => by
    simp only [runTasks] at h
    have := (Prod.mk.inj h).1
    subst this
    simp
  | t :: l, s, s', h => by
    simp only [runTasks] at h
    cases hr : runTask s t with
    | mk s1 x =>
      rw [hr] at h
      cases x with
      | some x => simp at h
      | none =>
        simp only at h
        rw [runTasks_trace_ok l s1 s' h, runTask_trace_ok s t s1 hr]
        simp

/-- a failing `run_tasks` logged all events of the tasks before the failing one and an initial part of the events of
    the failing one -/
theorem runTasks_trace_err (l : List MTask) (s s' : MState) (e : Err) (h : runTasks s l = (s', some e)) :
    ∃ pre t post part, l = pre ++ t :: post ∧ part <+: evsOf t ∧
      s'.trace = s.trace ++ (pre.flatMap evsOf ++ part) := by
  obtain ⟨pre, t, post, s1, hl, hpre, hfail⟩ := runTasks_prefix l s s' e h
  obtain ⟨part, hpart, htr⟩ := runTask_trace_err s1 t s' e hfail
  refine ⟨pre, t, post, part, hl, hpart, ?_⟩
  rw [htr, runTasks_trace_ok pre s s1 hpre]
  simp

/-- the looked-up task list, read through any function that only depends on what `lookDef` returns -/
theorem mapM_lookTask_map {β : Type} (defs : List MTask) (f : MTask → β) (g : Path → β)
    (hfg : ∀ id t, lookDef defs id = some t → f t = g id) : ∀ (π : List Path) (l : List MTask),
    π.mapM (lookTask defs) = .ok l → l.map f = π.map g
  | [], l, h => by
    simp only [List.mapM_nil, pure, Except.pure, Except.ok.injEq] at h
    subst h
    rfl
  | x :: π, l, h => by
    simp only [List.mapM_cons, bind, Except.bind] at h
    cases hx : lookTask defs x with
    | error e => simp [hx] at h
    | ok t =>
      simp only [hx] at h
      cases hr : π.mapM (lookTask defs) with
      | error e => simp [hr] at h
      | ok l' =>
        simp only [hr, pure, Except.pure, Except.ok.injEq] at h
        subst h
        simp only [List.map_cons]
        rw [mapM_lookTask_map defs f g hfg π l' hr, hfg x t (lookTask_ok defs x t hx)]

theorem mapM_lookTask_evs (defs : List MTask) (π : List Path) (l : List MTask)
    (h : π.mapM (lookTask defs) = .ok l) : l.flatMap evsOf = π.flatMap (evsAt defs) := by
  rw [List.flatMap_def, List.flatMap_def,
    mapM_lookTask_map defs evsOf (evsAt defs) (fun id t ht => (evsAt_of_lookDef ht).symm) π l h]

/-- a failing look-up stops at a stale id: the list is not empty -/
theorem mapM_lookTask_error_ne_nil (defs : List MTask) (π : List Path) (e : Err)
    (h : π.mapM (lookTask defs) = .error e) : ∃ x rest, π = x :: rest := by
  cases π with
  | nil => simp [pure, Except.pure] at h
  | cons x rest => exact ⟨x, rest, rfl⟩

/-- **trace of `write + run_tasks`, all task kinds, completed call**: the assigned write, then the events of the
    scheduled tasks in schedule order — nothing else.  No hypothesis on the fault counter: a call that completes has
    not met the fault. -/
theorem writeAndRun_trace (sched : Sched) (s : MState) (p : Path) (v : Val) (s' : MState)
    (hok : writeAndRun sched s p v = (s', none)) :
    s'.trace = s.trace ++ (true, p) :: (sched (findTaskids s.idx (chainR p))).flatMap (evsAt s.defs) := by
  rw [writeAndRun_eq_runList] at hok
  unfold runList at hok
  cases hw : writeRef s p v with
  | mk s1 x =>
    rw [hw] at hok
    have hg := writeRef_graph s p v
    rw [hw] at hg
    cases x with
    | some x => simp at hok
    | none =>
      simp only at hok hg
      rw [hg.2.1] at hok
      cases hm : (sched (findTaskids s.idx (chainR p))).mapM (lookTask s.defs) with
      | error e => simp [hm] at hok
      | ok l =>
        rw [hm] at hok
        simp only at hok
        rw [runTasks_trace_ok l s1 s' hok, writeRef_trace_ok s p v s1 hw, mapM_lookTask_evs s.defs _ l hm]
        simp

/-- **trace of `write + run_tasks`, all task kinds, failing call**: either the assigned write itself failed and
    nothing was logged, or the assigned write was logged followed by an initial part of the events of the schedule. -/
theorem writeAndRun_trace_fail (sched : Sched) (s : MState) (p : Path) (v : Val) (s' : MState) (e : Err)
    (hfail : writeAndRun sched s p v = (s', some e)) :
    (writeRef s p v = (s', some e) ∧ s'.trace = s.trace) ∨
    (∃ s1, writeRef s p v = (s1, none) ∧
      ∃ pre, pre <+: (sched (findTaskids s.idx (chainR p))).flatMap (evsAt s.defs) ∧
        s'.trace = s.trace ++ (true, p) :: pre) := by
  rw [writeAndRun_eq_runList] at hfail
  unfold runList at hfail
  cases hw : writeRef s p v with
  | mk s1 x =>
    rw [hw] at hfail
    have hg := writeRef_graph s p v
    rw [hw] at hg
    cases x with
    | some x =>
      simp only at hfail
      obtain ⟨h1, h2⟩ := Prod.mk.inj hfail
      subst h1
      rw [← h2]
      exact Or.inl ⟨rfl, writeRef_trace_err s p v s1 x hw⟩
    | none =>
      right
      refine ⟨s1, rfl, ?_⟩
      simp only at hfail hg
      rw [hg.2.1] at hfail
      cases hm : (sched (findTaskids s.idx (chainR p))).mapM (lookTask s.defs) with
      | error e' =>
        rw [hm] at hfail
        simp only at hfail
        have := (Prod.mk.inj hfail).1
        subst this
        exact ⟨[], ⟨_, List.nil_append _⟩, by rw [writeRef_trace_ok s p v s1 hw]⟩
      | ok l =>
        rw [hm] at hfail
        simp only at hfail
        obtain ⟨pre, t, post, part, hl, ⟨rest, hpart⟩, htr⟩ := runTasks_trace_err l s1 s' e hfail
        refine ⟨pre.flatMap evsOf ++ part, ⟨rest ++ post.flatMap evsOf, ?_⟩, ?_⟩
        · rw [← mapM_lookTask_evs s.defs _ l hm, hl]
          simp only [List.flatMap_append, List.flatMap_cons, List.append_assoc]
          rw [← hpart]
          simp
        · rw [htr, writeRef_trace_ok s p v s1 hw]
          simp

theorem setValue_plain_eq (sched : Sched) (s : MState) (p : Path) (v : Val) (hnodef : lookDef s.defs p = none) :
    setValue sched s p v = writeAndRun sched s p v := by
  unfold setValue
  simp only [hnodef]

/-- **(A), all task kinds, completed call** -/
theorem setValue_trace (sched : Sched) (s : MState) (p : Path) (v : Val) (hnodef : lookDef s.defs p = none)
    (s' : MState) (hok : setValue sched s p v = (s', none)) :
    s'.trace = s.trace ++ (true, p) :: (sched (findTaskids s.idx (chainR p))).flatMap (evsAt s.defs) := by
  rw [setValue_plain_eq sched s p v hnodef] at hok
  exact writeAndRun_trace sched s p v s' hok

/-- **(A), all task kinds, failing call**: what the call appended to the trace is an initial part of what a
    completed call appends -/
theorem setValue_trace_fail (sched : Sched) (s : MState) (p : Path) (v : Val) (hnodef : lookDef s.defs p = none)
    (s' : MState) (e : Err) (hfail : setValue sched s p v = (s', some e)) :
    ∃ pre, pre <+: (true, p) :: (sched (findTaskids s.idx (chainR p))).flatMap (evsAt s.defs) ∧
      s'.trace = s.trace ++ pre := by
  rw [setValue_plain_eq sched s p v hnodef] at hfail
  rcases writeAndRun_trace_fail sched s p v s' e hfail with ⟨_, h⟩ | ⟨_, _, pre, ⟨rest, hpre⟩, htr⟩
  · exact ⟨[], ⟨_, List.nil_append _⟩, by rw [h]; simp⟩
  · exact ⟨(true, p) :: pre, ⟨rest, by rw [← hpre]; simp⟩, htr⟩

theorem mapM_lookTask_all (defs : List MTask) : ∀ (π : List Path) (l : List MTask),
    π.mapM (lookTask defs) = .ok l → ∀ id ∈ π, ∃ t, lookDef defs id = some t
  | [], _, _, id, hid => by cases hid
  | x :: π, l, h, id, hid => by
    simp only [List.mapM_cons, bind, Except.bind] at h
    cases hx : lookTask defs x with
    | error e => simp [hx] at h
    | ok t =>
      simp only [hx] at h
      cases hr : π.mapM (lookTask defs) with
      | error e => simp [hr] at h
      | ok l' =>
        rcases List.mem_cons.mp hid with rfl | hid
        · exact ⟨t, lookTask_ok defs _ t hx⟩
        · exact mapM_lookTask_all defs π l' hr id hid

theorem flatMap_eq_map_of_singleton {α β : Type} (f : α → List β) (g : α → β) : ∀ (π : List α),
    (∀ x ∈ π, f x = [g x]) → π.flatMap f = π.map g
  | [], _ => rfl
  | x :: π, h => by
    simp only [List.flatMap_cons, List.map_cons, h x (List.mem_cons_self ..)]
    rw [flatMap_eq_map_of_singleton f g π (fun y hy => h y (List.mem_cons_of_mem _ hy))]
    rfl

/-- the events of a schedule when every definition is an expression task: one write per task -/
theorem flatMap_evsAt_expr (defs : List MTask) (hex : ∀ t ∈ defs, ∃ e, t.kind = .expr e) (π : List Path)
    (l : List MTask) (hm : π.mapM (lookTask defs) = .ok l) :
    π.flatMap (evsAt defs) = π.map (fun id => ((true, id) : Bool × Path)) := by
  apply flatMap_eq_map_of_singleton
  intro id hid
  obtain ⟨t, ht⟩ := mapM_lookTask_all defs π l hm id hid
  obtain ⟨e, hk⟩ := hex t (lookDef_mem ht)
  rw [evsAt_of_lookDef ht, evsOf_expr hk, lookDef_id ht]

/-- a completed `write + run_tasks` found every scheduled id in the task table -/
theorem writeAndRun_ok_lookup (sched : Sched) (s : MState) (p : Path) (v : Val) (s' : MState)
    (hok : writeAndRun sched s p v = (s', none)) :
    ∃ l, (sched (findTaskids s.idx (chainR p))).mapM (lookTask s.defs) = .ok l := by
  rw [writeAndRun_eq_runList] at hok
  unfold runList at hok
  cases hw : writeRef s p v with
  | mk s1 x =>
    rw [hw] at hok
    have hg := writeRef_graph s p v
    rw [hw] at hg
    cases x with
    | some x => simp at hok
    | none =>
      simp only at hok hg
      rw [hg.2.1] at hok
      cases hm : (sched (findTaskids s.idx (chainR p))).mapM (lookTask s.defs) with
      | error e => simp [hm] at hok
      | ok l => exact ⟨l, rfl⟩

/-- **(A) — the trace theorem for expression tasks.**  Every definition is an expression task; `p` has no
    definition; the call completes.  Then the call appended to the trace exactly: the write to `p`, then ONE write
    per scheduled task, to that task's target, in schedule order.  Each triggered task ran exactly once and nothing
    else wrote.  (No hypothesis on `faultIn` is needed: see `setValue_trace_expr'` for the form with it.) -/
theorem setValue_trace_expr (sched : Sched) (s : MState) (p : Path) (v : Val)
    (hex : ∀ t ∈ s.defs, ∃ e, t.kind = .expr e) (hnodef : lookDef s.defs p = none)
    (s' : MState) (hok : setValue sched s p v = (s', none)) :
    s'.trace = s.trace ++ (true, p) ::
      (sched (findTaskids s.idx (chainR p))).map (fun id => ((true, id) : Bool × Path)) := by
  rw [setValue_trace sched s p v hnodef s' hok]
  rw [setValue_plain_eq sched s p v hnodef] at hok
  obtain ⟨l, hm⟩ := writeAndRun_ok_lookup sched s p v s' hok
  rw [flatMap_evsAt_expr s.defs hex _ l hm]

/-- the same with the hypothesis `s.faultIn = none` of the brief (it is not used) -/
theorem setValue_trace_expr' (sched : Sched) (s : MState) (p : Path) (v : Val)
    (hex : ∀ t ∈ s.defs, ∃ e, t.kind = .expr e) (_hnf : s.faultIn = none) (hnodef : lookDef s.defs p = none)
    (s' : MState) (hok : setValue sched s p v = (s', none)) :
    s'.trace = s.trace ++ (true, p) ::
      (sched (findTaskids s.idx (chainR p))).map (fun id => ((true, id) : Bool × Path)) :=
  setValue_trace_expr sched s p v hex hnodef s' hok

/-- **(A), failing call, expression tasks — the exact form.**  Either the assigned write failed and nothing was
    logged; or the assigned write was logged, the schedule splits as `pre ++ t :: post`, the tasks of `pre` were
    logged one write each in order, and neither the failing task `t` (stale id, evaluation error, failing or
    faulted write) nor any task after it logged anything. -/
theorem setValue_trace_expr_fail_exact (sched : Sched) (s : MState) (p : Path) (v : Val)
    (hex : ∀ t ∈ s.defs, ∃ e, t.kind = .expr e) (hnodef : lookDef s.defs p = none)
    (s' : MState) (e : Err) (hfail : setValue sched s p v = (s', some e)) :
    (writeRef s p v = (s', some e) ∧ s'.trace = s.trace) ∨
    (∃ s1, writeRef s p v = (s1, none) ∧
      ∃ pre t post, sched (findTaskids s.idx (chainR p)) = pre ++ t :: post ∧
        s'.trace = s.trace ++ (true, p) :: pre.map (fun id => ((true, id) : Bool × Path))) := by
  rw [setValue_plain_eq sched s p v hnodef, writeAndRun_eq_runList] at hfail
  unfold runList at hfail
  cases hw : writeRef s p v with
  | mk s1 x =>
    rw [hw] at hfail
    have hg := writeRef_graph s p v
    rw [hw] at hg
    cases x with
    | some x =>
      simp only at hfail
      obtain ⟨h1, h2⟩ := Prod.mk.inj hfail
      subst h1
      rw [← h2]
      exact Or.inl ⟨rfl, writeRef_trace_err s p v s1 x hw⟩
    | none =>
      right
      refine ⟨s1, rfl, ?_⟩
      simp only at hfail hg
      rw [hg.2.1] at hfail
      cases hm : (sched (findTaskids s.idx (chainR p))).mapM (lookTask s.defs) with
      | error e' =>
        rw [hm] at hfail
        simp only at hfail
        have := (Prod.mk.inj hfail).1
        subst this
        obtain ⟨x, rest, hx⟩ := mapM_lookTask_error_ne_nil s.defs _ e' hm
        exact ⟨[], x, rest, hx, by rw [writeRef_trace_ok s p v s1 hw]; rfl⟩
      | ok l =>
        rw [hm] at hfail
        simp only at hfail
        obtain ⟨hlmap, hlsub⟩ := mapM_lookDef s.defs _ (lookTask_ok s.defs) _ l hm
        obtain ⟨pre, t, post, s2, hl, hpre, hft⟩ := runTasks_prefix l s1 s' e hfail
        obtain ⟨et, hkt⟩ := hex t (hlsub t (by rw [hl]; simp))
        refine ⟨pre.map (·.id), t.id, post.map (·.id), ?_, ?_⟩
        · rw [← hlmap, hl]
          simp
        · rw [runTask_trace_err_expr s2 t et hkt s' e hft, runTasks_trace_ok pre s1 s2 hpre,
            writeRef_trace_ok s p v s1 hw]
          have hpe : pre.flatMap evsOf = (pre.map (·.id)).map (fun id => ((true, id) : Bool × Path)) := by
            have hsub : ∀ u ∈ pre, u ∈ s.defs := fun u hu => hlsub u (by rw [hl]; simp [hu])
            clear hpre hl
            induction pre with
            | nil => rfl
            | cons u pre ih =>
              obtain ⟨eu, hku⟩ := hex u (hsub u (List.mem_cons_self ..))
              simp only [List.flatMap_cons, List.map_cons, evsOf_expr hku, List.cons_append, List.nil_append]
              rw [ih (fun w hw => hsub w (List.mem_cons_of_mem _ hw))]
          rw [hpe]
          simp

/-- **(A), failing call, expression tasks — the prefix form**: what a failing call appended to the trace is an
    initial part of what a completed call appends -/
theorem setValue_trace_expr_fail (sched : Sched) (s : MState) (p : Path) (v : Val)
    (hex : ∀ t ∈ s.defs, ∃ e, t.kind = .expr e) (hnodef : lookDef s.defs p = none)
    (s' : MState) (e : Err) (hfail : setValue sched s p v = (s', some e)) :
    ∃ pre, pre <+: (true, p) :: (sched (findTaskids s.idx (chainR p))).map (fun id => ((true, id) : Bool × Path)) ∧
      s'.trace = s.trace ++ pre := by
  rcases setValue_trace_expr_fail_exact sched s p v hex hnodef s' e hfail with
    ⟨_, h⟩ | ⟨_, _, pre, t, post, hπ, htr⟩
  · exact ⟨[], ⟨_, List.nil_append _⟩, by rw [h]; simp⟩
  · refine ⟨(true, p) :: pre.map (fun id => ((true, id) : Bool × Path)),
      ⟨(t :: post).map (fun id => ((true, id) : Bool × Path)), ?_⟩, htr⟩
    rw [hπ]
    simp

/-- `true` for the id of a registered function task -/
def isFuncId (defs : List MTask) (id : Path) : Bool :=
  match lookDef defs id with
  | some t => (match t.kind with | .func _ => true | _ => false)
  | none => false

/-- **(A), expression and function tasks, completed call**: the assigned write, then one event per scheduled task
    in schedule order — a write `(true, id)` for an expression task, an action call `(false, id)` for a function
    task.  (What the action writes is NOT in the trace: the model restores the trace after the body.) -/
theorem setValue_trace_fn (sched : Sched) (s : MState) (p : Path) (v : Val)
    (hk : ∀ t ∈ s.defs, (∃ e, t.kind = .expr e) ∨ ∃ body, t.kind = .func body) (hnodef : lookDef s.defs p = none)
    (s' : MState) (hok : setValue sched s p v = (s', none)) :
    s'.trace = s.trace ++ (true, p) ::
      (sched (findTaskids s.idx (chainR p))).map (fun id => ((!isFuncId s.defs id, id) : Bool × Path)) := by
  rw [setValue_trace sched s p v hnodef s' hok]
  rw [setValue_plain_eq sched s p v hnodef] at hok
  obtain ⟨l, hm⟩ := writeAndRun_ok_lookup sched s p v s' hok
  congr 2
  apply flatMap_eq_map_of_singleton
  intro id hid
  obtain ⟨t, ht⟩ := mapM_lookTask_all s.defs _ l hm id hid
  rw [evsAt_of_lookDef ht]
  rcases hk t (lookDef_mem ht) with ⟨e, hke⟩ | ⟨body, hkb⟩
  · rw [evsOf_expr hke, lookDef_id ht]
    simp only [isFuncId, ht, hke, Bool.not_false]
  · rw [evsOf_func hkb, lookDef_id ht]
    simp only [isFuncId, ht, hkb, Bool.not_true]

/-- the state in which `set_value` writes has the trace of the state it was called in -/
theorem preState_trace (s : MState) (p : Path) : (preState s p).trace = s.trace := by
  unfold preState
  split
  · unfold unregister
    split
    · rfl
    · split <;> rfl
  · rfl

/-- **(A) when the assigned location HAS a definition**: `set_value` first unregisters it; the trace extension is
    the one of `write + run_tasks` in that state (`preState`), i.e. with the schedule and the task table computed
    after the definition at `p` is gone -/
theorem setValue_trace_defined (sched : Sched) (s : MState) (p : Path) (v : Val)
    (s' : MState) (hok : setValue sched s p v = (s', none)) :
    s'.trace = s.trace ++ (true, p) ::
      (sched (findTaskids (preState s p).idx (chainR p))).flatMap (evsAt (preState s p).defs) := by
  rw [← preState_trace s p]
  exact writeAndRun_trace sched (preState s p) p v s' (setValue_eq sched s p v s' hok)

/-! ## (B) the graph in terms of declared dependencies and targets -/

/-- `w` consumes something `u` produces: tasks `tu`, `tw` of the table with these ids, and a location that is a
    declared target of `tu` and a declared dependency of `tw` -/
def declEdge (defs : List MTask) (u w : Path) : Prop :=
  ∃ tu ∈ defs, ∃ tw ∈ defs, tu.id = u ∧ tw.id = w ∧ ∃ d, d ∈ tu.tars ∧ d ∈ tw.deps

/-- task `k` of the table declares a dependency on a location of `D` -/
def declStart (defs : List MTask) (D : List Path) (k : Path) : Prop :=
  ∃ t ∈ defs, t.id = k ∧ ∃ d ∈ D, d ∈ t.deps

/-- a chain of declared edges (possibly empty) -/
inductive DeclChain (defs : List MTask) : Path → Path → Prop
  | refl (a : Path) : DeclChain defs a a
  | step {a b c : Path} : declEdge defs a b → DeclChain defs b c → DeclChain defs a c

theorem look_toIdx {defs : List MTask} {k : Path} {tk : Task Path Path}
    (h : look (defs.map MTask.toIdx) k = some tk) : ∃ t ∈ defs, t.id = k ∧ tk = t.toIdx := by
  obtain ⟨hm, hid⟩ := look_mem h
  obtain ⟨t, ht, rfl⟩ := List.mem_map.mp hm
  exact ⟨t, ht, hid, rfl⟩

/-- **(B1)** the adjacency the code reads from `rtasks` is the declared-edge relation of the task table -/
theorem gOf_iff_declEdge (s : MState) (hi : MInv s) (u w : Path) :
    w ∈ gOf s.idx u ↔ declEdge s.defs u w := by
  rw [gOf_mem_iff s hi]
  constructor
  · intro h
    unfold sRt at h
    cases h1 : look (s.defs.map MTask.toIdx) u with
    | none => simp [h1] at h
    | some tu =>
      cases h2 : look (s.defs.map MTask.toIdx) w with
      | none => simp [h1, h2] at h
      | some tw =>
        simp only [h1, h2] at h
        obtain ⟨d, hd⟩ := List.exists_mem_of_length_pos (Nat.lt_of_lt_of_le Nat.zero_lt_one h)
        obtain ⟨hd1, hd2⟩ := List.mem_filter.mp hd
        obtain ⟨t1, ht1, hid1, rfl⟩ := look_toIdx h1
        obtain ⟨t2, ht2, hid2, rfl⟩ := look_toIdx h2
        exact ⟨t1, ht1, t2, ht2, hid1, hid2, d, hd1, by simp only [decide_eq_true_eq] at hd2; exact hd2⟩
  · rintro ⟨tu, htu, tw, htw, rfl, rfl, d, hd1, hd2⟩
    exact sRt_pos _ tu.id tw.id tu.toIdx tw.toIdx (look_of_mem s.defs hi.ids tu htu)
      (look_of_mem s.defs hi.ids tw htw) d hd1 hd2

/-- **(B2)** the start set the code reads from `deptasks` is the set of tasks declaring a dependency in `D` -/
theorem startOf_iff_declStart (s : MState) (hi : MInv s) (D : List Path) (k : Path) :
    k ∈ startOf s.idx D ↔ declStart s.defs D k := by
  rw [startOf_mem_iff s hi]
  constructor
  · rintro ⟨d, hd, h⟩
    unfold sDep at h
    cases h1 : look (s.defs.map MTask.toIdx) k with
    | none => simp [h1] at h
    | some tk =>
      simp only [h1] at h
      obtain ⟨t, ht, hid, rfl⟩ := look_toIdx h1
      by_cases hdd : d ∈ t.toIdx.deps
      · exact ⟨t, ht, hid, d, hd, hdd⟩
      · simp [hdd] at h
  · rintro ⟨t, ht, rfl, d, hd, hdd⟩
    exact ⟨d, hd, sDep_pos _ t.id t.toIdx (look_of_mem s.defs hi.ids t ht) d hdd⟩

theorem reach_iff_declChain (s : MState) (hi : MInv s) (a b : Path) :
    Dfs3.Reach (gOf s.idx) a b ↔ DeclChain s.defs a b := by
  constructor
  · intro r
    induction r with
    | refl => exact DeclChain.refl _
    | step hab _ ih => exact DeclChain.step ((gOf_iff_declEdge s hi _ _).mp hab) ih
  · intro r
    induction r with
    | refl => exact Dfs3.Reach.refl _
    | step hab _ ih => exact Dfs3.Reach.step ((gOf_iff_declEdge s hi _ _).mpr hab) ih

/-- **(B3)** `find_taskids(D)`: no duplicates, and exactly the tasks at the end of a chain of declared edges that
    starts at a task declaring a dependency in `D` — every graph, cyclic ones included -/
theorem findTaskids_iff_declChain (s : MState) (hi : MInv s) (D : List Path) :
    (findTaskids s.idx D).Nodup ∧
    ∀ x, x ∈ findTaskids s.idx D ↔ ∃ k, declStart s.defs D k ∧ DeclChain s.defs k x := by
  obtain ⟨hnd, hm⟩ := findTaskids_once_exact s hi D
  refine ⟨hnd, fun x => ?_⟩
  rw [hm x]
  constructor
  · rintro ⟨k, hk, r⟩
    exact ⟨k, (startOf_iff_declStart s hi D k).mp hk, (reach_iff_declChain s hi k x).mp r⟩
  · rintro ⟨k, hk, r⟩
    exact ⟨k, (startOf_iff_declStart s hi D k).mpr hk, (reach_iff_declChain s hi k x).mpr r⟩

theorem mem_chain_iff : ∀ (p d : Path), d ∈ chain p ↔ d ≠ [] ∧ d <+: p
  | [], d => by
    simp only [chain, List.not_mem_nil, false_iff, not_and]
    intro hne hp
    exact hne (List.prefix_nil.mp hp)
  | s :: p, d => by
    simp only [chain, List.mem_cons, List.mem_map]
    constructor
    · rintro (rfl | ⟨d', hd', rfl⟩)
      · exact ⟨by simp, List.cons_prefix_cons.mpr ⟨rfl, List.nil_prefix⟩⟩
      · obtain ⟨_, h⟩ := (mem_chain_iff p d').mp hd'
        exact ⟨by simp, List.cons_prefix_cons.mpr ⟨rfl, h⟩⟩
    · rintro ⟨hne, hp⟩
      cases d with
      | nil => exact absurd rfl hne
      | cons a d' =>
        obtain ⟨rfl, hp'⟩ := List.cons_prefix_cons.mp hp
        cases d' with
        | nil => exact Or.inl rfl
        | cons b d'' => exact Or.inr ⟨b :: d'', (mem_chain_iff p _).mpr ⟨by simp, hp'⟩, rfl⟩

/-- the start list of an assignment to `p`: the prefixes of `p` of at least two steps — the assigned location itself
    and every container enclosing it below the registered root container (the root container alone, one step, is
    not a dependency: see the header of `Manager.lean`) -/
theorem mem_chainR_iff : ∀ (p d : Path), d ∈ chainR p ↔ 2 ≤ d.length ∧ d <+: p
  | [], d => by
    simp only [chainR, List.not_mem_nil, false_iff, not_and]
    intro hlen hp
    have := List.prefix_nil.mp hp
    subst this
    simp at hlen
  | l :: p, d => by
    simp only [chainR, List.mem_map]
    constructor
    · rintro ⟨d', hd', rfl⟩
      obtain ⟨hne, h⟩ := (mem_chain_iff p d').mp hd'
      refine ⟨?_, List.cons_prefix_cons.mpr ⟨rfl, h⟩⟩
      cases d' with
      | nil => exact absurd rfl hne
      | cons _ _ => simp
    · rintro ⟨hlen, hp⟩
      cases d with
      | nil => simp at hlen
      | cons a d' =>
        obtain ⟨rfl, hp'⟩ := List.cons_prefix_cons.mp hp
        refine ⟨d', (mem_chain_iff p d').mpr ⟨?_, hp'⟩, rfl⟩
        rintro rfl
        simp at hlen

/-- **(B) for an assignment**: the tasks `find_taskids` lists for an assignment to `p` are exactly those reached by
    a chain of declared edges from a task that declares a dependency on `p` or on a container enclosing it -/
theorem findTaskids_assign_iff (s : MState) (hi : MInv s) (p x : Path) :
    x ∈ findTaskids s.idx (chainR p) ↔
      ∃ t ∈ s.defs, (∃ d ∈ t.deps, 2 ≤ d.length ∧ d <+: p) ∧ DeclChain s.defs t.id x := by
  rw [(findTaskids_iff_declChain s hi (chainR p)).2 x]
  constructor
  · rintro ⟨k, ⟨t, ht, rfl, d, hd, hdt⟩, r⟩
    exact ⟨t, ht, ⟨d, hdt, (mem_chainR_iff p d).mp hd⟩, r⟩
  · rintro ⟨t, ht, ⟨d, hdt, hd⟩, r⟩
    exact ⟨t.id, ⟨t, ht, rfl, d, (mem_chainR_iff p d).mpr hd, hdt⟩, r⟩

/-! ## (C) every iteration order of the sets gives a legal schedule -/

/-- **(C)** Take ANY start list with the same elements as the model's start set (any order, repetitions allowed) and
    ANY adjacency function whose neighbour lists have the same elements as the model's (any order, repetitions
    allowed), and any fuel not below the number of tasks.  If no cycle through two distinct tasks is reachable from
    the start set, the depth-first sort run on them is a legal schedule for the model's graph: no duplicates, the
    same tasks as `find_taskids`, every producer before its consumers. -/
theorem toposort_any_order_valid (s : MState) (hi : MInv s) (D : List Path)
    (g' : Path → List Path) (start' : List Path) (fuel : Nat)
    (hg : ∀ u w, w ∈ g' u ↔ w ∈ gOf s.idx u)
    (hst : ∀ k, k ∈ start' ↔ k ∈ startOf s.idx D)
    (hfuel : fuel ≥ s.defs.length)
    (hac : ∀ a b, (∃ s0 ∈ startOf s.idx D, Dfs3.Reach (gOf s.idx) s0 a) → a ≠ b →
      Dfs3.Reach (gOf s.idx) a b → Dfs3.Reach (gOf s.idx) b a → False) :
    ValidSched (gOf s.idx) (findTaskids s.idx D) (Dfs3.toposort g' fuel start') := by
  have hfuel' : fuel ≥ (s.defs.map (·.id)).length := by
    simp only [List.length_map]
    exact hfuel
  have hstart : ∀ k ∈ start', k ∈ s.defs.map (·.id) := fun k hk => startOf_sub s hi D k ((hst k).mp hk)
  have hclosed : ∀ u ∈ s.defs.map (·.id), ∀ w ∈ g' u, w ∈ s.defs.map (·.id) :=
    fun u _ w hw => gOf_closed s hi u w ((hg u w).mp hw)
  have to : ∀ {a b}, Dfs3.Reach g' a b → Dfs3.Reach (gOf s.idx) a b := fun r => reach_congr _ _ hg r
  have from_ : ∀ {a b}, Dfs3.Reach (gOf s.idx) a b → Dfs3.Reach g' a b :=
    fun r => reach_congr _ _ (fun u w => (hg u w).symm) r
  have hac' : ∀ a b, (∃ s0 ∈ start', Dfs3.Reach g' s0 a) → a ≠ b → Dfs3.Reach g' a b → Dfs3.Reach g' b a → False := by
    rintro a b ⟨s0, hs0, r⟩ hne hab hba
    exact hac a b ⟨s0, (hst s0).mp hs0, to r⟩ hne (to hab) (to hba)
  obtain ⟨_, hm⟩ := findTaskids_once_exact s hi D
  have hmem' := Dfs3.toposort_mem_iff' g' _ start' fuel hfuel' hstart hclosed
  refine ⟨Dfs3.toposort_nodup' g' _ start' fuel hfuel' hstart hclosed, ?_, ?_⟩
  · intro x
    rw [hmem' x, hm x]
    constructor
    · rintro ⟨s0, hs0, r⟩
      exact ⟨s0, (hst s0).mp hs0, to r⟩
    · rintro ⟨s0, hs0, r⟩
      exact ⟨s0, (hst s0).mpr hs0, from_ r⟩
  · intro u w hu _ hwg hne
    exact Dfs3.toposort_before g' _ start' fuel hfuel' hstart hclosed hac' u w hu ((hg u w).mpr hwg) hne

/-- (C) in the form of the brief: `start'` a permutation of the model's start list, `g'` with the same neighbour
    sets, the fuel of `findTaskids` -/
theorem toposort_perm_valid (s : MState) (hi : MInv s) (D : List Path)
    (g' : Path → List Path) (start' : List Path)
    (hg : ∀ u w, w ∈ g' u ↔ w ∈ gOf s.idx u)
    (hperm : start'.Perm (startOf s.idx D))
    (hac : ∀ a b, (∃ s0 ∈ startOf s.idx D, Dfs3.Reach (gOf s.idx) s0 a) → a ≠ b →
      Dfs3.Reach (gOf s.idx) a b → Dfs3.Reach (gOf s.idx) b a → False) :
    ValidSched (gOf s.idx) (findTaskids s.idx D) (Dfs3.toposort g' (fuelOf s.idx) start') :=
  toposort_any_order_valid s hi D g' start' (fuelOf s.idx) hg (fun _ => hperm.mem_iff)
    (by have := fuelOf_ge s hi; simpa using this) hac

/-- (C) with the driver's Boolean acyclicity test as hypothesis -/
theorem toposort_perm_valid_decided (s : MState) (hi : MInv s) (D : List Path)
    (g' : Path → List Path) (start' : List Path)
    (hg : ∀ u w, w ∈ g' u ↔ w ∈ gOf s.idx u)
    (hperm : start'.Perm (startOf s.idx D))
    (hac : acyclicFrom s.idx (startOf s.idx D) = true) :
    ValidSched (gOf s.idx) (findTaskids s.idx D) (Dfs3.toposort g' (fuelOf s.idx) start') :=
  toposort_perm_valid s hi D g' start' hg hperm (acyclicFrom_sound s hi D hac)

/-! ## C02 on the execution -/

/-- **C02, on the execution, in terms of the task table.**  Every definition is an expression task, `p` has no
    definition, the scheduler returns a legal order, the call completes.  Then there is a list `π` of task ids with:
    the call appended to the trace exactly the write to `p` followed by one write per element of `π`, in order;
    `π` has no duplicates; its elements are exactly the tasks at the end of a chain of declared edges from a task
    that declares a dependency on `p` or a container enclosing it; and whenever `w` consumes a target of `u`
    (both in `π`, `w ≠ u`), `u` wrote before `w`. -/
theorem C02_execution (sched : Sched) (s : MState) (hi : MInv s) (p : Path) (v : Val)
    (hex : ∀ t ∈ s.defs, ∃ e, t.kind = .expr e) (hnodef : lookDef s.defs p = none)
    (hvs : ValidSched (gOf s.idx) (findTaskids s.idx (chainR p)) (sched (findTaskids s.idx (chainR p))))
    (s' : MState) (hok : setValue sched s p v = (s', none)) :
    ∃ π : List Path,
      s'.trace = s.trace ++ (true, p) :: π.map (fun id => ((true, id) : Bool × Path)) ∧
      π.Nodup ∧
      (∀ x, x ∈ π ↔ ∃ t ∈ s.defs, (∃ d ∈ t.deps, 2 ≤ d.length ∧ d <+: p) ∧ DeclChain s.defs t.id x) ∧
      (∀ u w, u ∈ π → w ∈ π → declEdge s.defs u w → w ≠ u → Dfs3.Before π u w) := by
  refine ⟨sched (findTaskids s.idx (chainR p)), setValue_trace_expr sched s p v hex hnodef s' hok, hvs.nodup, ?_, ?_⟩
  · intro x
    rw [hvs.mem x]
    exact findTaskids_assign_iff s hi p x
  · intro u w hu hw he hne
    exact hvs.order u w hu hw ((gOf_iff_declEdge s hi u w).mpr he) hne

/-- **C02 on the execution, whatever the iteration order of the sets**: the scheduler is the depth-first sort run
    on an arbitrary permutation of the start set and arbitrary orderings of the neighbour sets -/
theorem C02_execution_any_order (s : MState) (hi : MInv s) (p : Path) (v : Val)
    (g' : Path → List Path) (start' : List Path)
    (hg : ∀ u w, w ∈ g' u ↔ w ∈ gOf s.idx u)
    (hperm : start'.Perm (startOf s.idx (chainR p)))
    (hac : ∀ a b, (∃ s0 ∈ startOf s.idx (chainR p), Dfs3.Reach (gOf s.idx) s0 a) → a ≠ b →
      Dfs3.Reach (gOf s.idx) a b → Dfs3.Reach (gOf s.idx) b a → False)
    (hex : ∀ t ∈ s.defs, ∃ e, t.kind = .expr e) (hnodef : lookDef s.defs p = none)
    (s' : MState)
    (hok : setValue (fun _ => Dfs3.toposort g' (fuelOf s.idx) start') s p v = (s', none)) :
    ∃ π : List Path,
      s'.trace = s.trace ++ (true, p) :: π.map (fun id => ((true, id) : Bool × Path)) ∧
      π.Nodup ∧
      (∀ x, x ∈ π ↔ ∃ t ∈ s.defs, (∃ d ∈ t.deps, 2 ≤ d.length ∧ d <+: p) ∧ DeclChain s.defs t.id x) ∧
      (∀ u w, u ∈ π → w ∈ π → declEdge s.defs u w → w ≠ u → Dfs3.Before π u w) :=
  C02_execution _ s hi p v hex hnodef (toposort_perm_valid s hi (chainR p) g' start' hg hperm hac) s' hok

/-! ## decidable forms of the kind hypotheses, and concrete instances of every theorem -/

def isExprB (t : MTask) : Bool :=
  match t.kind with
  | .expr _ => true
  | _ => false

def isExprOrFuncB (t : MTask) : Bool :=
  match t.kind with
  | .expr _ => true
  | .func _ => true
  | _ => false

theorem allExpr_of_B (defs : List MTask) (h : defs.all isExprB = true) : ∀ t ∈ defs, ∃ e, t.kind = .expr e := by
  intro t ht
  have := List.all_eq_true.mp h t ht
  unfold isExprB at this
  split at this
  · next e hk => exact ⟨e, hk⟩
  · cases this

theorem allExprOrFunc_of_B (defs : List MTask) (h : defs.all isExprOrFuncB = true) :
    ∀ t ∈ defs, (∃ e, t.kind = .expr e) ∨ ∃ body, t.kind = .func body := by
  intro t ht
  have := List.all_eq_true.mp h t ht
  unfold isExprOrFuncB at this
  split at this
  · next e hk => exact Or.inl ⟨e, hk⟩
  · next body hk => exact Or.inr ⟨body, hk⟩
  · cases this

/-! ### expression tasks: `c = a + b`, `e = c * a`, `f = a + 1`; the assignment `a = 5` -/
namespace TraceExample
def da : Path := [.item (.str "d"), .item (.str "a")]
def db : Path := [.item (.str "d"), .item (.str "b")]
def dc : Path := [.item (.str "d"), .item (.str "c")]
def de : Path := [.item (.str "d"), .item (.str "e")]
def df : Path := [.item (.str "d"), .item (.str "f")]
def sE0 : MState :=
  { MState.init with store := .dict [(.str "d", .dict [(.str "a", .int 1), (.str "b", .int 2), (.str "c", .none),
      (.str "e", .none), (.str "f", .none)])] }
def sE1 : MState := (setExpr id sE0 dc (.bin "Add" (.ref da) (.ref db))).1
def sE2 : MState := (setExpr id sE1 de (.bin "Mul" (.ref dc) (.ref da))).1
def sE : MState := (setExpr id sE2 df (.bin "Add" (.ref da) (.lit (.int 1)))).1

theorem sE_inv : MInv sE :=
  setExpr_MInv id sE2 df _ (setExpr_MInv id sE1 de _ (setExpr_MInv id sE0 dc _
    (MInv_of_sameGraph (s := MState.init) ⟨rfl, rfl, rfl⟩ MInv.init)))

/-- the hypotheses of the theorems hold in `sE` for the assignment to `a` -/
theorem sE_hyps : lookDef sE.defs da = none ∧ sE.defs.all isExprB = true ∧ sE.faultIn = none ∧
    acyclicFrom sE.idx (startOf sE.idx (chainR da)) = true := by decide

/-- the model's own schedule: `f`, then `c`, then `e` (which reads `c`) -/
example : findTaskids sE.idx (chainR da) = [df, dc, de] := by decide

/-- (A) computed: the call completes and appends the write to `a`, then one write per scheduled task, in order -/
example : (setValue id sE da (.int 5)).2 = none ∧
    (setValue id sE da (.int 5)).1.trace = sE.trace ++ [(true, da), (true, df), (true, dc), (true, de)] := by decide

/-- (A) as the theorem gives it, for every value and every outcome state of a completed call -/
example (v : Val) (s' : MState) (hok : setValue id sE da v = (s', none)) :
    s'.trace = sE.trace ++ (true, da) :: [df, dc, de].map (fun id => ((true, id) : Bool × Path)) :=
  setValue_trace_expr id sE da v (allExpr_of_B _ sE_hyps.2.1) sE_hyps.1 s' hok

/-- (A), failing call: the third container write raises (`faultIn := some 2`); `a` and `f` were written, `c` and
    `e` were not — a strict initial part of the full extension -/
example : (setValue id { sE with faultIn := some 2 } da (.int 5)).2 = some .fault ∧
    (setValue id { sE with faultIn := some 2 } da (.int 5)).1.trace = sE.trace ++ [(true, da), (true, df)] := by decide

example (v : Val) (k : Option Nat) (s' : MState) (e : Err)
    (hfail : setValue id { sE with faultIn := k } da v = (s', some e)) :
    ∃ pre, pre <+: (true, da) :: [df, dc, de].map (fun id => ((true, id) : Bool × Path)) ∧
      s'.trace = sE.trace ++ pre :=
  setValue_trace_expr_fail id { sE with faultIn := k } da v (allExpr_of_B _ sE_hyps.2.1) sE_hyps.1 s' e hfail

/-- (B): `e` consumes the target of `c`; `e` does not consume the target of `f`; `c` declares a dependency on `a` -/
example : declEdge sE.defs dc de := (gOf_iff_declEdge sE sE_inv dc de).mp (by decide)
example : ¬ declEdge sE.defs df de := fun h => absurd ((gOf_iff_declEdge sE sE_inv df de).mpr h) (by decide)
example : declStart sE.defs (chainR da) dc := (startOf_iff_declStart sE sE_inv (chainR da) dc).mp (by decide)
example : ∃ t ∈ sE.defs, (∃ d ∈ t.deps, 2 ≤ d.length ∧ d <+: da) ∧ DeclChain sE.defs t.id de :=
  (findTaskids_assign_iff sE sE_inv da de).mp (by decide)
/-- `b` is read by `c` only: assigning `b` triggers `c` and `e`, not `f` -/
example : ¬ ∃ t ∈ sE.defs, (∃ d ∈ t.deps, 2 ≤ d.length ∧ d <+: db) ∧ DeclChain sE.defs t.id df :=
  fun h => absurd ((findTaskids_assign_iff sE sE_inv db df).mpr h) (by decide)

/-- (C): iterate the start set and every neighbour set in the opposite order — another list … -/
def g' (u : Path) : List Path := (gOf sE.idx u).reverse
def start' : List Path := (startOf sE.idx (chainR da)).reverse
example : Dfs3.toposort g' (fuelOf sE.idx) start' = [dc, de, df] := by decide
example : Dfs3.toposort g' (fuelOf sE.idx) start' ≠ findTaskids sE.idx (chainR da) := by decide

/-- … which the theorem shows to be a legal schedule … -/
theorem alt_valid : ValidSched (gOf sE.idx) (findTaskids sE.idx (chainR da))
    (Dfs3.toposort g' (fuelOf sE.idx) start') :=
  toposort_perm_valid_decided sE sE_inv (chainR da) g' start' (fun _ _ => List.mem_reverse)
    (List.reverse_perm _) sE_hyps.2.2.2

/-- … and the execution follows it: `a`, then `c`, `e`, `f` -/
example : (setValue (fun _ => Dfs3.toposort g' (fuelOf sE.idx) start') sE da (.int 5)).1.trace =
    sE.trace ++ [(true, da), (true, dc), (true, de), (true, df)] := by decide

/-- the combined statement on that run -/
example (v : Val) (s' : MState)
    (hok : setValue (fun _ => Dfs3.toposort g' (fuelOf sE.idx) start') sE da v = (s', none)) :
    ∃ π : List Path,
      s'.trace = sE.trace ++ (true, da) :: π.map (fun id => ((true, id) : Bool × Path)) ∧ π.Nodup ∧
      (∀ x, x ∈ π ↔ ∃ t ∈ sE.defs, (∃ d ∈ t.deps, 2 ≤ d.length ∧ d <+: da) ∧ DeclChain sE.defs t.id x) ∧
      (∀ u w, u ∈ π → w ∈ π → declEdge sE.defs u w → w ≠ u → Dfs3.Before π u w) :=
  C02_execution_any_order sE sE_inv da v g' start' (fun _ _ => List.mem_reverse) (List.reverse_perm _)
    (acyclicFrom_sound sE sE_inv (chainR da) sE_hyps.2.2.2) (allExpr_of_B _ sE_hyps.2.1) sE_hyps.1 s' hok
end TraceExample

/-! ### with a function task: `c = a + b` and `#F : e := c * 2 ; f := a + 1` (the state of `C18FnExample`) -/
namespace TraceFnExample
open C18FnExample

theorem sF_kinds : sF.defs.all isExprOrFuncB = true := by decide

/-- the write to `a`, the write of the expression task `c`, ONE event for the action call of `#F`; the two
    container writes the action makes (`e`, `f`) are not in the trace -/
example : (setValue id sF da (.int 9)).2 = none ∧
    (setValue id sF da (.int 9)).1.trace = sF.trace ++ [(true, da), (true, dc), (false, [.item (.str "#F")])] := by
  decide

example (v : Val) (s' : MState) (hok : setValue id sF da v = (s', none)) :
    s'.trace = sF.trace ++ (true, da) ::
      [dc, [.item (.str "#F")]].map (fun id => ((!isFuncId sF.defs id, id) : Bool × Path)) :=
  setValue_trace_fn id sF da v (allExprOrFunc_of_B _ sF_kinds) sF_hyps.1 s' hok

/-- what the MODEL does on a failure inside a function body (fault at the fourth write: `a`, `c`, `e` written, the
    write of `f` raises): the action-call event of the FAILING function task is in the trace, whereas a failing
    expression task logs nothing (previous section) -/
example : (setValue id { sF with faultIn := some 3 } da (.int 9)).2 = some .fault ∧
    (setValue id { sF with faultIn := some 3 } da (.int 9)).1.trace =
      sF.trace ++ [(true, da), (true, dc), (false, [.item (.str "#F")])] := by decide
end TraceFnExample

#print axioms setValue_trace
#print axioms setValue_trace_fail
#print axioms setValue_trace_defined
#print axioms setValue_trace_expr
#print axioms setValue_trace_expr'
#print axioms setValue_trace_expr_fail_exact
#print axioms setValue_trace_expr_fail
#print axioms setValue_trace_fn
#print axioms gOf_iff_declEdge
#print axioms startOf_iff_declStart
#print axioms findTaskids_iff_declChain
#print axioms mem_chainR_iff
#print axioms findTaskids_assign_iff
#print axioms toposort_any_order_valid
#print axioms toposort_perm_valid
#print axioms toposort_perm_valid_decided
#print axioms C02_execution
#print axioms C02_execution_any_order
#print axioms TraceExample.sE_hyps
#print axioms TraceExample.alt_valid

end Manager
