import XModel.Manager
/-!
Frame facts about the executable manager model: running tasks never touches the task table, the
indices or the freeze flag (C17, C18), every structural entry point is rejected on a frozen manager
with the state unchanged (C17), and a failing `run_tasks` has executed exactly a prefix (C18).
-/
namespace Manager
open Store Push Index

/-- the part of the state that holds definitions and the graph -/
structure Graph where
  idx : Mgr Path Path
  defs : List MTask
  frozen : Bool

def MState.graph (s : MState) : Graph := ⟨s.idx, s.defs, s.frozen⟩

def SameGraph (s s' : MState) : Prop := s'.idx = s.idx ∧ s'.defs = s.defs ∧ s'.frozen = s.frozen

theorem SameGraph.refl (s : MState) : SameGraph s s := ⟨rfl, rfl, rfl⟩
theorem SameGraph.trans {a b c : MState} (h1 : SameGraph a b) (h2 : SameGraph b c) : SameGraph a c :=
  ⟨h2.1.trans h1.1, h2.2.1.trans h1.2.1, h2.2.2.trans h1.2.2⟩

theorem writeRef_graph (s : MState) (p : Path) (v : Val) : SameGraph s (writeRef s p v).1 := by
  unfold writeRef
  split
  · exact SameGraph.refl s
  · split <;> exact ⟨rfl, rfl, rfl⟩

theorem runBody_graph (body : List (Path × Expr)) : ∀ s : MState, SameGraph s (runBody s body).1 := by
  induction body with
  | nil => intro s; exact SameGraph.refl s
  | cons pe rest ih =>
    intro s
    obtain ⟨p, e⟩ := pe
    simp only [runBody]
    split
    · exact SameGraph.refl s
    · next v _ =>
      have hw := writeRef_graph s p v
      generalize writeRef s p v = r at hw ⊢
      obtain ⟨s1, x⟩ := r
      cases x with
      | some x => exact hw
      | none => exact hw.trans (ih s1)

theorem runKnobLoop_graph (delta : Val) (l : List (Int × Path)) :
    ∀ s : MState, SameGraph s (runKnobLoop s delta l).1 := by
  induction l with
  | nil => intro s; exact SameGraph.refl s
  | cons wt rest ih =>
    intro s
    obtain ⟨w, t⟩ := wt
    simp only [runKnobLoop]
    split
    · exact SameGraph.refl s
    · split
      · exact SameGraph.refl s
      · split
        · exact SameGraph.refl s
        · next nv _ =>
          have hw := writeRef_graph s t nv
          generalize writeRef s t nv = r at hw ⊢
          obtain ⟨s1, x⟩ := r
          cases x with
          | some x => exact hw
          | none => exact hw.trans (ih s1)

theorem runTask_graph (s : MState) (t : MTask) : SameGraph s (runTask s t).1 := by
  unfold runTask
  split
  · -- expression task
    split
    · exact SameGraph.refl s
    · exact writeRef_graph s _ _
  · -- function task
    next body _ =>
    have hb := runBody_graph body { s with trace := s.trace ++ [(false, t.id)] }
    simp only
    generalize runBody { s with trace := s.trace ++ [(false, t.id)] } body = r at hb ⊢
    obtain ⟨s1, x⟩ := r
    exact ⟨hb.1, hb.2.1, hb.2.2⟩
  · -- linear knob
    next src ws tars _ =>
    split
    · exact SameGraph.refl s
    · split
      · exact SameGraph.refl s
      · next delta _ =>
        have hk := runKnobLoop_graph delta (ws.zip tars) s
        generalize runKnobLoop s delta (ws.zip tars) = r at hk ⊢
        obtain ⟨s1, x⟩ := r
        cases x with
        | some x => exact hk
        | none => exact ⟨hk.1, hk.2.1, hk.2.2⟩

/-- C18 (second clause): while tasks run, neither the definitions nor the indices nor the flag change -/
theorem runTasks_graph (l : List MTask) : ∀ s : MState, SameGraph s (runTasks s l).1 := by
  induction l with
  | nil => intro s; exact SameGraph.refl s
  | cons t rest ih =>
    intro s
    simp only [runTasks]
    have ht := runTask_graph s t
    generalize runTask s t = r at ht ⊢
    obtain ⟨s1, x⟩ := r
    cases x with
    | some x => exact ht
    | none => exact ht.trans (ih s1)

/-- C18 (third clause): a failing `run_tasks` ran exactly a prefix, and the failing task is the next one -/
theorem runTasks_prefix (l : List MTask) : ∀ (s s' : MState) (e : Err), runTasks s l = (s', some e) →
    ∃ pre t post s1, l = pre ++ t :: post ∧ runTasks s pre = (s1, none) ∧ runTask s1 t = (s', some e) := by
  induction l with
  | nil => intro s s' e h; simp [runTasks] at h
  | cons t rest ih =>
    intro s s' e h
    simp only [runTasks] at h
    cases hr : runTask s t with
    | mk s1 x =>
      rw [hr] at h
      cases x with
      | some x =>
        simp only [Prod.mk.injEq, Option.some.injEq] at h
        refine ⟨[], t, rest, s, rfl, rfl, ?_⟩
        rw [hr, h.1, h.2]
      | none =>
        obtain ⟨pre, t', post, s2, hl, hpre, hfail⟩ := ih s1 s' e h
        refine ⟨t :: pre, t', post, s2, by simp [hl], ?_, hfail⟩
        simp only [runTasks, hr]
        exact hpre

/-- a completed `run_tasks` is the left fold of `runTask` -/
theorem runTasks_ok_append (l1 l2 : List MTask) (s s1 : MState) (h : runTasks s l1 = (s1, none)) :
    runTasks s (l1 ++ l2) = runTasks s1 l2 := by
  induction l1 generalizing s with
  | nil => simp [runTasks] at h; subst h; rfl
  | cons t rest ih =>
    simp only [runTasks, List.cons_append] at h ⊢
    cases hr : runTask s t with
    | mk s2 x =>
      rw [hr] at h
      cases x with
      | some x => simp at h
      | none => exact ih s2 h

/-! ### frozen managers (C17) -/

theorem register_frozen (s : MState) (t : MTask) (h : s.frozen = true) :
    register s t = (s, some .valueError) := by
  simp [register, h, frozenErr]

theorem unregister_frozen (s : MState) (id : Path) (h : s.frozen = true) :
    unregister s id = (s, some .valueError) := by
  simp [unregister, h, frozenErr]

theorem refresh_frozen (s : MState) (h : s.frozen = true) : refresh s = (s, some .valueError) := by
  simp [refresh, h, frozenErr]

/-- assigning an expression is always rejected, whether or not the location had a definition -/
theorem setExpr_frozen (sched : Sched) (s : MState) (p : Path) (e : Expr) (h : s.frozen = true) :
    setExpr sched s p e = (s, some .valueError) := by
  unfold setExpr
  cases hl : lookDef s.defs p with
  | some t => simp [unregister_frozen s p h]
  | none => simp [register_frozen s _ h]

/-- assigning a value to a location that has a definition is rejected -/
theorem setValue_frozen_defined (sched : Sched) (s : MState) (p : Path) (v : Val) (t : MTask)
    (h : s.frozen = true) (hl : lookDef s.defs p = some t) :
    setValue sched s p v = (s, some .valueError) := by
  unfold setValue
  simp [hl, unregister_frozen s p h]

theorem writeAndRun_graph (sched : Sched) (s : MState) (p : Path) (v : Val) :
    SameGraph s (writeAndRun sched s p v).1 := by
  unfold writeAndRun
  have hw := writeRef_graph s p v
  generalize writeRef s p v = r at hw ⊢
  obtain ⟨s1, x⟩ := r
  cases x with
  | some x => exact hw
  | none =>
    simp only
    split
    · exact hw
    · next l _ => exact hw.trans (runTasks_graph l s1)

/-- assigning a plain value to a location without a definition never changes the graph (frozen or
    not): values propagate, definitions stay -/
theorem setValue_plain_graph (sched : Sched) (s : MState) (p : Path) (v : Val)
    (hl : lookDef s.defs p = none) : SameGraph s (setValue sched s p v).1 := by
  unfold setValue
  simp only [hl]
  exact writeAndRun_graph sched s p v

/-- in-place update on a frozen manager: rejected with the state unchanged whenever it would attach
    an expression; otherwise it is a plain assignment -/
theorem inplace_frozen_expr (sched : Sched) (s : MState) (op : String) (p : Path) (operand : Expr) (e : Expr)
    (h : s.frozen = true) (he : exprOf s p = some e) :
    inplace sched s op p operand = (s, some .valueError) := by
  unfold inplace
  simp [he, setExpr_frozen sched s p _ h]

/-- `load` on a frozen manager: rejected at the first pair that would register something; pairs that
    are skipped (`overwrite=False`, target already defined) change nothing -/
theorem load_frozen (s : MState) (ow : Bool) (h : s.frozen = true) :
    ∀ pairs : List (Path × Expr), (load s ow pairs).1 = s ∧
      ((load s ow pairs).2 = some .valueError ∨ (load s ow pairs).2 = none) := by
  intro pairs
  induction pairs with
  | nil => simp [load]
  | cons pe rest ih =>
    obtain ⟨p, e⟩ := pe
    simp only [load]
    cases hl : lookDef s.defs p with
    | some t =>
      cases ow with
      | true => simp [unregister_frozen s p h]
      | false => simpa using ih
    | none => simp [register_frozen s _ h]

/-- cleanup / verify never touch definitions, data or the flag -/
theorem cleanup_defs (s : MState) : (cleanup s).defs = s.defs ∧ (cleanup s).store = s.store ∧
    (cleanup s).frozen = s.frozen := ⟨rfl, rfl, rfl⟩

theorem verify_defs (s : MState) : (verify s).1.defs = s.defs ∧ (verify s).1.store = s.store ∧
    (verify s).1.frozen = s.frozen := by
  unfold verify
  simp only
  split <;> exact ⟨rfl, rfl, rfl⟩

theorem support_cleanupDD {ρ κ : Type} (d : DD ρ κ) : support (cleanupDD d) = support d := by
  unfold support cleanupDD
  rw [List.filter_filter]
  simp

/-- the observable part of the indices: their supports -/
def SameSupports (s s' : MState) : Prop :=
  support s'.idx.rdeps = support s.idx.rdeps ∧ support s'.idx.rtasks = support s.idx.rtasks ∧
  support s'.idx.deptasks = support s.idx.deptasks ∧ support s'.idx.tartasks = support s.idx.tartasks

theorem cleanup_supports (s : MState) : SameSupports s (cleanup s) :=
  ⟨support_cleanupDD _, support_cleanupDD _, support_cleanupDD _, support_cleanupDD _⟩

theorem verify_supports (s : MState) : SameSupports s (verify s).1 := by
  unfold verify
  simp only
  split <;> exact cleanup_supports s

/-- **C17, one call on a frozen manager.**  Whatever the call: either it is rejected with
    `ValueError` and the whole state (definitions, indices, data) is untouched; or it fails on the
    data before anything changed; or it is a plain-value assignment / maintenance call that leaves
    the definitions, the flag and the index supports as they were. -/
theorem frozen_step (sched : Sched) (s : MState) (h : s.frozen = true) (c : Call) :
    ((apply sched s c).2 = some .valueError ∧ (apply sched s c).1 = s) ∨
    (SameGraph s (apply sched s c).1) ∨
    ((apply sched s c).1.defs = s.defs ∧ (apply sched s c).1.store = s.store ∧
     (apply sched s c).1.frozen = s.frozen ∧ SameSupports s (apply sched s c).1) := by
  cases c with
  | setValue p v =>
    simp only [apply]
    cases hl : lookDef s.defs p with
    | some t => exact Or.inl (by simp [setValue_frozen_defined sched s p v t h hl])
    | none => exact Or.inr (Or.inl (setValue_plain_graph sched s p v hl))
  | setExpr p e => exact Or.inl (by simp [apply, setExpr_frozen sched s p e h])
  | inplace op p operand =>
    simp only [apply]
    unfold inplace
    cases he : exprOf s p with
    | some e => exact Or.inl (by simp [setExpr_frozen sched s p _ h])
    | none =>
      simp only
      cases hg : get s.store p with
      | error e => exact Or.inr (Or.inl (SameGraph.refl s))
      | ok old =>
        simp only
        cases operand with
        | lit w =>
          simp only
          cases hb : pyBinRaw op old w with
          | error e => exact Or.inr (Or.inl (SameGraph.refl s))
          | ok v =>
            simp only
            cases hl : lookDef s.defs p with
            | some t => exact Or.inl (by simp [setValue_frozen_defined sched s p v t h hl])
            | none => exact Or.inr (Or.inl (setValue_plain_graph sched s p v hl))
        | ref q => exact Or.inl (by simp [setExpr_frozen sched s p _ h])
        | bin o l r => exact Or.inl (by simp [setExpr_frozen sched s p _ h])
        | un o a => exact Or.inl (by simp [setExpr_frozen sched s p _ h])
  | register t => exact Or.inl (by simp [apply, register_frozen s t h])
  | unregister id => exact Or.inl (by simp [apply, unregister_frozen s id h])
  | load ow pairs =>
    simp only [apply]
    have := load_frozen s ow h pairs
    rcases this.2 with h2 | h2
    · exact Or.inl ⟨h2, this.1⟩
    · exact Or.inr (Or.inl (by rw [this.1]; exact SameGraph.refl s))
  | refresh => exact Or.inl (by simp [apply, refresh_frozen s h])
  | cleanup => exact Or.inr (Or.inr ⟨rfl, rfl, rfl, cleanup_supports s⟩)
  | verify =>
    have := verify_defs s
    exact Or.inr (Or.inr ⟨this.1, this.2.1, this.2.2, verify_supports s⟩)

/-- while frozen, no sequence of calls changes the definitions or the flag -/
theorem frozen_history (sched : Sched) (cs : List Call) : ∀ s : MState, s.frozen = true →
    (applyAll sched s cs).defs = s.defs ∧ (applyAll sched s cs).frozen = true ∧
    SameSupports s (applyAll sched s cs) := by
  induction cs with
  | nil => intro s h; exact ⟨rfl, h, rfl, rfl, rfl, rfl⟩
  | cons c cs ih =>
    intro s h
    simp only [applyAll]
    have hstep : (apply sched s c).1.defs = s.defs ∧ (apply sched s c).1.frozen = s.frozen ∧
        SameSupports s (apply sched s c).1 := by
      rcases frozen_step sched s h c with h1 | h1 | h1
      · rw [h1.2]; exact ⟨rfl, rfl, rfl, rfl, rfl, rfl⟩
      · refine ⟨h1.2.1, h1.2.2, ?_⟩
        unfold SameSupports
        rw [h1.1]
        exact ⟨rfl, rfl, rfl, rfl⟩
      · exact ⟨h1.1, h1.2.2.1, h1.2.2.2⟩
    have h' : (apply sched s c).1.frozen = true := by rw [hstep.2.1]; exact h
    have := ih _ h'
    refine ⟨this.1.trans hstep.1, this.2.1, ?_⟩
    obtain ⟨a1, a2, a3, a4⟩ := this.2.2
    obtain ⟨b1, b2, b3, b4⟩ := hstep.2.2
    exact ⟨a1.trans b1, a2.trans b2, a3.trans b3, a4.trans b4⟩

end Manager

namespace Manager
open Store Push Index

/-! ### the definitional effect of an assignment commits before the first data write (C18) -/

/-- what `set_value(ref, expr)` does to the task table and the indices, before touching any data -/
def defPart (s : MState) (p : Path) (e : Expr) : MState :=
  let s0 := match lookDef s.defs p with
    | some _ => (unregister s p).1
    | none => s
  (register s0 (mkExprTask p e)).1

theorem unregister_graph_of (s s' : MState) (id : Path) (hi : s'.idx = s.idx) (hd : s'.defs = s.defs)
    (hf : s'.frozen = s.frozen) : SameGraph (unregister s id).1 (unregister s' id).1 := by
  unfold unregister
  rw [hf, hd, hi]
  split
  · exact ⟨hi, hd, hf⟩
  · split
    · exact ⟨hi, hd, hf⟩
    · exact ⟨rfl, rfl, rfl⟩

/-- on an unfrozen manager the graph after `set_value(ref, expr)` is `defPart`, whatever happens
    afterwards (evaluation error, failing write, failing task) -/
theorem setExpr_graph (sched : Sched) (s : MState) (p : Path) (e : Expr) (h : s.frozen = false) :
    SameGraph (defPart s p e) (setExpr sched s p e).1 := by
  unfold setExpr defPart
  cases hl : lookDef s.defs p with
  | some t =>
    simp only
    have hu : (unregister s p).2 = none := by simp [unregister, h, hl]
    have hfz : (unregister s p).1.frozen = false := by simp [unregister, h, hl]
    generalize unregister s p = r at hu hfz
    obtain ⟨s0, x0⟩ := r
    simp only at hu hfz
    subst hu
    simp only
    have hr : (register s0 (mkExprTask p e)).2 = none := by simp [register, hfz]
    generalize register s0 (mkExprTask p e) = r at hr
    obtain ⟨s1, x1⟩ := r
    simp only at hr
    subst hr
    simp only
    split
    · exact SameGraph.refl s1
    · exact writeAndRun_graph sched s1 p _
  | none =>
    simp only
    have hr : (register s (mkExprTask p e)).2 = none := by simp [register, h]
    generalize register s (mkExprTask p e) = r at hr
    obtain ⟨s1, x1⟩ := r
    simp only at hr
    subst hr
    simp only
    split
    · exact SameGraph.refl s1
    · exact writeAndRun_graph sched s1 p _

/-- the definitional effect does not depend on the fault that will be injected -/
theorem defPart_fault_independent (s : MState) (p : Path) (e : Expr) (k : Option Nat) :
    SameGraph (defPart s p e) (defPart { s with faultIn := k } p e) := by
  unfold defPart
  simp only
  cases hl : lookDef s.defs p with
  | some t =>
    simp only
    unfold unregister register
    simp only [hl]
    split <;> simp [SameGraph]
    all_goals (split <;> simp)
  | none =>
    simp only
    unfold register
    split <;> simp [SameGraph]
    all_goals (try split <;> simp)

end Manager
