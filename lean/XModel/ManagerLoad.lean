import XModel.ManagerBisim
import XModel.Unique
/-!
# `load` for arbitrary pairs, and `copy_expr_from` with rebound labels

(A) `loadSpec`: the task table after `Manager.load(dump, overwrite)` as a left fold over the pairs, for ARBITRARY
    pairs (repeated targets, targets that are already defined, both values of `overwrite`).  `load_eq` / `load_defs`:
    the model's `load` computes exactly this table, returns no error, changes nothing but the table and the indices,
    and keeps the index invariant.  No well-formedness of the pairs is needed: `mkExprTask` always has duplicate-free
    dependency / target lists (`mkExprTask_nodup`).
(B) `rebindPath` / `rebindExpr`: re-rooting of the paths of a dump in a namespace where labels are rebound;
    `eval_rebind`; `copyExprFrom` = `load` of the filtered, re-rooted dump of another manager.
(C) computed examples.
-/
namespace Manager
open Store Push Index

/-! ## (A) the specification of `load` -/

/-- `taskid in self.tasks` -/
def hasDef (defs : List MTask) (p : Path) : Bool := (lookDef defs p).isSome

/-- one pair of `load`: a defined target is skipped (`overwrite=False`) or its definition is deleted and the new one
    is appended AT THE END of the table (`unregister`, then `register` of a now unknown id); an undefined target gets
    its definition appended -/
def loadStep (ow : Bool) (defs : List MTask) (pe : Path × Expr) : List MTask :=
  if hasDef defs pe.1 then
    (if ow then defs.filter (fun x => !decide (x.id = pe.1)) ++ [mkExprTask pe.1 pe.2] else defs)
  else defs ++ [mkExprTask pe.1 pe.2]

/-- the task table after `load`: the pairs are processed one by one, each one sees the table the previous ones left -/
def loadSpec (ow : Bool) (defs : List MTask) (pairs : List (Path × Expr)) : List MTask :=
  pairs.foldl (loadStep ow) defs

theorem loadSpec_nil (ow : Bool) (defs : List MTask) : loadSpec ow defs [] = defs := rfl

theorem loadSpec_cons (ow : Bool) (defs : List MTask) (pe : Path × Expr) (rest : List (Path × Expr)) :
    loadSpec ow defs (pe :: rest) = loadSpec ow (loadStep ow defs pe) rest := rfl

theorem loadSpec_append (ow : Bool) (defs : List MTask) (l1 l2 : List (Path × Expr)) :
    loadSpec ow defs (l1 ++ l2) = loadSpec ow (loadSpec ow defs l1) l2 := by
  simp [loadSpec, List.foldl_append]

theorem unregister_present (s : MState) (p : Path) (t : MTask) (hf : s.frozen = false) (hl : lookDef s.defs p = some t) :
    unregister s p =
      ({ s with defs := s.defs.filter (fun x => !decide (x.id = p)), idx := unregister' s.idx t.toIdx }, none) := by
  unfold unregister
  simp [hf, hl]

/-- **`load` computes `loadSpec`**: for arbitrary pairs the result is the old state with the table `loadSpec` and
    some indices that satisfy the invariant; containers, knob memory, flag, fault counter and log are untouched -/
theorem load_eq (ow : Bool) : ∀ (pairs : List (Path × Expr)) (s : MState), MInv s → s.frozen = false →
    ∃ m, load s ow pairs = ({ s with defs := loadSpec ow s.defs pairs, idx := m }, none) ∧
         MInv { s with defs := loadSpec ow s.defs pairs, idx := m }
  | [], s, hi, _ => ⟨s.idx, rfl, hi⟩
  | (p, e) :: rest, s, hi, hf => by
    cases hl : lookDef s.defs p with
    | none =>
      have hreg := register_expr_fresh s p e hi hf hl
      have hi2 : MInv (register s (mkExprTask p e)).1 :=
        register_MInv s (mkExprTask p e) hi hf (by simpa [mkExprTask] using hl)
          (mkExprTask_nodup p e).1 (mkExprTask_nodup p e).2
      rw [hreg] at hi2
      obtain ⟨m, hm, him⟩ := load_eq ow rest _ hi2 hf
      have hstep : loadStep ow s.defs (p, e) = s.defs ++ [mkExprTask p e] := by
        simp [loadStep, hasDef, hl]
      refine ⟨m, ?_, ?_⟩
      · simp only [load, hl, hreg]
        rw [hm, loadSpec_cons, hstep]
      · rw [loadSpec_cons, hstep]; exact him
    | some t =>
      cases ow with
      | false =>
        obtain ⟨m, hm, him⟩ := load_eq false rest s hi hf
        have hstep : loadStep false s.defs (p, e) = s.defs := by
          simp [loadStep, hasDef, hl]
        refine ⟨m, ?_, ?_⟩
        · simp only [load, hl, Bool.false_eq_true, if_false]
          rw [hm, loadSpec_cons, hstep]
        · rw [loadSpec_cons, hstep]; exact him
      | true =>
        have hun := unregister_present s p t hf hl
        have hi1 : MInv (unregister s p).1 := unregister_MInv s p t hi hf hl
        have hfree : lookDef (unregister s p).1.defs p = none := lookDef_after_unregister s p t hf hl
        rw [hun] at hi1 hfree
        have hreg := register_expr_fresh _ p e hi1 hf hfree
        have hi2 : MInv (register _ (mkExprTask p e)).1 :=
          register_MInv _ (mkExprTask p e) hi1 hf (by simpa [mkExprTask] using hfree)
            (mkExprTask_nodup p e).1 (mkExprTask_nodup p e).2
        rw [hreg] at hi2
        obtain ⟨m, hm, him⟩ := load_eq true rest _ hi2 hf
        have hstep : loadStep true s.defs (p, e) =
            s.defs.filter (fun x => !decide (x.id = p)) ++ [mkExprTask p e] := by
          simp [loadStep, hasDef, hl]
        refine ⟨m, ?_, ?_⟩
        · simp only [load, hl, if_true, hun, hreg]
          rw [hm, loadSpec_cons, hstep]
        · rw [loadSpec_cons, hstep]; exact him

/-- the form asked for: table, outcome, invariant -/
theorem load_defs (s : MState) (ow : Bool) (pairs : List (Path × Expr)) (hi : MInv s) (hf : s.frozen = false) :
    (load s ow pairs).1.defs = loadSpec ow s.defs pairs ∧ (load s ow pairs).2 = none ∧ MInv (load s ow pairs).1 := by
  obtain ⟨m, hm, him⟩ := load_eq ow pairs s hi hf
  rw [hm]; exact ⟨rfl, rfl, him⟩

/-- (iv) `load` registers definitions and evaluates nothing: containers, knob memory, freeze flag, fault counter
    and event log are those of the old state (the Python `load` does not call `set_value`) -/
theorem load_frame (s : MState) (ow : Bool) (pairs : List (Path × Expr)) (hi : MInv s) (hf : s.frozen = false) :
    (load s ow pairs).1.store = s.store ∧ (load s ow pairs).1.prev = s.prev ∧ (load s ow pairs).1.frozen = false ∧
    (load s ow pairs).1.faultIn = s.faultIn ∧ (load s ow pairs).1.trace = s.trace := by
  obtain ⟨m, hm, _⟩ := load_eq ow pairs s hi hf
  rw [hm]; exact ⟨rfl, rfl, hf, rfl, rfl⟩

/-- in particular no expression changes its value by a `load` -/
theorem load_evalE (s : MState) (ow : Bool) (pairs : List (Path × Expr)) (hi : MInv s) (hf : s.frozen = false)
    (e : Expr) : evalE (load s ow pairs).1 e = evalE s e := by
  unfold evalE; rw [(load_frame s ow pairs hi hf).1]

/-- the self-check passes after any `load` -/
theorem load_verify (s : MState) (ow : Bool) (pairs : List (Path × Expr)) (hi : MInv s) :
    (verify (load s ow pairs).1).2 = none := verify_passes _ (load_MInv ow pairs s hi)

/-! ### what one step does to a lookup -/

theorem lookDef_append (a b : List MTask) (q : Path) : lookDef (a ++ b) q = (lookDef a q).or (lookDef b q) := by
  unfold lookDef; rw [List.find?_append]

theorem lookDef_single (t : MTask) (q : Path) : lookDef [t] q = if t.id = q then some t else none := by
  unfold lookDef
  by_cases h : t.id = q <;> simp [List.find?, h]

theorem lookDef_filter_self (defs : List MTask) (p : Path) :
    lookDef (defs.filter (fun x => !decide (x.id = p))) p = none := by
  unfold lookDef
  rw [List.find?_eq_none]
  intro x hx
  have := (List.mem_filter.mp hx).2
  simpa using this

theorem lookDef_filter_other (defs : List MTask) (p q : Path) (h : q ≠ p) :
    lookDef (defs.filter (fun x => !decide (x.id = p))) q = lookDef defs q := by
  unfold lookDef
  induction defs with
  | nil => rfl
  | cons t rest ih =>
    have hpq : ¬ p = q := fun e => h e.symm
    by_cases h1 : t.id = p
    · simp [h1, hpq, ih]
    · by_cases h2 : t.id = q
      · have h3 : (!decide (t.id = p)) = true := by simp [h1]
        rw [List.filter_cons, if_pos h3, List.find?_cons, List.find?_cons]
        simp [h2]
      · simp [h1, h2, ih]

/-- a table without a definition of `p` is not changed by deleting `p` -/
theorem filter_undefined (defs : List MTask) (p : Path) (h : lookDef defs p = none) :
    defs.filter (fun x => !decide (x.id = p)) = defs := by
  unfold lookDef at h
  rw [List.filter_eq_self]
  intro x hx
  have := List.find?_eq_none.mp h x hx
  simpa using this

/-- with `overwrite=True` the two branches of a step coincide: delete `p` (if present), append the new definition -/
theorem loadStep_true (defs : List MTask) (p : Path) (e : Expr) :
    loadStep true defs (p, e) = defs.filter (fun x => !decide (x.id = p)) ++ [mkExprTask p e] := by
  unfold loadStep hasDef
  cases h : lookDef defs p with
  | none => simp [filter_undefined defs p h]
  | some t => simp

theorem loadStep_false (defs : List MTask) (p : Path) (e : Expr) :
    loadStep false defs (p, e) = if hasDef defs p then defs else defs ++ [mkExprTask p e] := by
  unfold loadStep; simp

theorem lookDef_loadStep_other (ow : Bool) (defs : List MTask) (p q : Path) (e : Expr) (h : q ≠ p) :
    lookDef (loadStep ow defs (p, e)) q = lookDef defs q := by
  have hs : lookDef [mkExprTask p e] q = none := by
    have hpq : ¬ p = q := fun e' => h e'.symm
    rw [lookDef_single]; simp [mkExprTask, hpq]
  cases ow with
  | true => rw [loadStep_true, lookDef_append, lookDef_filter_other _ _ _ h, hs]; simp
  | false =>
    rw [loadStep_false]
    split
    · rfl
    · rw [lookDef_append, hs]; simp

theorem lookDef_loadStep_true (defs : List MTask) (p : Path) (e : Expr) :
    lookDef (loadStep true defs (p, e)) p = some (mkExprTask p e) := by
  rw [loadStep_true, lookDef_append, lookDef_filter_self, lookDef_single]
  simp [mkExprTask]

theorem lookDef_loadStep_false (defs : List MTask) (p : Path) (e : Expr) :
    lookDef (loadStep false defs (p, e)) p = (lookDef defs p).or (some (mkExprTask p e)) := by
  rw [loadStep_false]
  unfold hasDef
  cases h : lookDef defs p with
  | none => simp [lookDef_append, h, lookDef_single, mkExprTask]
  | some t => simp [h]

/-! ### (ii) which definition a location has after `load` -/

/-- the expression of the LAST pair for `q` -/
def lastFor (pairs : List (Path × Expr)) (q : Path) : Option Expr :=
  (pairs.reverse.find? (fun pe => decide (pe.1 = q))).map (·.2)

/-- the expression of the FIRST pair for `q` -/
def firstFor (pairs : List (Path × Expr)) (q : Path) : Option Expr :=
  (pairs.find? (fun pe => decide (pe.1 = q))).map (·.2)

theorem lastFor_cons (p : Path) (e : Expr) (rest : List (Path × Expr)) (q : Path) :
    lastFor ((p, e) :: rest) q = (lastFor rest q).or (if p = q then some e else none) := by
  unfold lastFor
  rw [List.reverse_cons, List.find?_append]
  by_cases h : p = q <;> cases List.find? (fun pe => decide (pe.1 = q)) rest.reverse <;> simp [List.find?, h]

theorem firstFor_cons (p : Path) (e : Expr) (rest : List (Path × Expr)) (q : Path) :
    firstFor ((p, e) :: rest) q = if p = q then some e else firstFor rest q := by
  unfold firstFor
  by_cases h : p = q <;> simp [h]

/-- **overwrite=True**: a target of the dump gets the definition of its LAST pair, every other location keeps what it had -/
theorem lookDef_loadSpec_true : ∀ (pairs : List (Path × Expr)) (defs : List MTask) (q : Path),
    lookDef (loadSpec true defs pairs) q = ((lastFor pairs q).map (mkExprTask q)).or (lookDef defs q)
  | [], defs, q => by simp [loadSpec_nil, lastFor]
  | (p, e) :: rest, defs, q => by
    rw [loadSpec_cons, lookDef_loadSpec_true rest, lastFor_cons]
    by_cases h : p = q
    · subst h
      rw [lookDef_loadStep_true]
      cases lastFor rest p <;> simp
    · rw [lookDef_loadStep_other true defs p q e (fun e' => h e'.symm)]
      cases lastFor rest q <;> simp [h]

/-- **overwrite=False**: an already defined location keeps its definition; a new one gets its FIRST pair -/
theorem lookDef_loadSpec_false : ∀ (pairs : List (Path × Expr)) (defs : List MTask) (q : Path),
    lookDef (loadSpec false defs pairs) q = (lookDef defs q).or ((firstFor pairs q).map (mkExprTask q))
  | [], defs, q => by simp [loadSpec_nil, firstFor]
  | (p, e) :: rest, defs, q => by
    rw [loadSpec_cons, lookDef_loadSpec_false rest, firstFor_cons]
    by_cases h : p = q
    · subst h
      rw [lookDef_loadStep_false]
      cases lookDef defs p <;> simp
    · rw [lookDef_loadStep_other false defs p q e (fun e' => h e'.symm)]
      simp [h]

theorem lastFor_isSome (pairs : List (Path × Expr)) (q : Path) :
    (lastFor pairs q).isSome = true ↔ q ∈ pairs.map (·.1) := by
  induction pairs with
  | nil => simp [lastFor]
  | cons pe rest ih =>
    obtain ⟨p, e⟩ := pe
    rw [lastFor_cons]
    by_cases h : p = q
    · subst h; cases lastFor rest p <;> simp
    · have h' : ¬ q = p := fun e' => h e'.symm
      cases hl : lastFor rest q <;> simp [hl, h, h'] at ih ⊢ <;> exact ih

theorem firstFor_isSome (pairs : List (Path × Expr)) (q : Path) :
    (firstFor pairs q).isSome = true ↔ q ∈ pairs.map (·.1) := by
  induction pairs with
  | nil => simp [firstFor]
  | cons pe rest ih =>
    obtain ⟨p, e⟩ := pe
    rw [firstFor_cons]
    by_cases h : p = q
    · subst h; simp
    · have h' : ¬ q = p := fun e' => h e'.symm
      simp [h, h', ih]

/-- (i) **the defined locations after `load` are the old ones and the targets of the pairs** -/
theorem hasDef_loadSpec (ow : Bool) (pairs : List (Path × Expr)) (defs : List MTask) (q : Path) :
    hasDef (loadSpec ow defs pairs) q = true ↔ hasDef defs q = true ∨ q ∈ pairs.map (·.1) := by
  unfold hasDef
  cases ow with
  | true =>
    rw [lookDef_loadSpec_true, ← lastFor_isSome]
    cases lastFor pairs q <;> cases lookDef defs q <;> simp
  | false =>
    rw [lookDef_loadSpec_false, ← firstFor_isSome]
    cases firstFor pairs q <;> cases lookDef defs q <;> simp

theorem exprOf_of_lookDef (s : MState) (p : Path) (e : Expr) (h : lookDef s.defs p = some (mkExprTask p e)) :
    exprOf s p = some e := by
  unfold exprOf; rw [h]; rfl

/-- (ii) on the manager: with `overwrite=True` the expression of a target of the dump is the one of its last pair -/
theorem load_true_exprOf (s : MState) (pairs : List (Path × Expr)) (hi : MInv s) (hf : s.frozen = false)
    (q : Path) (e : Expr) (h : lastFor pairs q = some e) : exprOf (load s true pairs).1 q = some e := by
  apply exprOf_of_lookDef
  rw [(load_defs s true pairs hi hf).1, lookDef_loadSpec_true, h]; rfl

/-- … and a location that is no target of the dump keeps its task -/
theorem load_true_other (s : MState) (pairs : List (Path × Expr)) (hi : MInv s) (hf : s.frozen = false)
    (q : Path) (h : q ∉ pairs.map (·.1)) : lookDef (load s true pairs).1.defs q = lookDef s.defs q := by
  rw [(load_defs s true pairs hi hf).1, lookDef_loadSpec_true]
  have : lastFor pairs q = none := by
    cases hl : lastFor pairs q with
    | none => rfl
    | some e => exact absurd ((lastFor_isSome pairs q).mp (by simp [hl])) h
  simp [this]

/-- (ii) with `overwrite=False` a defined location keeps its task, whatever the dump says -/
theorem load_false_old (s : MState) (pairs : List (Path × Expr)) (hi : MInv s) (hf : s.frozen = false)
    (q : Path) (t : MTask) (h : lookDef s.defs q = some t) : lookDef (load s false pairs).1.defs q = some t := by
  rw [(load_defs s false pairs hi hf).1, lookDef_loadSpec_false, h]; rfl

/-- … and an undefined location gets the expression of its FIRST pair (none if the dump does not mention it) -/
theorem load_false_new (s : MState) (pairs : List (Path × Expr)) (hi : MInv s) (hf : s.frozen = false)
    (q : Path) (h : lookDef s.defs q = none) :
    lookDef (load s false pairs).1.defs q = (firstFor pairs q).map (mkExprTask q) := by
  rw [(load_defs s false pairs hi hf).1, lookDef_loadSpec_false, h]; simp

/-! ### closed forms: the order of the table -/

/-- the last pair of every target, in the order of these last occurrences -/
def keepLast : List (Path × Expr) → List MTask
  | [] => []
  | pe :: rest => if pe.1 ∈ rest.map (·.1) then keepLast rest else mkExprTask pe.1 pe.2 :: keepLast rest

/-- the first pair of every target not yet `seen`, in the order of these first occurrences -/
def keepFirst (seen : Path → Bool) : List (Path × Expr) → List MTask
  | [] => []
  | pe :: rest =>
    if seen pe.1 then keepFirst seen rest
    else mkExprTask pe.1 pe.2 :: keepFirst (fun q => seen q || decide (q = pe.1)) rest

theorem keepLast_ids : ∀ (pairs : List (Path × Expr)) (t : MTask), t ∈ keepLast pairs → t.id ∈ pairs.map (·.1)
  | [], t, h => by simp [keepLast] at h
  | pe :: rest, t, h => by
    unfold keepLast at h
    split at h
    · exact List.mem_cons_of_mem _ (keepLast_ids rest t h)
    · rcases List.mem_cons.mp h with rfl | h
      · exact List.mem_cons_self ..
      · exact List.mem_cons_of_mem _ (keepLast_ids rest t h)

/-- **overwrite=True, closed form**: the old definitions of locations the dump does not mention, in their old order,
    followed by the last definition of every target in the order of the last occurrences — a re-defined location
    MOVES to the end of the table -/
theorem loadSpec_true_closed : ∀ (pairs : List (Path × Expr)) (defs : List MTask),
    loadSpec true defs pairs = defs.filter (fun t => !decide (t.id ∈ pairs.map (·.1))) ++ keepLast pairs
  | [], defs => by
    simp only [loadSpec_nil, keepLast, List.append_nil]
    exact (List.filter_eq_self.mpr (by simp)).symm
  | (p, e) :: rest, defs => by
    rw [loadSpec_cons, loadStep_true, loadSpec_true_closed rest, List.filter_append, List.filter_filter,
      List.append_assoc]
    congr 1
    · apply List.filter_congr
      intro t _
      by_cases h1 : t.id = p <;> simp [h1]
    · by_cases h : p ∈ rest.map (·.1)
      · have : ([mkExprTask p e].filter (fun t => !decide (t.id ∈ rest.map (·.1)))) = [] := by
          simp [List.filter_cons, mkExprTask]
          simpa using h
        rw [this]; simp [keepLast, h]
      · have : ([mkExprTask p e].filter (fun t => !decide (t.id ∈ rest.map (·.1)))) = [mkExprTask p e] := by
          simp [List.filter_cons, mkExprTask]
          simpa using h
        rw [this]; simp [keepLast, h]

/-- (iii) **loading the same pairs a second time with `overwrite=True` changes nothing** — in the model not even the
    order of the table (the first pass already moved every target to the end, in the order of the last occurrences) -/
theorem loadSpec_true_idem (pairs : List (Path × Expr)) (defs : List MTask) :
    loadSpec true (loadSpec true defs pairs) pairs = loadSpec true defs pairs := by
  rw [loadSpec_true_closed pairs (loadSpec true defs pairs), loadSpec_true_closed pairs defs, List.filter_append,
    List.filter_filter]
  have h1 : (keepLast pairs).filter (fun t => !decide (t.id ∈ pairs.map (·.1))) = [] := by
    rw [List.filter_eq_nil_iff]
    intro t ht
    simp [keepLast_ids pairs t ht]
  rw [h1, List.append_nil]
  congr 1
  apply List.filter_congr
  intro t _
  simp

theorem hasDef_append_single (defs : List MTask) (p : Path) (e : Expr) :
    hasDef (defs ++ [mkExprTask p e]) = fun q => hasDef defs q || decide (q = p) := by
  funext q
  unfold hasDef
  rw [lookDef_append, lookDef_single]
  by_cases h : p = q
  · subst h; cases lookDef defs p <;> simp [mkExprTask]
  · have h' : ¬ q = p := fun e' => h e'.symm
    cases lookDef defs q <;> simp [mkExprTask, h, h']

/-- **overwrite=False, closed form**: the old table is a prefix, unchanged; the first pair of every new target
    is appended in the order of the first occurrences -/
theorem loadSpec_false_closed : ∀ (pairs : List (Path × Expr)) (defs : List MTask),
    loadSpec false defs pairs = defs ++ keepFirst (hasDef defs) pairs
  | [], defs => by simp [loadSpec_nil, keepFirst]
  | (p, e) :: rest, defs => by
    rw [loadSpec_cons, loadStep_false]
    by_cases h : hasDef defs p = true
    · simp only [h, if_true]
      rw [loadSpec_false_closed rest defs]
      simp [keepFirst, h]
    · simp only [h, Bool.false_eq_true, if_false]
      rw [loadSpec_false_closed rest, hasDef_append_single]
      simp [keepFirst, h]

/-- loading the same pairs again with `overwrite=False`: every target is defined by now, nothing happens at all
    (the state is returned as it is, indices included) -/
theorem load_false_all_defined : ∀ (pairs : List (Path × Expr)) (s : MState),
    (∀ pe ∈ pairs, hasDef s.defs pe.1 = true) → load s false pairs = (s, none)
  | [], s, _ => rfl
  | (p, e) :: rest, s, h => by
    have hp := h (p, e) (List.mem_cons_self ..)
    unfold hasDef at hp
    cases hl : lookDef s.defs p with
    | none => simp [hl] at hp
    | some t =>
      simp only [load, hl, Bool.false_eq_true, if_false]
      exact load_false_all_defined rest s (fun pe hpe => h pe (List.mem_cons_of_mem _ hpe))

theorem load_false_idem (s : MState) (pairs : List (Path × Expr)) (hi : MInv s) (hf : s.frozen = false) :
    load (load s false pairs).1 false pairs = ((load s false pairs).1, none) := by
  apply load_false_all_defined
  intro pe hpe
  rw [(load_defs s false pairs hi hf).1, hasDef_loadSpec]
  exact Or.inr (List.mem_map_of_mem hpe)

/-- (iii) on the manager: a second `load(dump, overwrite=True)` of the same dump leaves the task table (order
    included), the containers and everything else but possibly the internal order of the indices as they are -/
theorem load_true_idem (s : MState) (pairs : List (Path × Expr)) (hi : MInv s) (hf : s.frozen = false) :
    ∃ m, load (load s true pairs).1 true pairs = ({ (load s true pairs).1 with idx := m }, none) ∧
      MInv { (load s true pairs).1 with idx := m } := by
  obtain ⟨hd, _, hi1⟩ := load_defs s true pairs hi hf
  have hf1 := (load_frame s true pairs hi hf).2.2.1
  obtain ⟨m, hm, him⟩ := load_eq true pairs (load s true pairs).1 hi1 hf1
  rw [hd, loadSpec_true_idem, ← hd] at hm him
  exact ⟨m, hm, him⟩

/-! ### the table stays a table of expression definitions; a dump has distinct targets -/

theorem mem_loadStep (ow : Bool) (defs : List MTask) (pe : Path × Expr) (t : MTask) (h : t ∈ loadStep ow defs pe) :
    t ∈ defs ∨ t = mkExprTask pe.1 pe.2 := by
  unfold loadStep at h
  split at h
  · split at h
    · rcases List.mem_append.mp h with h | h
      · exact Or.inl (List.mem_filter.mp h).1
      · exact Or.inr (by simpa using h)
    · exact Or.inl h
  · rcases List.mem_append.mp h with h | h
    · exact Or.inl h
    · exact Or.inr (by simpa using h)

theorem loadSpec_exprDefs (ow : Bool) : ∀ (pairs : List (Path × Expr)) (defs : List MTask), ExprDefs defs →
    ExprDefs (loadSpec ow defs pairs)
  | [], _, h => h
  | pe :: rest, defs, h => by
    rw [loadSpec_cons]
    apply loadSpec_exprDefs ow rest
    intro t ht
    rcases mem_loadStep ow defs pe t ht with ht | rfl
    · exact h t ht
    · exact ⟨pe.2, rfl, rfl, rfl⟩

/-- the targets of a dump are a sublist of the table's ids (no hypothesis on the kinds of the tasks) -/
theorem dump_targets_sublist (s : MState) : ((dump s).map (·.1)).Sublist (s.defs.map (·.id)) := by
  unfold dump
  induction s.defs with
  | nil => simp
  | cons t rest ih =>
    rw [List.filterMap_cons]
    cases hk : t.kind with
    | expr e => simp only [List.map_cons]; exact ih.cons_cons _
    | func body => simp only [List.map_cons]; exact ih.cons _
    | knob a b c => simp only [List.map_cons]; exact ih.cons _

/-- every dump of a manager that satisfies the invariant has distinct targets -/
theorem dump_targets_nodup (s : MState) (hi : MInv s) : ((dump s).map (·.1)).Nodup :=
  hi.ids.sublist (dump_targets_sublist s)

theorem firstFor_of_mem : ∀ (pairs : List (Path × Expr)), (pairs.map (·.1)).Nodup → ∀ p e, (p, e) ∈ pairs →
    firstFor pairs p = some e
  | [], _, p, e, h => by cases h
  | (p0, e0) :: rest, hnd, p, e, h => by
    have hn : p0 ∉ rest.map (·.1) ∧ (rest.map (·.1)).Nodup := by simpa using hnd
    rw [firstFor_cons]
    rcases List.mem_cons.mp h with h | h
    · cases h; simp
    · have : p0 ≠ p := fun e' => hn.1 (by rw [e']; exact List.mem_map_of_mem (f := (·.1)) h)
      simp [this, firstFor_of_mem rest hn.2 p e h]

theorem lastFor_of_mem : ∀ (pairs : List (Path × Expr)), (pairs.map (·.1)).Nodup → ∀ p e, (p, e) ∈ pairs →
    lastFor pairs p = some e
  | [], _, p, e, h => by cases h
  | (p0, e0) :: rest, hnd, p, e, h => by
    have hn : p0 ∉ rest.map (·.1) ∧ (rest.map (·.1)).Nodup := by simpa using hnd
    rw [lastFor_cons]
    rcases List.mem_cons.mp h with h | h
    · cases h
      have : lastFor rest p0 = none := by
        cases hl : lastFor rest p0 with
        | none => rfl
        | some e' => exact absurd ((lastFor_isSome rest p0).mp (by simp [hl])) hn.1
      simp [this]
    · simp [lastFor_of_mem rest hn.2 p e h]

theorem keepLast_nodup : ∀ (pairs : List (Path × Expr)), (pairs.map (·.1)).Nodup →
    keepLast pairs = pairs.map (fun pe => mkExprTask pe.1 pe.2)
  | [], _ => rfl
  | (p0, e0) :: rest, hnd => by
    have hn : p0 ∉ rest.map (·.1) ∧ (rest.map (·.1)).Nodup := by simpa using hnd
    simp only [keepLast, hn.1, if_false, List.map_cons, keepLast_nodup rest hn.2]

theorem lookDef_loadSpec_other (ow : Bool) (pairs : List (Path × Expr)) (defs : List MTask) (q : Path)
    (h : q ∉ pairs.map (·.1)) : lookDef (loadSpec ow defs pairs) q = lookDef defs q := by
  cases ow with
  | true =>
    have : lastFor pairs q = none := by
      cases hl : lastFor pairs q with
      | none => rfl
      | some e => exact absurd ((lastFor_isSome pairs q).mp (by simp [hl])) h
    rw [lookDef_loadSpec_true, this]; simp
  | false =>
    have : firstFor pairs q = none := by
      cases hl : firstFor pairs q with
      | none => rfl
      | some e => exact absurd ((firstFor_isSome pairs q).mp (by simp [hl])) h
    rw [lookDef_loadSpec_false, this]; simp

/-! ### pairs with distinct targets (every dump): the order of the pairs decides the table order only -/

theorem firstFor_mem (pairs : List (Path × Expr)) (q : Path) (e : Expr) (h : firstFor pairs q = some e) :
    (q, e) ∈ pairs := by
  unfold firstFor at h
  obtain ⟨pe, hfind, rfl⟩ := Option.map_eq_some_iff.mp h
  have h1 := List.find?_some hfind
  have h2 := List.mem_of_find?_eq_some hfind
  have : pe.1 = q := by simpa using h1
  rw [← this]; exact h2

theorem lastFor_eq_firstFor (pairs : List (Path × Expr)) (hnd : (pairs.map (·.1)).Nodup) (q : Path) :
    lastFor pairs q = firstFor pairs q := by
  cases h : firstFor pairs q with
  | some e => exact lastFor_of_mem pairs hnd q e (firstFor_mem pairs q e h)
  | none =>
    cases hl : lastFor pairs q with
    | none => rfl
    | some e =>
      have := (firstFor_isSome pairs q).mpr ((lastFor_isSome pairs q).mp (by simp [hl]))
      simp [h] at this

theorem firstFor_same_members (pairs pairs' : List (Path × Expr)) (hnd : (pairs.map (·.1)).Nodup)
    (hnd' : (pairs'.map (·.1)).Nodup) (hmem : ∀ pe, pe ∈ pairs ↔ pe ∈ pairs') (q : Path) :
    firstFor pairs q = firstFor pairs' q := by
  cases h : firstFor pairs q with
  | some e => exact (firstFor_of_mem pairs' hnd' q e ((hmem _).mp (firstFor_mem pairs q e h))).symm
  | none =>
    cases h' : firstFor pairs' q with
    | none => rfl
    | some e =>
      have := firstFor_of_mem pairs hnd q e ((hmem _).mpr (firstFor_mem pairs' q e h'))
      rw [h] at this; cases this

/-- two lists of pairs with distinct targets and the same members (the same definitions listed in another order,
    e.g. in dependency order instead of table order) give every location the same definition -/
theorem lookDef_loadSpec_order_indep (ow : Bool) (defs : List MTask) (pairs pairs' : List (Path × Expr))
    (hnd : (pairs.map (·.1)).Nodup) (hnd' : (pairs'.map (·.1)).Nodup) (hmem : ∀ pe, pe ∈ pairs ↔ pe ∈ pairs')
    (q : Path) : lookDef (loadSpec ow defs pairs) q = lookDef (loadSpec ow defs pairs') q := by
  cases ow with
  | true =>
    rw [lookDef_loadSpec_true, lookDef_loadSpec_true, lastFor_eq_firstFor pairs hnd, lastFor_eq_firstFor pairs' hnd',
      firstFor_same_members pairs pairs' hnd hnd' hmem]
  | false =>
    rw [lookDef_loadSpec_false, lookDef_loadSpec_false, firstFor_same_members pairs pairs' hnd hnd' hmem]

/-! ### the dump of ANOTHER manager loaded into a manager that already has definitions -/

/-- `overwrite=True`: every definition of the dump arrives … -/
theorem load_dump_true_exprOf (dst src : MState) (hi : MInv dst) (hf : dst.frozen = false) (hs : MInv src)
    (p : Path) (e : Expr) (h : (p, e) ∈ dump src) : exprOf (load dst true (dump src)).1 p = some e :=
  load_true_exprOf dst _ hi hf p e (lastFor_of_mem _ (dump_targets_nodup src hs) p e h)

/-- … and the table is: `dst`'s definitions of locations the dump does not mention, then `src`'s table -/
theorem load_dump_true_defs (dst src : MState) (hi : MInv dst) (hf : dst.frozen = false) (hs : MInv src)
    (hex : ExprDefs src.defs) :
    (load dst true (dump src)).1.defs =
      dst.defs.filter (fun t => !decide (t.id ∈ src.defs.map (·.id))) ++ src.defs := by
  rw [(load_defs dst true _ hi hf).1, loadSpec_true_closed, keepLast_nodup _ (dump_targets_nodup src hs),
    dump_tasks src.defs src rfl hex, dump_ids src.defs src rfl hex]

/-- `overwrite=False`: `dst`'s table, then `src`'s definitions of locations that `dst` does not define -/
theorem load_dump_false_exprOf (dst src : MState) (hi : MInv dst) (hf : dst.frozen = false) (hs : MInv src)
    (p : Path) (e : Expr) (h : (p, e) ∈ dump src) (hnew : lookDef dst.defs p = none) :
    exprOf (load dst false (dump src)).1 p = some e := by
  apply exprOf_of_lookDef
  rw [load_false_new dst _ hi hf p hnew, firstFor_of_mem _ (dump_targets_nodup src hs) p e h]; rfl

/-! ## (B) re-rooting: `copy_expr_from(other, name, bindings)` -/

/-- the label (key of the root dictionary) a path starts with -/
def headLabel : Path → Option String
  | .item (.str l) :: _ => some l
  | _ => none

/-- a path that starts with a label, as every ref of a manager does -/
def rooted (p : Path) : Bool := (headLabel p).isSome

/-- evaluate a path in a namespace where label `l` is bound to the ref `b l` of this manager:
    the leading label is replaced by the bound path, the rest is kept; unbound labels stay -/
def rebindPath (b : String → Option Path) (p : Path) : Path :=
  match p with
  | .item (.str l) :: rest => ((b l).map (· ++ rest)).getD p
  | _ => p

def rebindExpr (b : String → Option Path) : Expr → Expr
  | .lit v => .lit v
  | .ref p => .ref (rebindPath b p)
  | .bin op l r => .bin op (rebindExpr b l) (rebindExpr b r)
  | .un op a => .un op (rebindExpr b a)

theorem rebindPath_bound (b : String → Option Path) (l : String) (rest q : Path) (h : b l = some q) :
    rebindPath b (.item (.str l) :: rest) = q ++ rest := by
  simp [rebindPath, h]

theorem rebindPath_unbound (b : String → Option Path) (l : String) (rest : Path) (h : b l = none) :
    rebindPath b (.item (.str l) :: rest) = .item (.str l) :: rest := by
  simp [rebindPath, h]

theorem rebindPath_unrooted (b : String → Option Path) (p : Path) (h : rooted p = false) : rebindPath b p = p := by
  unfold rebindPath
  split
  · simp [rooted, headLabel] at h
  · rfl

theorem rebindPath_none (p : Path) : rebindPath (fun _ => none) p = p := by
  unfold rebindPath
  split <;> rfl

theorem rooted_iff (p : Path) : rooted p = true ↔ ∃ l rest, p = .item (.str l) :: rest := by
  constructor
  · intro h
    unfold rooted headLabel at h
    split at h
    · exact ⟨_, _, rfl⟩
    · simp at h
  · rintro ⟨l, rest, rfl⟩; rfl

/-- the bound path takes the place of the label, whatever follows -/
theorem rebindPath_split (b : String → Option Path) (l : String) (rest : Path) :
    rebindPath b (.item (.str l) :: rest) = rebindPath b [.item (.str l)] ++ rest := by
  cases h : b l with
  | none => rw [rebindPath_unbound b l rest h, rebindPath_unbound b l [] h]; rfl
  | some q => rw [rebindPath_bound b l rest q h, rebindPath_bound b l [] q h]; simp

/-- the reads of the re-rooted expression are the re-rooted reads (so are its declared dependencies) -/
theorem leafRefs_rebindExpr (b : String → Option Path) (e : Expr) :
    leafRefs (rebindExpr b e) = (leafRefs e).map (rebindPath b) := by
  induction e with
  | lit v => rfl
  | ref p => rfl
  | bin op l r ihl ihr => simp [rebindExpr, leafRefs, ihl, ihr]
  | un op a ih => simpa [rebindExpr, leafRefs] using ih

/-- path-level form: if every read of `e`, re-rooted, holds in `σ` what the read itself holds in `σv`, the re-rooted
    expression evaluates in `σ` to what `e` evaluates to in `σv` (same value or same exception) -/
theorem eval_rebind_agree (sem : Sem) (σ σv : Val) (b : String → Option Path) (e : Expr)
    (h : ∀ r ∈ leafRefs e, get σ (rebindPath b r) = get σv r) :
    eval sem σ (rebindExpr b e) = eval sem σv e := by
  induction e with
  | lit v => rfl
  | ref p => exact h p (by simp [leafRefs])
  | bin op l r ihl ihr =>
    simp only [rebindExpr, eval]
    rw [ihl (fun r hr => h r (by simp [leafRefs, hr])), ihr (fun r' hr => h r' (by simp [leafRefs, hr]))]
  | un op a ih =>
    simp only [rebindExpr, eval]
    rw [ih (fun r hr => h r (by simpa [leafRefs] using hr))]

/-- `σv` is `σ` **seen through** the bindings: label `l` of `σv` holds what the path `b l` holds in `σ`
    (what label `l` itself holds in `σ` when `l` is not rebound); errors included -/
def SeenThrough (b : String → Option Path) (σ σv : Val) : Prop :=
  ∀ l, getStep σv (.item (.str l)) = get σ (rebindPath b [.item (.str l)])

theorem get_single (σ : Val) (s : Step) : get σ [s] = getStep σ s := by
  simp only [Store.get, bind, Except.bind]
  cases getStep σ s <;> rfl

theorem get_rebind_label (b : String → Option Path) (σ σv : Val) (l : String) (rest : Path)
    (h : getStep σv (.item (.str l)) = get σ (rebindPath b [.item (.str l)])) :
    get σ (rebindPath b (.item (.str l) :: rest)) = get σv (.item (.str l) :: rest) := by
  rw [rebindPath_split, Unique.get_append, ← h]
  simp only [Store.get, bind, Except.bind]
  cases getStep σv (.item (.str l)) <;> rfl

/-- label-level form: only the labels the expression mentions matter -/
theorem eval_rebind_on (sem : Sem) (σ σv : Val) (b : String → Option Path) (e : Expr)
    (h : ∀ r ∈ leafRefs e, ∃ l rest, r = .item (.str l) :: rest ∧
      getStep σv (.item (.str l)) = get σ (rebindPath b [.item (.str l)])) :
    eval sem σ (rebindExpr b e) = eval sem σv e := by
  apply eval_rebind_agree
  intro r hr
  obtain ⟨l, rest, rfl, hl⟩ := h r hr
  exact get_rebind_label b σ σv l rest hl

/-- **evaluating the re-rooted expression = evaluating the expression in the store seen through the bindings**
    (for expressions whose refs start with a label, as all refs of a manager do) -/
theorem eval_rebind (sem : Sem) (σ σv : Val) (b : String → Option Path) (e : Expr)
    (hv : SeenThrough b σ σv) (hr : ∀ r ∈ leafRefs e, rooted r = true) :
    eval sem σ (rebindExpr b e) = eval sem σv e := by
  apply eval_rebind_on
  intro r hmem
  obtain ⟨l, rest, rfl⟩ := (rooted_iff r).mp (hr r hmem)
  exact ⟨l, rest, rfl, hv l⟩

theorem get_rebind (σ σv : Val) (b : String → Option Path) (p : Path)
    (hv : SeenThrough b σ σv) (hr : rooted p = true) : get σ (rebindPath b p) = get σv p := by
  obtain ⟨l, rest, rfl⟩ := (rooted_iff p).mp hr
  exact get_rebind_label b σ σv l rest (hv l)

/-! ### the store seen through finitely many bindings exists (when the bound refs resolve) -/

/-- `bindings` as a Python dict literal: the first entry for a label counts -/
def bindOf : List (String × Path) → String → Option Path
  | [], _ => none
  | lq :: bs, l => if lq.1 = l then some lq.2 else bindOf bs l

def viewKVs (σ : Val) : List (String × Path) → KVs → KVs
  | [], kvs => kvs
  | lq :: bs, kvs =>
    match get σ lq.2 with
    | .ok v => KVs.update (viewKVs σ bs kvs) (.str lq.1) v
    | .error _ => viewKVs σ bs kvs

/-- the root dictionary in which every bound label holds the present content of its ref -/
def viewStore (bs : List (String × Path)) (σ : Val) : Val :=
  match σ with
  | .dict kvs => .dict (viewKVs σ bs kvs)
  | v => v

theorem viewKVs_ok (σ : Val) (lq : String × Path) (bs : List (String × Path)) (kvs : KVs) (v : Val)
    (h : get σ lq.2 = .ok v) : viewKVs σ (lq :: bs) kvs = KVs.update (viewKVs σ bs kvs) (.str lq.1) v := by
  simp [viewKVs, h]

theorem seenThrough_viewStore (kvs : KVs) : ∀ (bs : List (String × Path)),
    (∀ lq ∈ bs, ∃ v, get (.dict kvs) lq.2 = .ok v) →
    SeenThrough (bindOf bs) (.dict kvs) (viewStore bs (.dict kvs))
  | [], _ => by
    intro l
    rw [rebindPath_unbound _ l [] rfl, get_single]; rfl
  | (l0, q) :: bs, hres => by
    intro l
    obtain ⟨v, hv⟩ := hres (l0, q) (List.mem_cons_self ..)
    have ih := seenThrough_viewStore kvs bs (fun lq h => hres lq (List.mem_cons_of_mem _ h)) l
    show getStep (.dict (viewKVs (.dict kvs) ((l0, q) :: bs) kvs)) (.item (.str l)) = _
    rw [viewKVs_ok _ _ _ _ v hv]
    by_cases h : l0 = l
    · subst h
      have hb : bindOf ((l0, q) :: bs) l0 = some q := by simp [bindOf]
      rw [rebindPath_bound _ l0 [] q hb, List.append_nil, hv]
      simp [getStep, KVs.lookup_update_same]
    · have hb : bindOf ((l0, q) :: bs) l = bindOf bs l := by simp [bindOf, h]
      have hk : Key.str l0 ≠ Key.str l := fun e => h (by cases e; rfl)
      have hrp : rebindPath (bindOf ((l0, q) :: bs)) [.item (.str l)] = rebindPath (bindOf bs) [.item (.str l)] := by
        simp [rebindPath, hb]
      rw [hrp, ← ih]
      simp [viewStore, getStep, KVs.lookup_update_other _ _ _ _ hk]

/-! ### the copy -/

/-- the target lies in container `name` -/
def underName (name : String) (p : Path) : Bool := decide (headLabel p = some name)

/-- what `copy_expr_from` hands to `load`: the other manager's dump restricted to container `name`, every path
    (targets and expressions) evaluated in the namespace with the rebound labels -/
def copyPairs (src : MState) (name : String) (b : String → Option Path) : List (Path × Expr) :=
  ((dump src).filter (fun pe => underName name pe.1)).map (fun pe => (rebindPath b pe.1, rebindExpr b pe.2))

/-- `Manager.copy_expr_from(src, name, bindings)` (with the `overwrite` flag of the `load` it ends in) -/
def copyExprFrom (dst src : MState) (name : String) (b : String → Option Path) (ow : Bool) : Res :=
  load dst ow (copyPairs src name b)

theorem underName_iff (name : String) (p : Path) : underName name p = true ↔ ∃ rest, p = .item (.str name) :: rest := by
  constructor
  · intro h
    unfold underName headLabel at h
    split at h
    · simp at h; subst h; exact ⟨_, rfl⟩
    · simp at h
  · rintro ⟨rest, rfl⟩; simp [underName, headLabel]

/-- inside one container re-rooting is injective: distinct locations stay distinct -/
theorem rebindPath_inj_under (b : String → Option Path) (name : String) (p p' : Path)
    (hp : underName name p = true) (hp' : underName name p' = true) (h : rebindPath b p = rebindPath b p') : p = p' := by
  obtain ⟨rest, rfl⟩ := (underName_iff name p).mp hp
  obtain ⟨rest', rfl⟩ := (underName_iff name p').mp hp'
  rw [rebindPath_split b name rest, rebindPath_split b name rest'] at h
  rw [List.append_cancel_left h]

theorem rebind_targets_nodup (b : String → Option Path) (name : String) : ∀ L : List (Path × Expr),
    (L.map (·.1)).Nodup → (∀ pe ∈ L, underName name pe.1 = true) →
    ((L.map (fun pe => (rebindPath b pe.1, rebindExpr b pe.2))).map (·.1)).Nodup
  | [], _, _ => by simp
  | (p, e) :: rest, hnd, hu => by
    have hn : p ∉ rest.map (·.1) ∧ (rest.map (·.1)).Nodup := by simpa using hnd
    have ih := rebind_targets_nodup b name rest hn.2 (fun pe h => hu pe (List.mem_cons_of_mem _ h))
    simp only [List.map_cons]
    refine List.nodup_cons.mpr ⟨?_, ih⟩
    intro hmem
    simp only [List.map_map, List.mem_map, Function.comp] at hmem
    obtain ⟨pe', hpe', heq⟩ := hmem
    have := rebindPath_inj_under b name pe'.1 p (hu pe' (List.mem_cons_of_mem _ hpe'))
      (hu (p, e) (List.mem_cons_self ..)) heq
    exact hn.1 (by rw [← this]; exact List.mem_map_of_mem (f := (·.1)) hpe')

/-- the pairs of a copy have distinct targets (the source manager's table has distinct ids) -/
theorem copyPairs_nodup (src : MState) (name : String) (b : String → Option Path)
    (hs : (src.defs.map (·.id)).Nodup) : ((copyPairs src name b).map (·.1)).Nodup := by
  unfold copyPairs
  apply rebind_targets_nodup b name
  · exact (hs.sublist (dump_targets_sublist src)).sublist (List.filter_sublist.map _)
  · intro pe hpe
    exact (List.mem_filter.mp hpe).2

theorem mem_copyPairs (src : MState) (name : String) (b : String → Option Path) (p : Path) (e : Expr)
    (h : (p, e) ∈ dump src) (hu : underName name p = true) :
    (rebindPath b p, rebindExpr b e) ∈ copyPairs src name b := by
  unfold copyPairs
  exact List.mem_map.mpr ⟨(p, e), List.mem_filter.mpr ⟨h, hu⟩, rfl⟩

/-- the copy is a `load`: no error, only table and indices change, invariant kept -/
theorem copy_eq (dst src : MState) (name : String) (b : String → Option Path) (ow : Bool)
    (hi : MInv dst) (hf : dst.frozen = false) :
    ∃ m, copyExprFrom dst src name b ow =
        ({ dst with defs := loadSpec ow dst.defs (copyPairs src name b), idx := m }, none) ∧
      MInv { dst with defs := loadSpec ow dst.defs (copyPairs src name b), idx := m } :=
  load_eq ow _ dst hi hf

/-- **the table after a copy with `overwrite=True`**: the definitions of `dst` whose location is not a re-rooted
    target of the copy, then EXACTLY the re-rooted definitions of `src` in container `name`, in `src`'s order -/
theorem copy_true_defs (dst src : MState) (name : String) (b : String → Option Path)
    (hi : MInv dst) (hf : dst.frozen = false) (hs : (src.defs.map (·.id)).Nodup) :
    (copyExprFrom dst src name b true).1.defs =
      dst.defs.filter (fun t => !decide (t.id ∈ (copyPairs src name b).map (·.1))) ++
      ((dump src).filter (fun pe => underName name pe.1)).map
        (fun pe => mkExprTask (rebindPath b pe.1) (rebindExpr b pe.2)) := by
  unfold copyExprFrom
  rw [(load_defs dst true _ hi hf).1, loadSpec_true_closed, keepLast_nodup _ (copyPairs_nodup src name b hs)]
  simp [copyPairs, List.map_map, Function.comp]

/-- every definition of `src` in container `name` arrives re-rooted (`overwrite=True`: whatever `dst` had there) -/
theorem copy_true_exprOf (dst src : MState) (name : String) (b : String → Option Path)
    (hi : MInv dst) (hf : dst.frozen = false) (hs : (src.defs.map (·.id)).Nodup)
    (p : Path) (e : Expr) (h : (p, e) ∈ dump src) (hu : underName name p = true) :
    exprOf (copyExprFrom dst src name b true).1 (rebindPath b p) = some (rebindExpr b e) :=
  load_true_exprOf dst _ hi hf _ _
    (lastFor_of_mem _ (copyPairs_nodup src name b hs) _ _ (mem_copyPairs src name b p e h hu))

/-- `overwrite=False`: it arrives if the re-rooted location has no definition in `dst` yet … -/
theorem copy_false_exprOf (dst src : MState) (name : String) (b : String → Option Path)
    (hi : MInv dst) (hf : dst.frozen = false) (hs : (src.defs.map (·.id)).Nodup)
    (p : Path) (e : Expr) (h : (p, e) ∈ dump src) (hu : underName name p = true)
    (hnew : lookDef dst.defs (rebindPath b p) = none) :
    exprOf (copyExprFrom dst src name b false).1 (rebindPath b p) = some (rebindExpr b e) := by
  apply exprOf_of_lookDef
  unfold copyExprFrom
  rw [load_false_new dst _ hi hf _ hnew,
    firstFor_of_mem _ (copyPairs_nodup src name b hs) _ _ (mem_copyPairs src name b p e h hu)]
  rfl

/-- … and the definition `dst` has at the RE-ROOTED location (not at the location the dump prints) survives -/
theorem copy_false_old (dst src : MState) (name : String) (b : String → Option Path)
    (hi : MInv dst) (hf : dst.frozen = false) (q : Path) (t : MTask) (h : lookDef dst.defs q = some t) :
    lookDef (copyExprFrom dst src name b false).1.defs q = some t :=
  load_false_old dst _ hi hf q t h

/-- locations that are no re-rooted target of the copy keep their tasks -/
theorem copy_other (dst src : MState) (name : String) (b : String → Option Path) (ow : Bool)
    (hi : MInv dst) (hf : dst.frozen = false) (q : Path) (h : q ∉ (copyPairs src name b).map (·.1)) :
    lookDef (copyExprFrom dst src name b ow).1.defs q = lookDef dst.defs q := by
  unfold copyExprFrom
  rw [(load_defs dst ow _ hi hf).1, lookDef_loadSpec_other ow _ _ q h]

/-- the defined locations after the copy: the old ones and the re-rooted targets -/
theorem copy_hasDef (dst src : MState) (name : String) (b : String → Option Path) (ow : Bool)
    (hi : MInv dst) (hf : dst.frozen = false) (q : Path) :
    hasDef (copyExprFrom dst src name b ow).1.defs q = true ↔
      hasDef dst.defs q = true ∨ ∃ pe ∈ dump src, underName name pe.1 = true ∧ q = rebindPath b pe.1 := by
  unfold copyExprFrom
  rw [(load_defs dst ow _ hi hf).1, hasDef_loadSpec]
  constructor
  · rintro (h | h)
    · exact Or.inl h
    · right
      simp only [copyPairs, List.map_map, List.mem_map, Function.comp, List.mem_filter] at h
      obtain ⟨pe, ⟨hm, hu⟩, rfl⟩ := h
      exact ⟨pe, hm, hu, rfl⟩
  · rintro (h | ⟨pe, hm, hu, rfl⟩)
    · exact Or.inl h
    · exact Or.inr (List.mem_map_of_mem (f := (·.1)) (mem_copyPairs src name b pe.1 pe.2 hm hu))

/-- **a copied definition evaluates in `dst` to what the original evaluates to in `src`** whenever `src`'s containers
    are `dst`'s seen through the bindings (the rebound refs hold the same contents); the copy itself evaluates nothing -/
theorem copy_eval (dst src : MState) (name : String) (b : String → Option Path) (ow : Bool)
    (hi : MInv dst) (hf : dst.frozen = false) (e : Expr)
    (hv : SeenThrough b dst.store src.store) (hr : ∀ r ∈ leafRefs e, rooted r = true) :
    evalE (copyExprFrom dst src name b ow).1 (rebindExpr b e) = evalE src e := by
  unfold copyExprFrom
  rw [load_evalE dst ow _ hi hf]
  exact eval_rebind pySem dst.store src.store b e hv hr

/-- the same from agreement on the reads of this one expression only -/
theorem copy_eval_agree (dst src : MState) (name : String) (b : String → Option Path) (ow : Bool)
    (hi : MInv dst) (hf : dst.frozen = false) (e : Expr)
    (h : ∀ r ∈ leafRefs e, get dst.store (rebindPath b r) = get src.store r) :
    evalE (copyExprFrom dst src name b ow).1 (rebindExpr b e) = evalE src e := by
  unfold copyExprFrom
  rw [load_evalE dst ow _ hi hf]
  exact eval_rebind_agree pySem dst.store src.store b e h

/-- a definition that HOLDS in `src` (C01's state predicate: the location holds the value of its expression) holds,
    re-rooted, in `dst` after the copy, under the same condition -/
theorem copy_holds (dst src : MState) (name : String) (b : String → Option Path) (ow : Bool)
    (hi : MInv dst) (hf : dst.frozen = false) (p : Path) (e : Expr)
    (hv : SeenThrough b dst.store src.store) (hp : rooted p = true) (hr : ∀ r ∈ leafRefs e, rooted r = true)
    (hq : (exprSys pySem).Q ⟨p, e⟩ src.store) :
    (exprSys pySem).Q ⟨rebindPath b p, rebindExpr b e⟩ (copyExprFrom dst src name b ow).1.store := by
  obtain ⟨v, h1, h2⟩ := hq
  have hst : (copyExprFrom dst src name b ow).1.store = dst.store := (load_frame dst ow _ hi hf).1
  refine ⟨v, ?_, ?_⟩
  · rw [hst]
    show eval pySem dst.store (rebindExpr b e) = .ok v
    rw [eval_rebind pySem dst.store src.store b e hv hr]; exact h1
  · rw [hst]
    show get dst.store (rebindPath b p) = .ok v
    rw [get_rebind dst.store src.store b p hv hp]; exact h2

end Manager

/-! ## (C) computed examples -/
namespace LoadExample
open Manager Store Push Index

def da : Path := [.item (.str "d"), .item (.str "a")]
def db : Path := [.item (.str "d"), .item (.str "b")]
def dc : Path := [.item (.str "d"), .item (.str "c")]
def de : Path := [.item (.str "d"), .item (.str "e")]
def ePlus : Expr := .bin "Add" (.ref da) (.ref db)
def eTimes : Expr := .bin "Mul" (.ref da) (.ref db)
def eMinus : Expr := .bin "Sub" (.ref da) (.ref db)
def eCA : Expr := .bin "Mul" (.ref dc) (.ref da)

/-- containers only, no definitions -/
def s0 : MState :=
  { MState.init with store := .dict [(.str "d", .dict [(.str "a", .int 1), (.str "b", .int 2), (.str "c", .int 0),
      (.str "e", .int 0)])] }
theorem s0_inv : MInv s0 := MInv_of_sameGraph (s := MState.init) ⟨rfl, rfl, rfl⟩ MInv.init

/-- ONE dump that defines the same, so far undefined, location twice -/
def twice : List (Path × Expr) := [(dc, ePlus), (dc, eTimes)]

/-- the hypotheses of `load_defs` are satisfiable, and this is what it says here -/
example : (load s0 true twice).1.defs = loadSpec true s0.defs twice ∧ (load s0 true twice).2 = none ∧
    MInv (load s0 true twice).1 := load_defs s0 true twice s0_inv rfl

/-- `overwrite=True` keeps the SECOND pair, `overwrite=False` the FIRST (a "replace or not" decision taken once for
    the whole dump would register both, or replace in place) -/
example : dump (load s0 true twice).1 = [(dc, eTimes)] := rfl
example : dump (load s0 false twice).1 = [(dc, ePlus)] := rfl
example : exprOf (load s0 true twice).1 dc = some eTimes := load_true_exprOf s0 twice s0_inv rfl dc eTimes rfl
example : lastFor twice dc = some eTimes ∧ firstFor twice dc = some ePlus := ⟨rfl, rfl⟩
/-- no error, the index invariant holds, `verify` passes (by the theorem and by computation) -/
example : (load s0 true twice).2 = none ∧ (load s0 false twice).2 = none := ⟨rfl, rfl⟩
example : MInv (load s0 true twice).1 ∧ MInv (load s0 false twice).1 := ⟨load_MInv _ _ _ s0_inv, load_MInv _ _ _ s0_inv⟩
example : (verify (load s0 true twice).1).2 = none := load_verify s0 true twice s0_inv
example : (verify (load s0 true twice).1).2 = none ∧ (verify (load s0 false twice).1).2 = none := by decide +kernel
/-- nothing is evaluated: `d['c']` still holds 0 although it is now defined as `a*b` -/
example : get (load s0 true twice).1.store dc = .ok (.int 0) ∧ evalE (load s0 true twice).1 eTimes = .ok (.int 2) := ⟨rfl, rfl⟩

/-- a manager with two definitions, `c = a+b` then `e = c*a` -/
def s1 : MState := (load s0 true [(dc, ePlus), (de, eCA)]).1
theorem s1_inv : MInv s1 := load_MInv _ _ _ s0_inv
example : s1.defs.map (·.id) = [dc, de] := by decide +kernel

/-- re-defining `c` (twice) with `overwrite=True`: the LAST pair counts and `c` MOVES behind `e` in the table;
    with `overwrite=False` nothing changes -/
example : ((load s1 true [(dc, eTimes), (dc, eMinus)]).1.defs.map (·.id)) = [de, dc] := by decide +kernel
example : dump (load s1 true [(dc, eTimes), (dc, eMinus)]).1 = [(de, eCA), (dc, eMinus)] := rfl
example : dump (load s1 false [(dc, eTimes), (dc, eMinus)]).1 = [(dc, ePlus), (de, eCA)] := rfl
example : (verify (load s1 true [(dc, eTimes), (dc, eMinus)]).1).2 = none := by decide +kernel
/-- a second load of the same pairs leaves the table as it is, order included (`loadSpec_true_idem`) -/
example : dump (load (load s1 true [(dc, eTimes), (dc, eMinus)]).1 true [(dc, eTimes), (dc, eMinus)]).1 =
    dump (load s1 true [(dc, eTimes), (dc, eMinus)]).1 := rfl

/-! ### a copy with a label rebound into a sub-container -/

def ra : Path := [.item (.str "ref"), .item (.str "a")]
def rb : Path := [.item (.str "ref"), .item (.str "b")]
def rc : Path := [.item (.str "ref"), .item (.str "c")]
def sa : Path := [.item (.str "ref"), .item (.str "sub"), .item (.str "a")]
def sb : Path := [.item (.str "ref"), .item (.str "sub"), .item (.str "b")]
def sc : Path := [.item (.str "ref"), .item (.str "sub"), .item (.str "c")]
def oz : Path := [.item (.str "other"), .item (.str "z")]

/-- the source manager: `ref['c'] = ref['a'] + ref['b']` (holds: 3 = 1 + 2) and a definition in another container -/
def src : MState :=
  (load { MState.init with store := .dict [(.str "ref", .dict [(.str "a", .int 1), (.str "b", .int 2), (.str "c", .int 3)]),
      (.str "other", .dict [(.str "z", .int 0)])] } true
    [(rc, .bin "Add" (.ref ra) (.ref rb)), (oz, .un "Neg" (.ref ra))]).1

/-- the destination: its own `ref['c'] = ref['a'] + ref['b']` — which PRINTS exactly like the dumped definition — and
    a sub-container `ref['sub']` with the same contents as the source's `ref` -/
def dst : MState :=
  (load { MState.init with store := .dict [(.str "ref", .dict [(.str "a", .int 10), (.str "b", .int 20), (.str "c", .int 30),
      (.str "sub", .dict [(.str "a", .int 1), (.str "b", .int 2), (.str "c", .int 3)])])] } true
    [(rc, .bin "Add" (.ref ra) (.ref rb))]).1

/-- `bindings = {'ref': ref['sub']}` -/
def bs : List (String × Path) := [("ref", [.item (.str "ref"), .item (.str "sub")])]

theorem dst_inv : MInv dst := load_MInv _ _ _ (MInv_of_sameGraph (s := MState.init) ⟨rfl, rfl, rfl⟩ MInv.init)
theorem src_inv : MInv src := load_MInv _ _ _ (MInv_of_sameGraph (s := MState.init) ⟨rfl, rfl, rfl⟩ MInv.init)

example : rebindPath (bindOf bs) rc = sc ∧ rebindPath (bindOf bs) oz = oz := ⟨rfl, rfl⟩
example : dump src = [(rc, .bin "Add" (.ref ra) (.ref rb)), (oz, .un "Neg" (.ref ra))] := rfl
/-- only container `ref` is copied, both sides re-rooted -/
example : copyPairs src "ref" (bindOf bs) = [(sc, .bin "Add" (.ref sa) (.ref sb))] := rfl
/-- the re-rooted definition is REGISTERED under `ref['sub']['c']` with either flag, although `dst` already has a
    definition that prints like the dumped one; `dst`'s own definition of `ref['c']` stays -/
example : dump (copyExprFrom dst src "ref" (bindOf bs) false).1 =
    [(rc, .bin "Add" (.ref ra) (.ref rb)), (sc, .bin "Add" (.ref sa) (.ref sb))] := rfl
example : dump (copyExprFrom dst src "ref" (bindOf bs) true).1 =
    [(rc, .bin "Add" (.ref ra) (.ref rb)), (sc, .bin "Add" (.ref sa) (.ref sb))] := rfl
example : exprOf (copyExprFrom dst src "ref" (bindOf bs) true).1 sc = some (.bin "Add" (.ref sa) (.ref sb)) :=
  copy_true_exprOf dst src "ref" (bindOf bs) dst_inv rfl src_inv.ids rc (.bin "Add" (.ref ra) (.ref rb))
    (show (rc, Expr.bin "Add" (.ref ra) (.ref rb)) ∈ [(rc, .bin "Add" (.ref ra) (.ref rb)), (oz, .un "Neg" (.ref ra))] from
      List.mem_cons_self ..) rfl
example : (copyExprFrom dst src "ref" (bindOf bs) true).2 = none ∧
    (verify (copyExprFrom dst src "ref" (bindOf bs) true).1).2 = none := by decide +kernel
example : MInv (copyExprFrom dst src "ref" (bindOf bs) true).1 := load_MInv _ _ _ dst_inv

/-- `src`'s containers are `dst`'s seen through the bindings on label `ref` (the hypothesis of `copy_eval_agree` /
    `eval_rebind_on` for this expression) … -/
example : getStep src.store (.item (.str "ref")) = get dst.store (rebindPath (bindOf bs) [.item (.str "ref")]) := rfl
/-- … and the explicit view of `dst`'s containers through the bindings has that content under `ref` -/
example : getStep (viewStore bs dst.store) (.item (.str "ref")) = getStep src.store (.item (.str "ref")) := rfl
example : SeenThrough (bindOf bs) dst.store (viewStore bs dst.store) :=
  seenThrough_viewStore _ bs (by
    intro lq h
    simp only [bs, List.mem_singleton] at h
    subst h
    exact ⟨_, rfl⟩)
/-- a source manager whose containers ARE `dst`'s seen through the bindings (all labels): the hypotheses of
    `eval_rebind`, `copy_eval` and `copy_holds` are satisfiable -/
def src2 : MState :=
  (load { MState.init with store := viewStore bs dst.store } true [(rc, .bin "Add" (.ref ra) (.ref rb))]).1
theorem seen2 : SeenThrough (bindOf bs) dst.store src2.store :=
  seenThrough_viewStore [(.str "ref", .dict [(.str "a", .int 10), (.str "b", .int 20), (.str "c", .int 30),
      (.str "sub", .dict [(.str "a", .int 1), (.str "b", .int 2), (.str "c", .int 3)])])] bs (by
    intro lq h
    simp only [bs, List.mem_singleton] at h
    subst h
    exact ⟨_, rfl⟩)
example : eval pySem dst.store (rebindExpr (bindOf bs) (.bin "Add" (.ref ra) (.ref rb))) =
    eval pySem src2.store (.bin "Add" (.ref ra) (.ref rb)) :=
  eval_rebind pySem _ _ _ _ seen2 (by decide)
example : evalE (copyExprFrom dst src2 "ref" (bindOf bs) true).1 (rebindExpr (bindOf bs) (.bin "Add" (.ref ra) (.ref rb))) =
    evalE src2 (.bin "Add" (.ref ra) (.ref rb)) :=
  copy_eval dst src2 "ref" (bindOf bs) true dst_inv rfl _ seen2 (by decide)
/-- `ref['c'] = ref['a'] + ref['b']` holds in `src2` (3 = 1 + 2), so `ref['sub']['c'] = ref['sub']['a'] + ref['sub']['b']`
    holds in `dst` after the copy -/
example : (exprSys pySem).Q ⟨sc, .bin "Add" (.ref sa) (.ref sb)⟩ (copyExprFrom dst src2 "ref" (bindOf bs) true).1.store :=
  copy_holds dst src2 "ref" (bindOf bs) true dst_inv rfl rc (.bin "Add" (.ref ra) (.ref rb)) seen2 rfl (by decide)
    ⟨.int 3, rfl, rfl⟩
/-- the hypothesis "refs start with a label" of `eval_rebind` is needed: the empty path reads the root itself -/
example : eval pySem dst.store (rebindExpr (bindOf bs) (.un "Neg" (.ref []))) = .error .typeError ∧
    rebindExpr (bindOf bs) (.un "Neg" (.ref [])) = .un "Neg" (.ref []) := ⟨rfl, rfl⟩

/-- the copied definition evaluates in `dst` to what the original evaluates to in `src` (3), not to what the
    definition that prints alike evaluates to (30) -/
example : evalE (copyExprFrom dst src "ref" (bindOf bs) true).1 (rebindExpr (bindOf bs) (.bin "Add" (.ref ra) (.ref rb))) =
    evalE src (.bin "Add" (.ref ra) (.ref rb)) :=
  copy_eval_agree dst src "ref" (bindOf bs) true dst_inv rfl _ (by
    intro r hr
    simp only [leafRefs, List.cons_append, List.nil_append, List.mem_cons, List.not_mem_nil, or_false] at hr
    rcases hr with rfl | rfl <;> rfl)
example : evalE (copyExprFrom dst src "ref" (bindOf bs) true).1 (.bin "Add" (.ref sa) (.ref sb)) = .ok (.int 3) ∧
    evalE dst (.bin "Add" (.ref ra) (.ref rb)) = .ok (.int 30) := ⟨rfl, rfl⟩

end LoadExample

section AxiomAudit
open Manager
#print axioms load_eq
#print axioms load_defs
#print axioms load_frame
#print axioms hasDef_loadSpec
#print axioms lookDef_loadSpec_true
#print axioms lookDef_loadSpec_false
#print axioms loadSpec_true_closed
#print axioms loadSpec_false_closed
#print axioms loadSpec_true_idem
#print axioms load_true_idem
#print axioms load_false_idem
#print axioms loadSpec_exprDefs
#print axioms lookDef_loadSpec_order_indep
#print axioms load_dump_true_exprOf
#print axioms load_dump_true_defs
#print axioms load_dump_false_exprOf
#print axioms dump_targets_nodup
#print axioms eval_rebind_agree
#print axioms eval_rebind_on
#print axioms eval_rebind
#print axioms seenThrough_viewStore
#print axioms copy_eq
#print axioms copy_true_defs
#print axioms copy_true_exprOf
#print axioms copy_false_exprOf
#print axioms copy_other
#print axioms copy_hasDef
#print axioms copy_eval
#print axioms copy_eval_agree
#print axioms copy_holds
end AxiomAudit
