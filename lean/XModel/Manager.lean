import XModel.Store
import XModel.Push
import XModel.Index
import XModel.IndexInv4
import XModel.Dfs3
/-!
# Executable model of `xdeps/tasks.py::Manager` (L2 of DESIGN.md)

State = container tree + the task table + the four reference-counted indices + the freeze flag.
Every public operation of `Manager` that the properties C01–C03, C13, C17, C18, C20 talk about is
transcribed here as a total function `MState → … → MState × Outcome`; the state survives an
exception, as Python's side effects do.

Conventions
* A ref is a `Path`; its first step `.item (.str label)` selects the container registered under
  `label` in the root dictionary, so `chainR` (the owner chain *without* the container itself) is
  what `MutableRef._get_dependencies` returns.
* A Python `set` is a duplicate-free list in first-occurrence order.  No observable that the
  correspondence check compares depends on that order (sets are compared sorted; contents are
  compared only when the declared graph makes the result order-independent).
* The driver (`Driver/Main.lean`) runs exactly these definitions.
-/
namespace Manager
open Store Push Index

abbrev Path := List Step

def errName : Err → String
  | .keyError => "KeyError" | .indexError => "IndexError" | .attributeError => "AttributeError"
  | .typeError => "TypeError" | .valueError => "ValueError" | .fault => "Fault"
  | .zeroDiv => "ZeroDivisionError" | .overflow => "OverflowError"

/-- owner chain without the container: `d['n']['x']` ↦ `[d['n'], d['n']['x']]` -/
def chain : Path → List Path
  | [] => []
  | s :: p => [s] :: (chain p).map (s :: ·)

def chainR : Path → List Path
  | [] => []
  | l :: p => (chain p).map (l :: ·)

def dedup {α} [DecidableEq α] : List α → List α
  | [] => []
  | a :: l => let r := dedup l; if a ∈ r then r else a :: r

/-- first-occurrence order -/
def uniq {α} [DecidableEq α] (l : List α) : List α := (dedup l.reverse).reverse

/-- `expr._get_dependencies()` for static paths -/
def exprDeps (e : Expr) : List Path := uniq ((leafRefs e).flatMap chainR)

/-! ### Python arithmetic on the values the manager suite uses (ints and NaN) -/

def isNum : Val → Bool
  | .int _ => true | .nan => true | _ => false

/-- an int that `float()` cannot take: mixing it with NaN (a float) raises `OverflowError` -/
def tooBig (v : Val) : Bool :=
  match v with
  | .int x => decide (x.natAbs ≥ 2 ^ 1024 - 2 ^ 970)
  | _ => false

def hasNan (a b : Val) : Bool :=
  (match a with | .nan => true | _ => false) || (match b with | .nan => true | _ => false)

/-- the Python operator itself on the manager suite's values; `//` and `%` by zero raise, and so does the
    conversion of an int beyond the float range when the other operand is a float (NaN) -/
def pyBinRaw (op : String) (a b : Val) : Except Err Val :=
  if !(isNum a && isNum b) then .error .typeError else
  if hasNan a b && (tooBig a || tooBig b) && (op = "Add" || op = "Sub" || op = "Mul" || op = "Floordiv" || op = "Mod") then
    .error .overflow else
  match op with
  | "Add" => (match a, b with | .int x, .int y => .ok (.int (x + y)) | _, _ => .ok .nan)
  | "Sub" => (match a, b with | .int x, .int y => .ok (.int (x - y)) | _, _ => .ok .nan)
  | "Mul" => (match a, b with | .int x, .int y => .ok (.int (x * y)) | _, _ => .ok .nan)
  | "Floordiv" =>
    (match a, b with
     | _, .int 0 => .error .zeroDiv
     | .int x, .int y => .ok (.int (Int.fdiv x y))
     | _, _ => .ok .nan)
  | "Mod" =>
    (match a, b with
     | _, .int 0 => .error .zeroDiv
     | .int x, .int y => .ok (.int (Int.fmod x y))
     | _, _ => .ok .nan)
  | _ => .error .typeError

/-- `BinOpExpr._get_value`: the three guarded classes (here `//`, `%`) turn `ZeroDivisionError` into NaN -/
def pyBin (op : String) (a b : Val) : Except Err Val :=
  match pyBinRaw op a b with
  | .error .zeroDiv => .ok .nan
  | r => r

def pyUn (op : String) (a : Val) : Except Err Val :=
  match a with
  | .int x => (match op with
      | "Neg" => .ok (.int (-x)) | "Pos" => .ok (.int x) | _ => .error .typeError)
  | .nan => (match op with | "Neg" | "Pos" => .ok .nan | _ => .error .typeError)
  | _ => .error .typeError

def pySem : Sem := ⟨pyBin, pyUn⟩

/-! ### tasks -/

inductive Kind where
  | expr (e : Expr)
  /-- a `FunctionTask` whose action assigns `target := expr` for each pair, in order -/
  | func (body : List (Path × Expr))
  /-- a `LinearKnob`: `t += w * (source - prev)` for each target -/
  | knob (src : Path) (ws : List Int) (tars : List Path)

structure MTask where
  id : Path
  kind : Kind
  deps : List Path
  tars : List Path

def MTask.toIdx (t : MTask) : Task Path Path := ⟨t.id, t.deps, t.tars⟩

/-- `ExprTask(target, expr)` -/
def mkExprTask (target : Path) (e : Expr) : MTask :=
  ⟨target, .expr e, exprDeps e, chainR target⟩

structure MState where
  store : Val
  idx : Mgr Path Path
  defs : List MTask                 -- `Manager.tasks` in insertion order
  prev : List (Path × Val)          -- `LinearKnob.prev_value`
  frozen : Bool
  /-- fault injection: `some k` = k more container writes succeed, the next one raises -/
  faultIn : Option Nat
  /-- log of container writes / action calls of the current call (for the trace judge) -/
  trace : List (Bool × Path)        -- (true, p) = write to p ; (false, id) = action call of task id

def MState.init : MState := ⟨.dict [], Mgr.empty, [], [], false, none, []⟩

def lookDef (defs : List MTask) (id : Path) : Option MTask := defs.find? (fun t => decide (t.id = id))

/-- `self.tasks[taskid]`, `KeyError` for a stale id -/
def lookTask (defs : List MTask) (id : Path) : Except Err MTask :=
  match lookDef defs id with | some t => .ok t | none => .error .keyError

abbrev Res := MState × Option Err

/-- one container write through a ref (`ref._set_value(v)`), with fault injection -/
def writeRef (s : MState) (p : Path) (v : Val) : Res :=
  match set s.store p v with
  | .error e => (s, some (e))
  | .ok σ' =>
    match s.faultIn with
    | some 0 => ({ s with faultIn := none }, some .fault)
    | some (k+1) => ({ s with store := σ', faultIn := some k, trace := s.trace ++ [(true, p)] }, none)
    | none => ({ s with store := σ', trace := s.trace ++ [(true, p)] }, none)

def evalE (s : MState) (e : Expr) : Except Err Val := eval pySem s.store e

def lookPrev (prev : List (Path × Val)) (id : Path) : Val :=
  match prev.find? (fun p => decide (p.1 = id)) with | some p => p.2 | none => .none

def setPrev (prev : List (Path × Val)) (id : Path) (v : Val) : List (Path × Val) :=
  (prev.filter (fun p => !decide (p.1 = id))) ++ [(id, v)]

/-- `FunctionTask` body: evaluate, write, next pair -/
def runBody (s : MState) : List (Path × Expr) → Res
  | [] => (s, none)
  | (p, e) :: rest =>
    match evalE s e with
    | .error x => (s, some x)
    | .ok v =>
      match writeRef s p v with
      | (s1, some x) => (s1, some x)
      | (s1, none) => runBody s1 rest

def runKnobLoop (s : MState) (delta : Val) : List (Int × Path) → Res
  | [] => (s, none)
  | (w, t) :: rest =>
    match get s.store t with
    | .error e => (s, some (e))
    | .ok old =>
      match pyBin "Mul" (.int w) delta with
      | .error e => (s, some (e))
      | .ok wd =>
        match pyBin "Add" old wd with
        | .error e => (s, some (e))
        | .ok nv =>
          match writeRef s t nv with
          | (s1, some x) => (s1, some x)
          | (s1, none) => runKnobLoop s1 delta rest

/-- `task.run()` -/
def runTask (s : MState) (t : MTask) : Res :=
  match t.kind with
  | .expr e =>
    match evalE s e with
    | .error x => (s, some x)
    | .ok v => writeRef s t.id v
  | .func body =>
    -- the action call itself is an event; its writes are not logged one by one
    let s0 := { s with trace := s.trace ++ [(false, t.id)] }
    let tr := s0.trace
    match runBody s0 body with
    | (s1, x) => ({ s1 with trace := tr }, x)
  | .knob src ws tars =>
    match get s.store src with
    | .error e => (s, some (e))
    | .ok value =>
      match pyBin "Sub" value (lookPrev s.prev t.id) with
      | .error e => (s, some (e))
      | .ok delta =>
        match runKnobLoop s delta (ws.zip tars) with
        | (s1, some x) => (s1, some x)
        | (s1, none) => ({ s1 with prev := setPrev s1.prev t.id value }, none)

/-- `Manager.run_tasks(list)` -/
def runTasks (s : MState) : List MTask → Res
  | [] => (s, none)
  | t :: rest =>
    match runTask s t with
    | (s1, some x) => (s1, some x)
    | (s1, none) => runTasks s1 rest

/-! ### graph queries -/

/-- adjacency of the ordering graph as the code reads it: keys of `rtasks[u]` -/
def gOf (m : Mgr Path Path) (u : Path) : List Path := RC.keys (DD.get m.rtasks u)

/-- `start_tasks` of `find_taskids(start_deps)` -/
def startOf (m : Mgr Path Path) (startDeps : List Path) : List Path :=
  uniq (startDeps.flatMap (fun d => RC.keys (DD.get m.deptasks d)))

def fuelOf (m : Mgr Path Path) : Nat :=
  m.tasks.length + (m.rtasks.foldl (fun n r => n + 1 + r.2.length) 0) + 1

/-- `Manager.find_taskids(start_deps)` -/
def findTaskids (m : Mgr Path Path) (startDeps : List Path) : List Path :=
  Dfs3.toposort (gOf m) (fuelOf m) (startOf m startDeps)

/-- `Manager.find_tasks`: `[self.tasks[taskid] for taskid in …]`, `KeyError` for a stale id -/
def findTasks (s : MState) (startDeps : List Path) : Except Err (List MTask) :=
  (findTaskids s.idx startDeps).mapM (lookTask s.defs)

/-- `Manager.find_deps(start_set)`: toposort over `rdeps` -/
def findDeps (m : Mgr Path Path) (start : List Path) : List Path :=
  Dfs3.toposort (fun u => RC.keys (DD.get m.rdeps u))
    (m.rdeps.foldl (fun n r => n + 1 + r.2.length) 0 + start.length + 1) start

/-! ### register / unregister / set_value -/

def frozenErr : Err := .valueError

/-- `Manager.register(task)`; `self.tasks[taskid] = task` keeps the position of an existing key -/
def register (s : MState) (t : MTask) : Res :=
  if s.frozen then (s, some frozenErr) else
  let defs := match lookDef s.defs t.id with
    | some _ => s.defs.map (fun x => if x.id = t.id then t else x)
    | none => s.defs ++ [t]
  let idx := register' { s.idx with tasks := s.idx.tasks.filter (fun x => !decide (x.id = t.id)) } t.toIdx
  let prev := match t.kind with
    | .knob src _ _ => (match get s.store src with
        | .ok v => setPrev s.prev t.id v | .error _ => s.prev)
    | _ => s.prev
  ({ s with defs := defs, idx := idx, prev := prev }, none)

/-- `Manager.unregister(taskid)`; `self.tasks[taskid]` raises `KeyError` for an unknown id -/
def unregister (s : MState) (id : Path) : Res :=
  if s.frozen then (s, some frozenErr) else
  match lookDef s.defs id with
  | none => (s, some .keyError)
  | some t =>
    ({ s with defs := s.defs.filter (fun x => !decide (x.id = id)),
              idx := unregister' s.idx t.toIdx }, none)

/-- A scheduler stands for the iteration order of Python's sets: it may reorder the list that the
    model's own `toposort` produced.  The theorems quantify over all schedulers that return a valid
    schedule (`validSchedule`); the driver plugs in the order the implementation actually used. -/
abbrev Sched := List Path → List Path

/-- the tail of `set_value`: write, then run the dependants -/
def writeAndRun (sched : Sched) (s : MState) (p : Path) (v : Val) : Res :=
  match writeRef s p v with
  | (s1, some x) => (s1, some x)
  | (s1, none) =>
    match (sched (findTaskids s1.idx (chainR p))).mapM (lookTask s1.defs) with
    | .error x => (s1, some x)
    | .ok l => runTasks s1 l

/-- `Manager.set_value(ref, value)` with a plain value -/
def setValue (sched : Sched) (s : MState) (p : Path) (v : Val) : Res :=
  let (s0, x0) := match lookDef s.defs p with
    | some _ => unregister s p
    | none => (s, none)
  match x0 with
  | some x => (s0, some x)
  | none => writeAndRun sched s0 p v

/-- `Manager.set_value(ref, expr)` -/
def setExpr (sched : Sched) (s : MState) (p : Path) (e : Expr) : Res :=
  let (s0, x0) := match lookDef s.defs p with
    | some _ => unregister s p
    | none => (s, none)
  match x0 with
  | some x => (s0, some x)
  | none =>
    match register s0 (mkExprTask p e) with
    | (s1, some x) => (s1, some x)
    | (s1, none) =>
      match evalE s1 e with
      | .error x => (s1, some x)
      | .ok v => writeAndRun sched s1 p v

/-- the body of a function produced by `gen_fun`: plain assignments of the arguments to their
    locations, then the listed tasks in order; it runs on the containers without the manager -/
def execGen (sched : Sched) (s : MState) (args : List (Path × Val)) : Res :=
  let rec assign (s : MState) : List (Path × Val) → Res
    | [] => (s, none)
    | (p, v) :: rest =>
      match writeRef s p v with
      | (s1, some x) => (s1, some x)
      | (s1, none) => assign s1 rest
  match assign s args with
  | (s1, some x) => (s1, some x)
  | (s1, none) =>
    -- `mk_fun` (repaired): the start set is the owner chains of all argument refs
    match (sched (findTaskids s1.idx (args.flatMap (fun a => chainR a.1)))).mapM (lookTask s1.defs) with
    | .error x => (s1, some x)
    | .ok l => runTasks s1 l

/-- current expression of a location (`ref._expr`) -/
def exprOf (s : MState) (p : Path) : Option Expr :=
  match lookDef s.defs p with
  | some t => (match t.kind with | .expr e => some e | _ => none)
  | none => none

/-- `ref[k] ⊕= operand`: `__getitem__`, `__i⊕__` (old expression or old value), `__setitem__` -/
def inplace (sched : Sched) (s : MState) (op : String) (p : Path) (operand : Expr) : Res :=
  match exprOf s p with
  | some e => setExpr sched s p (.bin op e operand)
  | none =>
    match get s.store p with
    | .error e => (s, some (e))
    | .ok old =>
      match operand with
      | .lit w =>
        -- plain value ⊕ literal: the Python operator itself, unguarded
        (match pyBinRaw op old w with
         | .error e => (s, some e)
         | .ok v => setValue sched s p v)
      | _ =>
        -- old value ⊕ ref: Python evaluates `value.__op__(ref)` → NotImplemented → `ref.__rop__(value)`
        setExpr sched s p (.bin op (.lit old) operand)

/-! ### maintenance operations -/

def cleanupDD {ρ κ} (d : DD ρ κ) : DD ρ κ := d.filter (fun r => !r.2.isEmpty)

/-- `Manager.cleanup()` -/
def cleanup (s : MState) : MState :=
  { s with idx := { s.idx with rdeps := cleanupDD s.idx.rdeps, rtasks := cleanupDD s.idx.rtasks,
                                deptasks := cleanupDD s.idx.deptasks, tartasks := cleanupDD s.idx.tartasks } }

/-- indices regenerated from the task table (`clone()` / the body of `refresh()`) -/
def regen (defs : List MTask) : Mgr Path Path :=
  defs.foldl (fun m t => register' m t.toIdx) Mgr.empty

/-- `Manager.refresh()` (with the freeze guard first) -/
def refresh (s : MState) : Res :=
  if s.frozen then (s, some frozenErr) else
  (cleanup { s with idx := regen s.defs }, none)

def support {ρ κ} (d : DD ρ κ) : List (ρ × List κ) :=
  (d.filter (fun r => !r.2.isEmpty)).map (fun r => (r.1, RC.keys r.2))

def sameSet {α} [DecidableEq α] (a b : List α) : Bool := a.all (· ∈ b) && b.all (· ∈ a)

def ddAgree {ρ κ} [DecidableEq ρ] [DecidableEq κ] (a b : DD ρ κ) : Bool :=
  (support a).all (fun r => sameSet r.2 (RC.keys (DD.get b r.1)))

/-- `Manager.verify()`: cleanup, then compare every row with the regenerated one -/
def verify (s : MState) : Res :=
  let s1 := cleanup s
  let o := regen s1.defs
  if ddAgree s1.idx.rdeps o.rdeps && ddAgree s1.idx.rtasks o.rtasks &&
     ddAgree s1.idx.deptasks o.deptasks && ddAgree s1.idx.tartasks o.tartasks
  then (s1, none) else (s1, some .valueError)

/-- `Manager.load(dump, overwrite)` on already-parsed pairs -/
def load (s : MState) (overwrite : Bool) : List (Path × Expr) → Res
  | [] => (s, none)
  | (p, e) :: rest =>
    match lookDef s.defs p with
    | some _ =>
      if overwrite then
        match unregister s p with
        | (s1, some x) => (s1, some x)
        | (s1, none) =>
          (match register s1 (mkExprTask p e) with
           | (s2, some x) => (s2, some x)
           | (s2, none) => load s2 overwrite rest)
      else load s overwrite rest
    | none =>
      match register s (mkExprTask p e) with
      | (s2, some x) => (s2, some x)
      | (s2, none) => load s2 overwrite rest

/-- `Manager.dump()` as structure: the expression tasks in table order -/
def dump (s : MState) : List (Path × Expr) :=
  s.defs.filterMap (fun t => match t.kind with | .expr e => some (t.id, e) | _ => none)

/-! ### the API as one transition function -/

inductive Call where
  | setValue (p : Path) (v : Val)
  | setExpr (p : Path) (e : Expr)
  | inplace (op : String) (p : Path) (operand : Expr)
  | register (t : MTask)
  | unregister (id : Path)
  | load (overwrite : Bool) (pairs : List (Path × Expr))
  | refresh
  | cleanup
  | verify

def apply (sched : Sched) (s : MState) : Call → Res
  | .setValue p v => setValue sched s p v
  | .setExpr p e => setExpr sched s p e
  | .inplace op p operand => inplace sched s op p operand
  | .register t => register s t
  | .unregister id => unregister s id
  | .load ow pairs => load s ow pairs
  | .refresh => refresh s
  | .cleanup => (cleanup s, none)
  | .verify => verify s

/-- a history: the calls are made one after the other whatever their outcome (the caller catches) -/
def applyAll (sched : Sched) (s : MState) : List Call → MState
  | [] => s
  | c :: cs => applyAll sched (apply sched s c).1 cs

/-! ### decidable hypotheses of the order-independence theorem (Appendix B of DESIGN.md) -/

def isPrefix : Path → Path → Bool
  | [], _ => true
  | _ :: _, [] => false
  | a :: p, b :: q => decide (a = b) && isPrefix p q

def comparable (p q : Path) : Bool := isPrefix p q || isPrefix q p

/-- position-wise: no later element has a declared edge to a different earlier element
    (adjacency lists are looked up once per element) -/
def respectsAdj : List (Path × List Path) → Bool
  | [] => true
  | (u, _) :: rest => rest.all (fun tg => decide (tg.1 = u) || !(tg.2.contains u)) && respectsAdj rest

def respectsEdges (g : Path → List Path) (l : List Path) : Bool :=
  respectsAdj (l.map (fun u => (u, g u)))

/-- H1, decided: among the tasks reachable from the start set no two distinct tasks reach each
    other.  A linear order respecting every edge between distinct vertices exists iff there is no
    such cycle, and the depth-first order is one whenever there is none (`Dfs3.toposort_before`), so
    it suffices to test the order the model computes. -/
def acyclicFrom (m : Mgr Path Path) (start : List Path) : Bool :=
  respectsEdges (gOf m) (Dfs3.toposort (gOf m) (fuelOf m) start)

/-- `π` is a legal execution list for the start set: each triggered task exactly once, nothing else,
    and (when the declared graph is acyclic below the start set) producers before consumers -/
def validSchedule (m : Mgr Path Path) (startDeps : List Path) (π : List Path) : Bool :=
  let L := findTaskids m startDeps
  decide (dedup π = π) && sameSet π L &&
    (!(acyclicFrom m (startOf m startDeps)) || respectsEdges (gOf m) π)

def leafTargets (t : MTask) : List Path :=
  match t.kind with
  | .expr _ => [t.id]
  | .func body => body.map (·.1)
  | .knob _ _ tars => tars

/-- H2 (first half): the locations written by distinct tasks are prefix-incomparable -/
def targetsIncomparable (defs : List MTask) : Bool :=
  defs.all (fun t => defs.all (fun u => decide (t.id = u.id) ||
    (leafTargets t).all (fun a => (leafTargets u).all (fun b => !(comparable a b)))))

/-- H2 (second half): the assigned path is not above/below a location a task writes (equal is fine:
    `set_value` unregisters that task first) -/
def assignClear (defs : List MTask) (p : Path) : Bool :=
  defs.all (fun t => (leafTargets t).all (fun a => decide (a = p) && decide (t.id = p) || !(comparable a p)))

/-- H3: no task reads a location comparable with one it writes -/
def noSelfRead (defs : List MTask) : Bool :=
  defs.all (fun t =>
    let reads := match t.kind with
      | .expr e => leafRefs e
      | .func body => body.flatMap (fun (b : Path × Expr) => leafRefs b.2)
      | .knob src _ _ => [src]
    (leafTargets t).all (fun a => reads.all (fun r => !(comparable a r))))

end Manager
